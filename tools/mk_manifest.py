"""Regenerate MANIFEST.json from the table below (run from /verif)."""
import json, os

CLAIMED = {
 "C01": dict(cat="proof", tech="Lean 4 theorems (structural induction over expressions) + seeded differential correspondence against the simulator",
   text="Lean theorems shape_sound / rtl_exact / rtl_operand_mask: for every well-formed expression of any depth and widths and every environment, the documented result shape contains the exact integer and the compiled simulator's value equals it. The hand-written model (shapeOf, evalRtl) and the Spec (denote) are tied to /repo on every run by a correspondence check: the exhaustive depth-1 operator table over operand widths 0..3 (all value pairs) and thousands of random deep expressions are simulated with the real code and compared with Model and Spec values computed by the native Lean driver.",
   note="Trusted: Lean kernel (axioms: propext, Classical.choice, Quot.sound), Lean compiler for the driver, the Python harness/generator, the binary-cat / ite-chain encoding of Concat/SwitchValue, CPython exec of the generated process source. Derived operators (abs, rotate, shift_left/right, matches, replicate, Mux, Array) are covered through the AST amaranth constructs for them, not through separate specs.",
   ref="DESIGN.md §6 C01"),
 "C05": dict(cat="proof", tech="Lean 4 theorems (induction over expressions) + differential correspondence of ctx.get/ctx.set against circuits, model and bit-level spec",
   text="Reads: theorems tb_exact / tb_eq_circuit prove, for every well-formed expression, that the model of eval_value returns the exact integer and hence what a combinational signal assigned the expression holds. Writes: the models of _eval_assign_inner (windows) and of the compiled LHS read-modify-write, and a per-bit Spec (lbits/applyBits: position k of the target is bit b of signal i or is dropped), are executed by the Lean driver; on every run thousands of random targets (slices, concatenations, part-selects with signal offsets incl. beyond the target, zero-width selectors, array elements, sign reinterpretations, nestings) x states x values are written both with ctx.set and with a one-shot sync assignment in a real circuit and all signals are compared with each other, with the models and with the Spec.",
   note="Proved for all inputs: the read half. The write half (set_spec, set_eq_circuit) is at present tied by correspondence only (model = spec = impl on every sampled case); see DESIGN.md. Recorded finding F9 (aliased concatenation under a slice/part-select in compiled circuits) is classified, not hidden. Memory rows as targets are exercised by C11. Trusted: as C01.",
   ref="DESIGN.md §6 C05"),
 "C17": dict(cat="proof", tech="Lean 4 theorems (simulation relations over arbitrary event schedules, any stage count) + exhaustive/random schedule correspondence against the real primitives",
   text="Theorems for every stage count n>=1, width, init value, edge polarity and every schedule of input-clock edges, output-clock edges, coincident edges and input changes: ff_latency / ff_initial_until_stages / ff_change_visible_at_stages (FFSynchronizer is an n-sample delay line in output edges), async_assert_immediate / async_release_after_stages (AsyncFFSynchronizer, ResetSynchronizer), pulse_single_cycle / pulse_conservation / pulse_never_spurious / pulse_loss_without_spacing (PulseSynchronizer: exactly one high output cycle per input pulse iff an output edge separates consecutive pulses; the hypothesis is proved necessary). The register-by-register model is tied to lib/cdc.py by replaying every transition of the enumerated reachable model graphs, and random schedules, on the real primitives with hand-driven clocks.",
   note="Trusted: Lean kernel + standard axioms, Lean compiler for the driver, the harness. Input changes coincident with a clock edge (a physical race) are not in the schedules; domain resets of the wrapper domains are never asserted; platform overrides are not exercised.",
   ref="DESIGN.md §6 C17"),
 "C10": dict(cat="proof", tech="Lean 4 theorems (minimality/uniqueness by arithmetic on powers of two) + exhaustive small-domain correspondence against Shape.cast / Const / Signal init",
   text="21 theorems for all integers, ranges, enumerations and constant trees: ceil_log2_spec, bits_for_spec (least width), range_contains / range_minimal / range_signed / range_empty_zero / range_narrowest (castRange is the unique narrowest shape of the range's elements and equals a brute-force search), enum_spec, const_norm (unique representative modulo 2^w inside the shape), const_cast_eval (Const.cast of Const/Cat/Slice trees equals evaluation), init_wrap / init_range / init_memory. The model (castRange, castEnum, constNorm written with Python's bit operators, constCast, initValue) is tied to /repo by exhaustive enumeration: all ranges with start, stop in [-40,40], step in [-9,9], rings around powers of two up to 2^70, all enums of <=3 members from a 15-value pool in three enum flavours, all (v, shape) with |v|<=300, w<=9, bits_for on [-1100,1100] and around 2^k up to 2^200, signal and memory initial values.",
   note="Trusted: Lean kernel + standard axioms, Lean compiler for the driver, the harness. ShapeCastable shapes (layouts, shaped enums) are C15's. F15 (len(range) overflow for ranges of >= 2^63 elements) was found by this check and repaired.",
   ref="DESIGN.md §6 C10"),
 "C12": dict(cat="proof", tech="Lean 4 refinement proof (invariant + abstraction to a bounded List queue, induction over all input sequences) + full reachable-graph and random-walk correspondence against the simulated FIFOs",
   text="27 theorems for every width, depth (0, 1, powers of two and non-powers) and every input sequence: the register-level models of SyncFIFO and SyncFIFOBuffered (produce/consume/level with _incr's wrap, storage, the buffered variant's inner FIFO, output register and r_rdy register, depth-0/1 special cases) refine a bounded List queue (sync_refines, buffered_refines; Inv holds initially and is preserved), outputs are exactly the queue's view (r_rdy iff non-empty, r_data = head, w_rdy iff length < depth / implies, level = r_level = w_level = length), pushed = popped ++ held (order, no loss, no duplication), liveness (w_rdy with >=1 / >=2 free slots; oldest entry readable now or next cycle). A Spec monitor with the property's eight clauses judges observed traces of the real FIFOs; the model is tied by the complete reachable state graph of the implementation for depth <= 4, width <= 1 (thorough: more) and by long random walks over depths {0..33} and widths {0,1,4,9}.",
   note="Trusted: Lean kernel + standard axioms, Lean compiler for the driver, the harness. Reset is held de-asserted (reset behaviour is C03). The graph stream locates registers by signal name.",
   ref="DESIGN.md §6 C12"),
 "C02": dict(cat="proof", tech="Lean 4 theorems (mutual structural recursion over nested DSL programs) + differential correspondence of simulated DSL programs against lowered-statement model and program-level spec",
   text="Theorem lowering_sound: for every program (any nesting of If/Elif/Else, Switch/Case/Default with string, integer, unrepresentable-integer and multi-patterns) and every state, executing the Switch statements that the model of Module._pop_ctrl produces, the way the compiled simulator does, performs exactly the active assignments of the program as written (first non-zero condition / first matching case; at most one block per construct), in program order with exact right-hand-side values; with if_pattern_selects, default_matches, int_pattern_normalised, pattern_compare for the pattern encodings. The tie: random DSL programs are built through the real Module DSL, simulated (comb settle and sync edges, all driven signals compared after every step) and compared with (a) the Lean model run on the statements amaranth actually lowered, (b) the Lean model of the lowering itself, (c) the Lean Spec (last active write wins per bit via lbits/applyBits, driven bits start from init / previous value).",
   note="Proved for all inputs: control-flow lowering and pattern encodings. The bit-level half (one assignment writes exactly the addressed bits; commit masks) is tied by correspondence only (impl = model = spec on every sampled case) and needs NoAlias because of recorded finding F9. FSM is exercised by C03/C20's generators only through its lowered Switch; the FSM-specific sentences (initial state, ongoing()) are checked by correspondence in this check's FSM stream when present. Trusted: as C01.",
   ref="DESIGN.md §6 C02"),
 "C16": dict(cat="proof", tech="Lean 4 theorems (linearity of the shift-and-reduce step, induction over word lists and cycle lists) + regenerated CRC catalogue checked by decide +kernel + correspondence against compute and the simulated Processor",
   text="Theorems for all parameters, data widths (also wider than the CRC) and word lists: S_linear / batch, compute_eq_williams (Parameters.compute equals the bit-serial Williams model), hw_eq_compute / hw_eq_williams (the Processor's register after any list of (start, valid, data) cycles shows the CRC of the words since the last start), residue_match, residue_only (odd polynomials), even_poly_false_match (recorded finding: for even polynomials another trailer also matches). The catalogue (157 names, 112 parameter sets) and its published check values are re-extracted from /repo with Python's ast on every run into Generated/CrcCatalog.lean and catalog_checks / catalog_compute_checks / catalog_residues are re-proved by decide +kernel; a changed entry breaks the proof and the check then names the failing entry by running the real code. Correspondence: all catalogue entries x data widths {1,3,8,w,w+5} x messages, random parameter sets, constructor range checks, the simulated Processor with random start/valid scripts, match detection with true and corrupted trailers.",
   note="Trusted: Lean kernel + standard axioms (decide +kernel adds none), the ast-based table translator, Lean compiler for the driver, the harness. Known finding C16-even-poly is reported as KNOWN-FINDING, not hidden.",
   ref="DESIGN.md §6 C16"),
 "C18": dict(cat="proof", tech="Lean 4 theorems (per-bit algebra over arbitrary port expression trees, event-sequence induction for registers, list induction for the single-use table) + exhaustive small-width correspondence against lib.io and the netlist builder",
   text="29 theorems: port_algebra (+ _diff, _sim, _getitem, _slice, _add, _invert, _direction) for every expression tree of subscripts, + and ~ over the three port classes; buffer_legal / ffbuffer_legal; buffer_o / buffer_oe / buffer_i / bidir_loopback / buffer_width; ffbuffer_registers / ffbuffer_one_stage / ffbuffer_domains over arbitrary event sequences of two clocks; buffer_real_single / buffer_real_diff (inversion on the fabric side, n half complemented); single_use (+ _conflict, _accept, _exactly_one) for any sequence of buffer cells. Tied to /repo by exhaustive enumeration over widths 0-6 x all inversion masks x all directions x legal and illegal port/buffer combinations, all integer keys and unit-step slices, random trees of depth <= 4, simulation of Buffer and FFBuffer on SimulationPorts with hand-driven clocks, and netlists of real ports (IOBuffer cells collected and evaluated; double use must raise DriverConflict).",
   note="Trusted: Lean kernel + standard axioms, Lean compiler for the driver, the harness and its small netlist interpreter. DDRBuffer is covered up to its constructor only.",
   ref="DESIGN.md §6 C18"),
 "C13": dict(cat="proof", tech="Lean 4 invariant/refinement proof over arbitrary interleavings of two clocks (Gray-code lemmas for any width) + reachable-graph and random-interleaving correspondence against the simulated FIFOs",
   text="38 theorems for every event list over {write edge, read edge, coincident edges} x strobes, every counter width >= 1 and data width: Gray lemmas (gray_xor, gray_inj, gray_decode, gray_succ_one_bit, gray_wrap_one_bit, gray_full_test, gray_full_test_counters); for AsyncFIFO and AsyncFIFOBuffered: *_order (delivered words are exactly the first accepted words, in order), *_r_data, *_not_full_overrun, *_held_le_depth, *_levels_in_range, drains / drains_all with explicit edge bounds (2 resp. 3 read edges), *_refines_queue2 (a two-sided Spec monitor accepts every run from power-on, including the r_rst power-on transient), depth_rounding*, built_*, elaborates (every constructible depth). The register-level model is tied to lib/fifo.py by loading every reachable model state into the real registers for the smallest depths and comparing every successor, by random interleavings with hand-driven clocks over depths {0..17} and widths {0,1,4}, by the exhaustive Gray tables and by a constructor sweep over depths 0..70.",
   note="Trusted: Lean kernel + standard axioms, Lean compiler for the driver, the harness. The write-domain reset asserted mid-run is not modelled (the property does not quantify over resets). F6 (depth-1 elaboration) was found and repaired; elaborates_old_partial keeps the old behaviour with its witness.",
   ref="DESIGN.md §6 C13"),
 "C15": dict(cat="proof", tech="Lean 4 theorems (list induction over resolved layout entries, mutual induction over layout trees) + exhaustive-bit-pattern correspondence against lib.data / lib.enum, simulation and Python's enum.Flag",
   text="21 theorems over all layout trees, widths, offsets, bit patterns and initialisers: struct_offsets, union_offsets, array_offsets, field_in_bounds, struct_array_nonoverlapping, const_bits (last covering write wins per bit, also for overlapping flexible layouts), const_in_range, const_field / const_field_lifted / const_field_all, bits_roundtrip, const_from_bits_law, view_is_slice, view_eq_const, view_nested, view_slice_slice, field_assign_local, enum_roundtrip, flag_ops, flag_invert (STRICT/CONFORM), flag_invert_keep_eject_partial (full statement false of the code: recorded finding F16). Tied to /repo by random layout trees (struct/union/array/flexible, depth <= 4, signed, enum, zero-width fields, overlaps) with all raw bit patterns for size <= 10, Layout.const, Const[...], from_bits, Signal.like, simulated View reads and testbench/comb/sync writes through field paths, RTLIL elaboration, and generated Enum/Flag classes with Python's own enum.Flag as the oracle of the flag clause.",
   note="Trusted: Lean kernel + standard axioms, Lean compiler for the driver, the harness, CPython's enum.Flag as oracle. F11, F12, F17 were found/confirmed by this check and repaired; F16 is reported as KNOWN-FINDING (its repair changes a repr pinned by the repo's tests). 'In synthesis alike' is checked only as far as RTLIL elaboration; RTLIL behaviour is C04.",
   ref="DESIGN.md §6 C15"),
}

NOT_APPLICABLE = {
}

PENDING_REASON = "check not yet built in this session (work in progress; see DESIGN.md §9 for the order)"

def main():
    props = [json.loads(l)["id"] for l in open("properties.jsonl")]
    checks = []
    for pid in props:
        if pid in CLAIMED and os.path.exists(f"harness/checks/{pid.lower()}.py"):
            c = CLAIMED[pid]
            checks.append({
                "property_id": pid,
                "quick_cmd": f"./check {pid} --tier quick",
                "thorough_cmd": f"./check {pid} --tier thorough",
                "evidence_file": f"evidence/{pid}.json",
                "replay_cmd_template": f"./check {pid} --replay {{path}}",
                "engine": "lean4+correspondence",
                "level_claimed": {"category": c["cat"], "text": c["text"], "design_ref": c["ref"]},
                "level_note": c["note"],
                "technique": c["tech"],
            })
    na = []
    for pid in props:
        if pid not in [c["property_id"] for c in checks]:
            na.append({"property_id": pid, "reason": NOT_APPLICABLE.get(pid, PENDING_REASON)})
    m = {
        "version": 1,
        "setup_cmd": "cd lean && lake build",
        "hooks": {"guard": "AMARANTH_VERIF", "enable": "no source hooks are needed: checks import amaranth from /repo's working tree and observe it through its API (AMARANTH_VERIF=1 is set by the harness but read by nothing in /repo)",
                  "baseline_off_cmd": "cd /repo && /venv/bin/python -m pytest -ra -q -p no:cacheprovider --timeout=900 --continue-on-collection-errors",
                  "source_commits": [], "add_only": True},
        "engines": [{"name": "lean4+correspondence", "path": "lean/ harness/", "serves_properties": [c["property_id"] for c in checks],
                     "kind_free_text": "Lean 4 model + theorems (lake project in lean/), native model drivers, Python correspondence harness that runs the real amaranth code on the same inputs"}],
        "checks": checks,
        "not_applicable": na,
        "notes": "See DESIGN.md. known_findings.txt lists repaired (fixed:) and recorded (known:) defects.",
    }
    json.dump(m, open("MANIFEST.json", "w"), indent=1)
    print("claimed:", [c["property_id"] for c in checks])

main()
