"""Regenerate MANIFEST.json from the table below (run from /verif)."""
import json, os

CLAIMED = {
 "C01": dict(cat="proof", tech="Lean 4 theorems (structural induction over expressions) + seeded differential correspondence against the simulator",
   text="Lean theorems shape_sound / rtl_exact / rtl_operand_mask: for every well-formed expression of any depth and widths and every environment, the documented result shape contains the exact integer and the compiled simulator's value equals it. The hand-written model (shapeOf, evalRtl) and the Spec (denote) are tied to /repo on every run by a correspondence check: the exhaustive depth-1 operator table over operand widths 0..3 (all value pairs) and thousands of random deep expressions are simulated with the real code and compared with Model and Spec values computed by the native Lean driver.",
   note="Trusted: Lean kernel (axioms: propext, Classical.choice, Quot.sound), Lean compiler for the driver, the Python harness/generator, the binary-cat / ite-chain encoding of Concat/SwitchValue, CPython exec of the generated process source. Derived operators (abs, rotate, shift_left/right, matches, replicate, Mux, Array) are covered through the AST amaranth constructs for them, not through separate specs.",
   ref="DESIGN.md §6 C01"),
}

NOT_APPLICABLE = {
}

PENDING_REASON = "check not yet built in this session (work in progress; see DESIGN.md §9 for the order)"

def main():
    props = [json.loads(l)["id"] for l in open("properties.jsonl")]
    checks = []
    for pid in props:
        if pid in CLAIMED and os.path.exists(f"harness/checks/{pid.lower()}.py"):
            c = CLAIMED[pid]
            checks.append({
                "property_id": pid,
                "quick_cmd": f"./check {pid} --tier quick",
                "thorough_cmd": f"./check {pid} --tier thorough",
                "evidence_file": f"evidence/{pid}.json",
                "replay_cmd_template": f"./check {pid} --replay {{path}}",
                "engine": "lean4+correspondence",
                "level_claimed": {"category": c["cat"], "text": c["text"], "design_ref": c["ref"]},
                "level_note": c["note"],
                "technique": c["tech"],
            })
    na = []
    for pid in props:
        if pid not in [c["property_id"] for c in checks]:
            na.append({"property_id": pid, "reason": NOT_APPLICABLE.get(pid, PENDING_REASON)})
    m = {
        "version": 1,
        "setup_cmd": "cd lean && lake build",
        "hooks": {"guard": "AMARANTH_VERIF", "enable": "no source hooks are needed: checks import amaranth from /repo's working tree and observe it through its API (AMARANTH_VERIF=1 is set by the harness but read by nothing in /repo)",
                  "baseline_off_cmd": "cd /repo && /venv/bin/python -m pytest -ra -q -p no:cacheprovider --timeout=900 --continue-on-collection-errors",
                  "source_commits": [], "add_only": True},
        "engines": [{"name": "lean4+correspondence", "path": "lean/ harness/", "serves_properties": [c["property_id"] for c in checks],
                     "kind_free_text": "Lean 4 model + theorems (lake project in lean/), native model drivers, Python correspondence harness that runs the real amaranth code on the same inputs"}],
        "checks": checks,
        "not_applicable": na,
        "notes": "See DESIGN.md. known_findings.txt lists repaired (fixed:) and recorded (known:) defects.",
    }
    json.dump(m, open("MANIFEST.json", "w"), indent=1)
    print("claimed:", [c["property_id"] for c in checks])

main()
