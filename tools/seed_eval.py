"""Confirm a seeded change and run checks against it.
usage: python tools/seed_eval.py <ID-k> <patch.diff> <demo.py> <notes.md> <check-id>[,<check-id>…] [--no-baseline]
Creates a scratch worktree of /repo HEAD under /tmp, confirms (demo passes clean, fails with the change; pinned suite
unchanged), runs the named checks with VERIF_REPO pointing at the changed worktree, stores everything under
/verif/seeded/<ID-k>/ and removes the worktree."""
import json, os, shutil, subprocess, sys, time

name, patch, demo, notes, checks = sys.argv[1:6]
no_base = "--no-baseline" in sys.argv
wt = f"/tmp/seedrun-{name}"
verif = os.path.dirname(os.path.dirname(os.path.abspath(__file__)))

def run(cmd, **kw):
    p = subprocess.run(cmd, shell=True, capture_output=True, text=True, **kw)
    return p.returncode, "\n".join(l for l in (p.stdout + p.stderr).splitlines() if "conda" not in l)

run(f"git -C /repo worktree remove --force {wt}")
rc, out = run(f"git -C /repo worktree add --detach {wt} HEAD")
assert rc == 0, out
meta = {"id": name, "property": name.split("-")[0], "repo_head": run("git -C /repo rev-parse --short HEAD")[1].strip(),
        "notes": open(notes).read() if os.path.exists(notes) else ""}
try:
    rc, out = run(f"PYTHONPATH={wt} /venv/bin/python {demo}")
    meta["demo_clean"] = {"exit": rc, "tail": out[-300:]}
    rc, out = run(f"git -C {wt} apply {patch}")
    meta["applies"] = rc == 0
    if rc != 0:
        meta["apply_error"] = out[-500:]
    else:
        rc, out = run(f"PYTHONPATH={wt} /venv/bin/python {demo}")
        meta["demo_changed"] = {"exit": rc, "tail": out[-400:]}
        if not no_base:
            rc, out = run(f"/venv/bin/python {verif}/tools/baseline_check.py {wt}")
            meta["baseline_with_change"] = out.strip().splitlines()[0] if out.strip() else str(rc)
        meta["checks"] = {}
        for c in checks.split(","):
            t0 = time.time()
            rc, out = run(f"VERIF_REPO={wt} ./check {c} --tier quick --seed 1", cwd=verif)
            lines = [l for l in out.splitlines() if l.startswith("VIOLATION") or l.startswith("  ") or l.startswith("INFRA")]
            meta["checks"][c] = {"exit": rc, "caught": rc == 1, "wall_s": round(time.time() - t0, 1), "first_lines": lines[:4]}
finally:
    run(f"git -C /repo worktree remove --force {wt}")
d = os.path.join(verif, "seeded", name)
os.makedirs(d, exist_ok=True)
if os.path.abspath(patch) != os.path.join(d, "patch.diff"):
    shutil.copy(patch, os.path.join(d, "patch.diff"))
    shutil.copy(demo, os.path.join(d, "demo.py"))
old = os.path.join(d, "meta.json")
if os.path.exists(old):
    prev = json.load(open(old))
    if not meta.get("notes"):
        meta["notes"] = prev.get("notes", "")
    if "baseline_with_change" not in meta and "baseline_with_change" in prev:
        meta["baseline_with_change"] = prev["baseline_with_change"]
    hist = prev.get("history", [])
    hist.append({"repo_head": prev.get("repo_head"), "checks": {c: v.get("caught") for c, v in prev.get("checks", {}).items()}})
    meta["history"] = hist
meta["confirmed"] = bool(meta.get("applies") and meta["demo_clean"]["exit"] == 0 and meta.get("demo_changed", {}).get("exit") not in (0, None)
                         and (no_base or "missing=0" in meta.get("baseline_with_change", "")))
meta["ran"] = [f"PYTHONPATH=<worktree> /venv/bin/python demo.py (clean, then with patch)", "tools/baseline_check.py <worktree>",
               f"VERIF_REPO=<worktree> ./check <id> --tier quick --seed 1 for {checks}"]
json.dump(meta, open(os.path.join(d, "meta.json"), "w"), indent=1)
print(name, "confirmed" if meta["confirmed"] else "NOT-CONFIRMED", {c: v["caught"] for c, v in meta.get("checks", {}).items()})
