"""Run /repo's pinned test suite (guard off) and compare with /root/.vp/BASELINE.json's stable_pass list.
usage: python tools/baseline_check.py [repo_dir]"""
import json, os, subprocess, sys, tempfile
import xml.etree.ElementTree as ET
repo = sys.argv[1] if len(sys.argv) > 1 else "/repo"
base = json.load(open("/root/.vp/BASELINE.json"))
fd, junit = tempfile.mkstemp(suffix=".xml"); os.close(fd)
env = dict(os.environ); env.pop("AMARANTH_VERIF", None)
subprocess.run(["/venv/bin/python", "-m", "pytest", "-ra", "-q", "-p", "no:cacheprovider", "--timeout=900",
                "--continue-on-collection-errors", f"--junitxml={junit}"], cwd=repo, env=env,
               stdout=subprocess.DEVNULL, stderr=subprocess.DEVNULL)
passed = set()
for tc in ET.parse(junit).getroot().iter("testcase"):
    if not any(c.tag in ("failure", "error", "skipped") for c in tc):
        passed.add(f"{tc.get('classname')}::{tc.get('name')}")
os.unlink(junit)
missing = [t for t in base["stable_pass"] if t not in passed]
print(f"stable_pass={len(base['stable_pass'])} passed_now={len(passed)} missing={len(missing)}")
for t in missing[:40]:
    print("  MISSING", t)
sys.exit(1 if missing else 0)
