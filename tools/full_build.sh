#!/bin/sh
# the MANIFEST setup_cmd, from the repository root: every library module and every driver
cd "$(dirname "$0")/.." && /venv/bin/python - <<'EOF'
import json, subprocess, sys
cmd = json.load(open("MANIFEST.json"))["setup_cmd"]
sys.exit(subprocess.call(cmd, shell=True))
EOF
