"""Generator of multi-domain designs with module hierarchies and control wrappers (C03).

A design is a tree: inner nodes only contain submodules; leaves hold the logic, written against the
local domain names "comb" and "sync" with the DSL program generator. Any node may be wrapped by
ResetInserter / EnableInserter / DomainRenamer. Everything is derived from the rng passed in.
"""
from amaranth.hdl import (Signal, Module, Elaboratable, ClockDomain, ResetInserter, EnableInserter,
                          DomainRenamer, Fragment, unsigned)
from amaranth.hdl import _ast as A
from amaranth.hdl import Const
from amaranth.hdl._mem import MemoryInstance

from . import gen_expr, gen_prog
from .common import ser_value

DOMS = ["sync", "d1", "d2"]


class Leaf(Elaboratable):
    def __init__(self, items, mems=()):
        self.items = items
        self.mems = mems

    def elaborate(self, platform):
        m = Module()
        gen_prog.build(m, self.items)
        for k, mem in enumerate(self.mems):
            m.submodules[f"mem{k}"] = mem
        return m


class Node(Elaboratable):
    def __init__(self, children, items=(), mems=()):
        self.children = children
        self.items = items
        self.mems = mems

    def elaborate(self, platform):
        m = Module()
        gen_prog.build(m, self.items)
        for k, mem in enumerate(self.mems):
            m.submodules[f"mem{k}"] = mem
        for k, c in enumerate(self.children):
            m.submodules[f"c{k}"] = c
        return m


class Design:
    pass


def gen_domain(rng, hist, name):
    """a fresh ClockDomain object with a random edge / reset style"""
    kind = rng.choice(["none", "sync", "sync", "async"])
    cd = ClockDomain(name, clk_edge=rng.choice(["pos", "neg"]), reset_less=(kind == "none"),
                     async_reset=(kind == "async"))
    hist[f"domain:{kind}:{cd.clk_edge}"] = hist.get(f"domain:{kind}:{cd.clk_edge}", 0) + 1
    return cd


RENAME_SHAPES_2 = ["swap", "swap", "identity+move", "move+identity"]
RENAME_SHAPES_3 = ["swap", "swap", "chain:source-first", "chain:source-first", "chain:target-first", "rotation", "rotation",
                   "merge", "swap+move"]


def gen_rename_map(rng, names, hist, overlapping=False):
    """a DomainRenamer map with several entries, as the list of its (source, target) items in dictionary order.
    In a swap, a source-first chain and a rotation some target is also a source listed *later*: the entries must act at
    once, not one after the other. The other shapes (target-first chain, merge, identity entries) are controls."""
    shape = rng.choice(RENAME_SHAPES_2 if len(names) == 2 else RENAME_SHAPES_3)
    if overlapping:
        shape = rng.choice(["swap"] if len(names) == 2 else ["swap", "chain:source-first", "rotation", "swap+move"])
    a, b, *c = rng.sample(names, len(names))
    c = c[0] if c else None
    mp = {"swap": [(a, b), (b, a)], "identity+move": [(a, a), (b, a)], "move+identity": [(a, b), (b, b)],
          "chain:source-first": [(a, b), (b, c)], "chain:target-first": [(b, c), (a, b)],
          "rotation": [(a, b), (b, c), (c, a)], "merge": [(a, c), (b, c)], "swap+move": [(a, b), (b, a), (c, a)]}[shape]
    hist["rename_map:" + shape] = hist.get("rename_map:" + shape, 0) + 1
    return mp


def gen_design(rng, hist, *, rename_maps=False, memories=False, attach=True):
    """`rename_maps`: DomainRenamer wrappers may carry maps with several entries (swaps, chains, rotations).
    `memories`: leaves may hold a `lib.memory.Memory` (one write port, 1-2 read ports, any domains) as a submodule.
    `attach=False`: only the wrapped module tree `D.core` is generated; the caller makes the clock domains and the top
    level (`attach_top`), possibly several times for the same tree. The defaults draw exactly the random numbers the
    generator drew before these options existed (C08 shares it)."""
    D = Design()
    ndom = rng.randint(1, 3)
    D.domnames = DOMS[:ndom]
    D.cds = []
    if attach:
        for name in D.domnames:
            D.cds.append(gen_domain(rng, hist, name))
    D.inputs = [Signal(gen_expr.rand_shape(rng, 4), name=f"i{k}") for k in range(rng.randint(2, 3))]
    has_mem = memories and rng.random() < 0.6
    # with memories every control is one bit wide: `EnableInserter` gates a memory port's enable with the *truth value* of
    # the control, the statements with `control == 1`; the two only agree on one-bit controls
    D.ctls = [Signal(unsigned(1 if (has_mem or rng.random() < 0.85) else 2), name=f"k{k}") for k in range(3)]
    D.targets = []          # whole state signals (and memory rows: `MemoryData._Row` values)
    D.leaves = []           # (items, wrappers innermost-first, comb target sigs, sync target values)
    D.rows = {}             # id(row value) -> (MemoryData, index)
    D.force_rl = set()      # ids of observables no reset touches whatever their `reset_less` says: rows, read-port data
    D.names = {}            # id -> display name for rows
    D.bias1 = set()         # ids of one-bit inputs that should mostly be 1 (port enables)

    nleaf = [0]

    def mk_leaf():
        k = nleaf[0]; nleaf[0] += 1
        mk = lambda pre, j, **kw: Signal(sh := gen_expr.rand_shape(rng, 5, allow_zero=False), name=f"{pre}{k}_{j}",
                                         init=gen_expr.rand_value(rng, sh), **kw)
        combT = [mk("c", j) for j in range(rng.randint(0, 2))]
        syncT = [mk("s", j, reset_less=rng.random() < 0.3) for j in range(rng.randint(1, 3))]
        D.targets += combT + syncT
        # a signal whose bits are split between this leaf and the next one (different domains possible)
        sync_bases = list(syncT)
        if D.split_pending is not None:
            sync_bases.append(D.split_pending)
            D.split_pending = None
        elif rng.random() < 0.3:
            s = Signal(unsigned(rng.randint(2, 6)), name=f"split{k}", init=rng.randint(0, 3), reset_less=rng.random() < 0.3)
            cut = rng.randint(1, len(s) - 1)
            D.targets.append(s)
            sync_bases.append(s[:cut])
            D.split_pending = s[cut:]
        offc = [s for s in D.inputs if not s.shape().signed and len(s) <= 3] or [D.ctls[0]]
        g_comb = gen_expr.Gen(rng, D.inputs + syncT, maxw=5)
        g_sync = gen_expr.Gen(rng, D.inputs + syncT + combT, maxw=5)

        class Fresh:
            def __init__(self, bases):
                self.tg = gen_expr.TargetGen(rng, bases, offc, alias=False)
            def target(self, d):
                if not self.tg.sigs:
                    return None
                self.tg.used = set()
                return self.tg.target(d)
        # the module's logic may sit in several synchronous domains at once (each with its own registers)
        tg_by_dom = {"comb": Fresh(combT), "sync": Fresh(sync_bases)}
        for extra in D.domnames[1:]:
            if rng.random() < 0.35:
                more = [mk("s", 10 + j, reset_less=rng.random() < 0.3) for j in range(rng.randint(1, 2))]
                D.targets += more
                tg_by_dom[extra] = Fresh(more)
        items = gen_prog.gen_items(rng, g_comb, g_sync, None, None, rng.randint(1, 2), hist,
                                   allow_fsm=False, n=rng.randint(2, 4), tg_by_dom=tg_by_dom)
        mem_items, mems = [], []
        if has_mem and rng.random() < 0.55:
            more, mem_items, mems = mk_memory(k)
            items = items + more
        return {"items": items, "mem_items": mem_items, "mems": mems}

    def mk_memory(k):
        """a memory inside leaf `k`: one write port and 1-2 read ports (synchronous, not transparent, or asynchronous),
        each in any domain of the design. Returns (DSL items of the leaf that drive port inputs, the memory *as the
        property reads it* - an array of rows; a write port is a process of its domain that replaces the addressed row
        when enabled, a synchronous read port a process of its domain that captures the addressed row when enabled,
        both reading the values before the edge - written as program items over the rows, the memory itself)."""
        from amaranth.lib.memory import Memory
        depth, w = rng.choice([2, 2, 4]), rng.randint(1, 5)
        init = [rng.getrandbits(w) for _ in range(rng.choice([0, depth, depth]))]
        mem = Memory(shape=unsigned(w), depth=depth, init=init)
        wdom = rng.choice(D.domnames)
        others = [d for d in D.domnames if d != wdom]
        wp = mem.write_port(domain=wdom)
        rps = []
        for _ in range(rng.choice([1, 1, 2])):
            r = rng.random()
            rdom = "comb" if r < 0.2 else (rng.choice(others) if others and r < 0.8 else rng.choice(D.domnames))
            rps.append(mem.read_port(domain=rdom))
        hist[f"memory:depth{depth}"] = hist.get(f"memory:depth{depth}", 0) + 1
        for pn, port in [("w", wp)] + [(f"r{j}", rp) for j, rp in enumerate(rps)]:
            for fn in ("addr", "data", "en"):
                if isinstance(getattr(port, fn), Signal):
                    D.names[id(getattr(port, fn))] = f"mem{k}.{pn}.{fn}"
        rows = [mem.data[i] for i in range(depth)]
        for i, row in enumerate(rows):
            D.rows[id(row)] = (mem.data, i)
            D.names[id(row)] = f"mem{k}[{i}]"
            D.force_rl.add(id(row))
        D.targets += rows
        dsl, model = [], []
        n_in = [0]

        def feed(sig, dom, en):
            """a port address: an input of the design, or (FIFO-like) a pointer register of the port's domain that
            advances when the port is enabled"""
            if dom != "comb" and rng.random() < 0.5:
                ptr = Signal(unsigned(len(sig)), name=f"ptr{k}_{n_in[0]}", init=rng.randrange(depth))
                n_in[0] += 1
                D.targets += [ptr, sig]
                dsl.append(("if", [(en, [("assign", dom, ptr, ptr + 1)])], None))
                dsl.append(("assign", "comb", sig, ptr))
                hist["memory:pointer_register_address"] = hist.get("memory:pointer_register_address", 0) + 1
            else:
                D.inputs.append(sig)
        D.inputs += [wp.data, wp.en]
        D.bias1.add(id(wp.en))
        feed(wp.addr, wdom, wp.en)
        model.append(("switch", wp.addr, [((i,), [("if", [(wp.en, [("assign", wdom, rows[i], wp.data)])], None)])
                                          for i in range(depth)]))
        for rp in rps:
            D.targets.append(rp.data)
            D.force_rl.add(id(rp.data))
            if rp.domain == "comb":
                D.inputs.append(rp.addr)
                model.append(("switch", rp.addr, [((i,), [("assign", "comb", rp.data, rows[i])]) for i in range(depth)]))
                hist["memory:read_port:comb"] = hist.get("memory:read_port:comb", 0) + 1
            else:
                D.inputs.append(rp.en)
                D.bias1.add(id(rp.en))
                feed(rp.addr, rp.domain, rp.en)
                model.append(("if", [(rp.en, [("switch", rp.addr, [((i,), [("assign", rp.domain, rp.data, rows[i])])
                                                                   for i in range(depth)])])], None))
                key = "memory:read_port:" + ("same_domain_as_write" if rp.domain == wdom else "other_domain")
                hist[key] = hist.get(key, 0) + 1
        return dsl, model, [mem]

    def wrap(elab, below):
        """maybe wrap `elab`; returns (wrapped, wrappers applied here innermost-first)"""
        ws = []
        n_wrappers = rng.choice([0, 0, 1, 1, 2, 3])
        # a renamer whose map needs simultaneous renaming, around a module tree with a memory: innermost or outermost
        extra = (rename_maps and len(D.domnames) > 1 and any(leaf["mems"] for leaf in below) and rng.random() < 0.5)
        extra_at = rng.choice([0, n_wrappers]) if extra else None
        for k in range(n_wrappers + (1 if extra else 0)):
            if k == extra_at:
                mp = gen_rename_map(rng, D.domnames, hist, overlapping=True)
                elab = DomainRenamer(dict(mp))(elab)
                ws.append(("renamemap", mp))
                hist["wrapper:rename"] = hist.get("wrapper:rename", 0) + 1
                hist["rename_map:around_a_memory"] = hist.get("rename_map:around_a_memory", 0) + 1
                continue
            kind = rng.choice(["reset", "enable", "rename"])
            hist["wrapper:" + kind] = hist.get("wrapper:" + kind, 0) + 1
            if kind == "rename" and rename_maps and len(D.domnames) > 1 and rng.random() < 0.6:
                mp = gen_rename_map(rng, D.domnames, hist)
                elab = DomainRenamer(dict(mp))(elab)
                ws.append(("renamemap", mp))
                continue
            if kind == "rename":
                src = rng.choice(D.domnames)
                dst = rng.choice(D.domnames)
                if src == dst:
                    continue
                elab = DomainRenamer({src: dst})(elab)
                ws.append(("rename", src, dst))
            else:
                # one inserter may name several domains at once ({d1: c1, d2: c2}): it acts on each of them as a
                # separate inserter would, and on no other
                doms = rng.sample(D.domnames, 2 if (len(D.domnames) > 1 and rng.random() < 0.35) else 1)
                ctls = {dom: rng.choice(D.ctls) for dom in doms}
                elab = (ResetInserter if kind == "reset" else EnableInserter)(ctls)(elab)
                for dom in doms:
                    ws.append((kind, dom, ctls[dom]))
                if len(doms) > 1:
                    hist["wrapper:" + kind + ":multi_domain"] = hist.get("wrapper:" + kind + ":multi_domain", 0) + 1
        return elab, ws

    D.split_pending = None

    # the simple way to keep wrapper lists consistent: build bottom-up with explicit lists
    def build(depth):
        if depth <= 0 or rng.random() < 0.45:
            leaf = mk_leaf()
            elab, ws = wrap(Leaf(leaf["items"], leaf["mems"]), [leaf])
            leaf["stack"] = list(ws)
            D.leaves.append(leaf)
            return elab, [leaf]
        kids, below = [], []
        for _ in range(rng.randint(1, 3)):
            e, ls = build(depth - 1)
            kids.append(e); below += ls
        own = mk_leaf() if rng.random() < 0.5 else None      # a module with logic of its own *and* submodules
        if own is not None and not own["items"] and not own["mems"]:
            own = None
        if own is not None:
            own["stack"] = []
            D.leaves.append(own); below.append(own)
        elab, ws = wrap(Node(kids, own["items"], own["mems"]) if own is not None else Node(kids, []), below)
        for leaf in below:
            leaf["stack"] += ws
        return elab, below

    top_child, _ = build(rng.randint(0, 2))
    D.core = top_child
    if D.split_pending is not None:
        # the other half of a split signal stays undriven
        D.split_pending = None
    if attach:
        attach_top(D, D.cds, top_child)
    return D


def attach_top(D, declared, core):
    """a fresh top-level Module that declares the given ClockDomain objects and holds `core` (the generated module
    tree, or a Fragment made from it earlier) as its only submodule"""
    D.top = Module()
    for cd in declared:
        D.top.domains += cd
    D.top.submodules.dut = core
    return D.top


def all_signals(D):
    sigs = []
    for cd in D.cds:
        sigs.append(cd.clk)
        if cd.rst is not None:
            sigs.append(cd.rst)
    return sigs + D.inputs + D.ctls + D.targets


def ser_design(D):
    """protocol text shared by every step of this design (everything up to the steps)"""
    sigs = all_signals(D)
    sigidx = {id(s): i for i, s in enumerate(sigs)}
    domidx = {n: k for k, n in enumerate(D.domnames)}
    from .common import ser_ctx
    ctx = ser_ctx([s.shape() for s in sigs])
    rows = getattr(D, "rows", {})
    force_rl = getattr(D, "force_rl", set())
    for s in sigs:
        if id(s) in rows:
            md, i = rows[id(s)]
            sigidx[("row", id(md), i)] = sigidx[id(s)]
    row_init = lambda s: Const.cast(rows[id(s)][0].init[rows[id(s)][1]]).value
    inits = "(inits " + " ".join(str(row_init(s) if id(s) in rows else s.init) for s in sigs) + ")"
    rl = "(resetless " + " ".join("1" if (id(s) in force_rl or s.reset_less) else "0" for s in sigs) + ")"
    doms = "(doms " + " ".join(
        f"({sigidx[id(cd.clk)]} {cd.clk_edge} {sigidx[id(cd.rst)] if cd.rst is not None else 'none'} {1 if cd.async_reset else 0})"
        for cd in D.cds) + ")"
    frag = Fragment.get(D.top, None)
    procs = []

    def walk(f):
        if type(f) is Fragment:
            for dom, stmts in f.statements.items():
                d = "comb" if dom == "comb" else domidx[dom]
                procs.append(f"(proc {d} (seq {gen_prog.ser_stmts(stmts, sigidx)}))")
        elif isinstance(f, MemoryInstance):
            procs.extend(memory_procs(f, sigidx, domidx))
        for sub, _name, _loc in f.subfragments:
            walk(sub)
    walk(frag)
    leaves = []
    for leaf in D.leaves:
        ws = []
        for w in leaf["stack"]:
            if w[0] == "rename":
                ws.append(f"(rename {domidx[w[1]]} {domidx[w[2]]})")
            elif w[0] == "renamemap":
                ws.append("(renamemap " + " ".join(f"({domidx[a]} {domidx[b]})" for a, b in w[1]) + ")")
            else:
                ws.append(f"({w[0]} {domidx[w[1]]} {ser_value(w[2], sigidx)})")
        for dom in ["comb"] + D.domnames:
            prog = gen_prog.ser_prog(list(leaf["items"]) + list(leaf.get("mem_items", ())), dom, sigidx)
            if prog.strip():
                d = "comb" if dom == "comb" else domidx[dom]
                leaves.append(f"(leaf {d} (wrappers {' '.join(ws)}) (prog {prog}))")
    head = f"(c03 {ctx} {inits} {rl} {doms} (actual {' '.join(procs)}) (leaves {' '.join(leaves)})"
    return head, sigs, sigidx


def memory_procs(f, sigidx, domidx):
    """the ports of a MemoryInstance *as amaranth left them after every transformer* (domain, address, data and enable
    expressions) as processes of the statement model: a write port replaces the addressed row when its enable is true,
    a synchronous read port captures the addressed row when its enable is true, an asynchronous one shows it"""
    md = f._data
    row = [sigidx[("row", id(md), i)] for i in range(md.depth)]
    out = []

    def sw(test, cases):
        return f"(switch {ser_value(test, sigidx)} " + " ".join(f'(("{p}") {b})' for p, b in cases) + ")"
    for p in f._write_ports:
        n = len(p._addr)
        body = sw(p._addr, [(format(i, f"0{n}b"), sw(p._en.bool(), [("1", f"(= (sig {row[i]}) {ser_value(p._data, sigidx)})")]))
                            for i in range(md.depth)])
        out.append(f"(proc {domidx[p._domain]} (seq {body}))")
    for p in f._read_ports:
        n = len(p._addr)
        body = sw(p._addr, [(format(i, f"0{n}b"), f"(= {ser_value(p._data, sigidx)} (sig {row[i]}))") for i in range(md.depth)])
        if p._domain == "comb":
            out.append(f"(proc comb (seq {body}))")
        else:
            out.append(f"(proc {domidx[p._domain]} (seq {sw(p._en.bool(), [('1', body)])}))")
    return out


def sig_name(D, s):
    return getattr(D, "names", {}).get(id(s)) or s.name
