"""Generator of multi-domain designs with module hierarchies and control wrappers (C03).

A design is a tree: inner nodes only contain submodules; leaves hold the logic, written against the
local domain names "comb" and "sync" with the DSL program generator. Any node may be wrapped by
ResetInserter / EnableInserter / DomainRenamer. Everything is derived from the rng passed in.
"""
from amaranth.hdl import (Signal, Module, Elaboratable, ClockDomain, ResetInserter, EnableInserter,
                          DomainRenamer, Fragment, unsigned)
from amaranth.hdl import _ast as A

from . import gen_expr, gen_prog
from .common import ser_value

DOMS = ["sync", "d1", "d2"]


class Leaf(Elaboratable):
    def __init__(self, items):
        self.items = items

    def elaborate(self, platform):
        m = Module()
        gen_prog.build(m, self.items)
        return m


class Node(Elaboratable):
    def __init__(self, children, items=()):
        self.children = children
        self.items = items

    def elaborate(self, platform):
        m = Module()
        gen_prog.build(m, self.items)
        for k, c in enumerate(self.children):
            m.submodules[f"c{k}"] = c
        return m


class Design:
    pass


def gen_design(rng, hist):
    D = Design()
    ndom = rng.randint(1, 3)
    D.domnames = DOMS[:ndom]
    D.cds = []
    for name in D.domnames:
        kind = rng.choice(["none", "sync", "sync", "async"])
        cd = ClockDomain(name, clk_edge=rng.choice(["pos", "neg"]), reset_less=(kind == "none"),
                         async_reset=(kind == "async"))
        D.cds.append(cd)
        hist[f"domain:{kind}:{cd.clk_edge}"] = hist.get(f"domain:{kind}:{cd.clk_edge}", 0) + 1
    D.inputs = [Signal(gen_expr.rand_shape(rng, 4), name=f"i{k}") for k in range(rng.randint(2, 3))]
    D.ctls = [Signal(unsigned(1 if rng.random() < 0.85 else 2), name=f"k{k}") for k in range(3)]
    D.targets = []          # whole state signals
    D.leaves = []           # (items, wrappers innermost-first, comb target sigs, sync target values)

    nleaf = [0]

    def mk_leaf():
        k = nleaf[0]; nleaf[0] += 1
        mk = lambda pre, j, **kw: Signal(sh := gen_expr.rand_shape(rng, 5, allow_zero=False), name=f"{pre}{k}_{j}",
                                         init=gen_expr.rand_value(rng, sh), **kw)
        combT = [mk("c", j) for j in range(rng.randint(0, 2))]
        syncT = [mk("s", j, reset_less=rng.random() < 0.3) for j in range(rng.randint(1, 3))]
        D.targets += combT + syncT
        # a signal whose bits are split between this leaf and the next one (different domains possible)
        sync_bases = list(syncT)
        if D.split_pending is not None:
            sync_bases.append(D.split_pending)
            D.split_pending = None
        elif rng.random() < 0.3:
            s = Signal(unsigned(rng.randint(2, 6)), name=f"split{k}", init=rng.randint(0, 3), reset_less=rng.random() < 0.3)
            cut = rng.randint(1, len(s) - 1)
            D.targets.append(s)
            sync_bases.append(s[:cut])
            D.split_pending = s[cut:]
        offc = [s for s in D.inputs if not s.shape().signed and len(s) <= 3] or [D.ctls[0]]
        g_comb = gen_expr.Gen(rng, D.inputs + syncT, maxw=5)
        g_sync = gen_expr.Gen(rng, D.inputs + syncT + combT, maxw=5)

        class Fresh:
            def __init__(self, bases):
                self.tg = gen_expr.TargetGen(rng, bases, offc, alias=False)
            def target(self, d):
                if not self.tg.sigs:
                    return None
                self.tg.used = set()
                return self.tg.target(d)
        # the module's logic may sit in several synchronous domains at once (each with its own registers)
        tg_by_dom = {"comb": Fresh(combT), "sync": Fresh(sync_bases)}
        for extra in D.domnames[1:]:
            if rng.random() < 0.35:
                more = [mk("s", 10 + j, reset_less=rng.random() < 0.3) for j in range(rng.randint(1, 2))]
                D.targets += more
                tg_by_dom[extra] = Fresh(more)
        items = gen_prog.gen_items(rng, g_comb, g_sync, None, None, rng.randint(1, 2), hist,
                                   allow_fsm=False, n=rng.randint(2, 4), tg_by_dom=tg_by_dom)
        return items

    def wrap(elab, path_wrappers):
        """maybe wrap `elab`; returns (wrapped, wrappers applied here innermost-first)"""
        ws = []
        for _ in range(rng.choice([0, 0, 1, 1, 2, 3])):
            kind = rng.choice(["reset", "enable", "rename"])
            hist["wrapper:" + kind] = hist.get("wrapper:" + kind, 0) + 1
            if kind == "rename":
                src = rng.choice(D.domnames)
                dst = rng.choice(D.domnames)
                if src == dst:
                    continue
                elab = DomainRenamer({src: dst})(elab)
                ws.append(("rename", src, dst))
            else:
                # one inserter may name several domains at once ({d1: c1, d2: c2}): it acts on each of them as a
                # separate inserter would, and on no other
                doms = rng.sample(D.domnames, 2 if (len(D.domnames) > 1 and rng.random() < 0.35) else 1)
                ctls = {dom: rng.choice(D.ctls) for dom in doms}
                elab = (ResetInserter if kind == "reset" else EnableInserter)(ctls)(elab)
                for dom in doms:
                    ws.append((kind, dom, ctls[dom]))
                if len(doms) > 1:
                    hist["wrapper:" + kind + ":multi_domain"] = hist.get("wrapper:" + kind + ":multi_domain", 0) + 1
        return elab, ws

    D.split_pending = None

    # the simple way to keep wrapper lists consistent: build bottom-up with explicit lists
    def build(depth):
        if depth <= 0 or rng.random() < 0.45:
            items = mk_leaf()
            elab, ws = wrap(Leaf(items), None)
            leaf = {"items": items, "stack": list(ws)}
            D.leaves.append(leaf)
            return elab, [leaf]
        kids, below = [], []
        for _ in range(rng.randint(1, 3)):
            e, ls = build(depth - 1)
            kids.append(e); below += ls
        own_items = mk_leaf() if rng.random() < 0.5 else []      # a module with logic of its own *and* submodules
        if own_items:
            own = {"items": own_items, "stack": []}
            D.leaves.append(own); below.append(own)
        elab, ws = wrap(Node(kids, own_items), None)
        for leaf in below:
            leaf["stack"] += ws
        return elab, below

    top_child, _ = build(rng.randint(0, 2))
    D.top = Module()
    for cd in D.cds:
        D.top.domains += cd
    D.top.submodules.dut = top_child
    if D.split_pending is not None:
        # the other half of a split signal stays undriven
        D.split_pending = None
    return D


def all_signals(D):
    sigs = []
    for cd in D.cds:
        sigs.append(cd.clk)
        if cd.rst is not None:
            sigs.append(cd.rst)
    return sigs + D.inputs + D.ctls + D.targets


def ser_design(D):
    """protocol text shared by every step of this design (everything up to the steps)"""
    sigs = all_signals(D)
    sigidx = {id(s): i for i, s in enumerate(sigs)}
    domidx = {n: k for k, n in enumerate(D.domnames)}
    from .common import ser_ctx
    ctx = ser_ctx([s.shape() for s in sigs])
    inits = "(inits " + " ".join(str(s.init) for s in sigs) + ")"
    rl = "(resetless " + " ".join("1" if s.reset_less else "0" for s in sigs) + ")"
    doms = "(doms " + " ".join(
        f"({sigidx[id(cd.clk)]} {cd.clk_edge} {sigidx[id(cd.rst)] if cd.rst is not None else 'none'} {1 if cd.async_reset else 0})"
        for cd in D.cds) + ")"
    frag = Fragment.get(D.top, None)
    procs = []

    def walk(f):
        if type(f) is Fragment:
            for dom, stmts in f.statements.items():
                d = "comb" if dom == "comb" else domidx[dom]
                procs.append(f"(proc {d} (seq {gen_prog.ser_stmts(stmts, sigidx)}))")
        for sub, _name, _loc in f.subfragments:
            walk(sub)
    walk(frag)
    leaves = []
    for leaf in D.leaves:
        ws = []
        for w in leaf["stack"]:
            if w[0] == "rename":
                ws.append(f"(rename {domidx[w[1]]} {domidx[w[2]]})")
            else:
                ws.append(f"({w[0]} {domidx[w[1]]} {ser_value(w[2], sigidx)})")
        for dom in ["comb"] + D.domnames:
            prog = gen_prog.ser_prog(leaf["items"], dom, sigidx)
            if prog.strip():
                d = "comb" if dom == "comb" else domidx[dom]
                leaves.append(f"(leaf {d} (wrappers {' '.join(ws)}) (prog {prog}))")
    head = f"(c03 {ctx} {inits} {rl} {doms} (actual {' '.join(procs)}) (leaves {' '.join(leaves)})"
    return head, sigs, sigidx
