"""Generator of Module-DSL programs (If/Elif/Else, Switch/Case/Default, FSM) over real amaranth
signals, a builder that replays the program through the real DSL, and serialisers:
* the *program as written* (for the Lean Spec `Prog`: first true condition / first matching case);
* the *lowered statements* amaranth produced (for the Lean Model `Stmt`: what the simulator compiles).
"""
from amaranth.hdl import Signal, Const, Cat, Module, Fragment, signed, unsigned
from amaranth.hdl import _ast as A

from . import gen_expr
from .common import ser_value


class Item:
    pass


_fsm_counter = [0]


def gen_items(rng, g_comb, g_sync, tg_comb, tg_sync, depth, hist, allow_fsm=True, n=None, in_fsm=None, tg_by_dom=None,
              fsm_watch=False):
    """returns a list of abstract items; expressions/targets are real amaranth values.
    `in_fsm`: state names of the innermost enclosing FSM (then `m.next = …` items may be generated).
    `fsm_watch` (C02 only; the other users keep their random streams): also generate calls of `fsm.ongoing(S)` inside
    state bodies (`("watch", S)`) and between State blocks (6th element of the fsm item: the entries in order,
    `("state", S, body)` / `("watch", S)`), so that a state can be first mentioned by `ongoing()`"""
    items = []
    n = n if n is not None else rng.randint(1, 4)
    for _ in range(n):
        r = rng.random()
        if in_fsm and rng.random() < 0.3:
            items.append(("next", rng.choice(in_fsm)))
            hist["next"] = hist.get("next", 0) + 1
            continue
        if fsm_watch and in_fsm and rng.random() < 0.08:
            items.append(("watch", rng.choice(in_fsm)))
            hist["ongoing_call"] = hist.get("ongoing_call", 0) + 1
            continue
        if allow_fsm and depth > 0 and rng.random() < 0.12:
            _fsm_counter[0] += 1
            fid = _fsm_counter[0]
            names = rng.sample(["A", "B", "C", "D"], rng.randint(1, 4))
            states = [(nm, gen_items(rng, g_comb, g_sync, tg_comb, tg_sync, depth - 1, hist, allow_fsm=depth > 1,
                                     in_fsm=names, fsm_watch=fsm_watch)) for nm in names]
            init = rng.choice(names) if rng.random() < 0.3 else None
            og = [(Signal(name=f"og{fid}_{k}"), rng.choice(names)) for k in range(rng.randint(0, 2))]
            if fsm_watch:
                entries = []
                for nm, body in states:
                    while rng.random() < 0.2:
                        entries.append(("watch", rng.choice(names)))
                    entries.append(("state", nm, body))
                while rng.random() < 0.15:
                    entries.append(("watch", rng.choice(names)))
                items.append(("fsm", f"fsm{fid}", init, states, og, entries))
            else:
                items.append(("fsm", f"fsm{fid}", init, states, og))
            hist["fsm"] = hist.get("fsm", 0) + 1
            continue
        if depth <= 0 or r < 0.45:
            if tg_by_dom is not None:          # several synchronous domains used by one module
                dom = rng.choice(list(tg_by_dom))
                tg = tg_by_dom[dom]
            else:
                dom = rng.choice(["comb", "sync"])
                tg = tg_comb if dom == "comb" else tg_sync
            t = tg.target(rng.randint(0, 2))
            if t is None:
                continue
            g = g_comb if dom == "comb" else g_sync
            rhs = g.expr(rng.randint(0, 2))
            if rng.random() < 0.1:
                rhs = rng.randint(-9, 20)
            items.append(("assign", dom, t, rhs))
            hist["assign"] = hist.get("assign", 0) + 1
        elif r < 0.75:
            nb = rng.randint(1, 4)
            branches = []
            for _b in range(nb):
                c = g_comb.expr(rng.randint(0, 2))
                if rng.random() < 0.15:
                    c = Const(rng.randint(0, 1), 1)           # constant conditions are kept rare but present
                branches.append((c, gen_items(rng, g_comb, g_sync, tg_comb, tg_sync, depth - 1, hist, allow_fsm, in_fsm=in_fsm, tg_by_dom=tg_by_dom, fsm_watch=fsm_watch)))
            els = gen_items(rng, g_comb, g_sync, tg_comb, tg_sync, depth - 1, hist, allow_fsm, in_fsm=in_fsm, tg_by_dom=tg_by_dom, fsm_watch=fsm_watch) if rng.random() < 0.5 else None
            items.append(("if", branches, els))
            hist[f"if{nb}{'e' if els is not None else ''}"] = hist.get(f"if{nb}{'e' if els is not None else ''}", 0) + 1
        else:
            test = g_comb.expr(rng.randint(0, 2))
            if len(test) > 6:
                test = test[:rng.randint(0, 6)]
            w = len(test)
            cases = []
            nc = rng.randint(0, 4)
            got_default = False
            for _c in range(nc):
                if rng.random() < 0.15 and not got_default:
                    pats = None
                    got_default = True
                else:
                    pats = tuple(gen_expr.rand_pattern(rng, w) for _p in range(rng.randint(1, 3)))
                cases.append((pats, gen_items(rng, g_comb, g_sync, tg_comb, tg_sync, depth - 1, hist, allow_fsm, in_fsm=in_fsm, tg_by_dom=tg_by_dom, fsm_watch=fsm_watch)))
            items.append(("switch", test, cases))
            hist["switch"] = hist.get("switch", 0) + 1
    return items


def build(m, items, fsms=None):
    """replay the program through the real DSL; `fsms` collects name -> FSM object. The signals that watch
    `fsm.ongoing(state)` are assigned at the top level of the module, after the whole program, so that they are read
    also while the block enclosing a nested FSM is not selected."""
    top = fsms is None
    fsms = fsms if fsms is not None else {}
    try:
        _build(m, items, fsms)
    finally:
        if top:
            watchers = fsms.pop("__ongoing__", [])
            for sig, fsm, sname in watchers:
                m.d.comb += sig.eq(fsm.ongoing(sname))
            if watchers:
                fsms["__watchers__"] = watchers        # in the order in which they were added to the module
    return fsms


def fsm_entries(it):
    """the entries of an fsm item in order: ("state", S, body) / ("watch", S)"""
    return it[5] if len(it) > 5 else [("state", sn, body) for sn, body in it[3]]


def _build(m, items, fsms, cur_fsm=None):
    build = _build
    for it in items:
        if it[0] == "next":
            m.next = it[1]
        elif it[0] == "watch":
            cur_fsm.ongoing(it[1])
        elif it[0] == "fsm":
            name, init, og = it[1], it[2], it[4]
            with m.FSM(init=init, name=name) as fsm:
                for e in fsm_entries(it):
                    if e[0] == "watch":
                        fsm.ongoing(e[1])
                    else:
                        with m.State(e[1]):
                            build(m, e[2], fsms, fsm)
            fsms[name] = fsm
            for sig, sname in og:
                fsms.setdefault("__ongoing__", []).append((sig, fsm, sname))
        elif it[0] == "assign":
            _, dom, t, rhs = it
            m.d[dom] += t.eq(rhs)
        elif it[0] == "if":
            _, branches, els = it
            for k, (c, body) in enumerate(branches):
                ctxm = m.If(c) if k == 0 else m.Elif(c)
                with ctxm:
                    build(m, body, fsms, cur_fsm)
            if els is not None:
                with m.Else():
                    build(m, els, fsms, cur_fsm)
        elif it[0] == "switch":
            _, test, cases = it
            with m.Switch(test):
                for pats, body in cases:
                    ctxm = m.Default() if pats is None else m.Case(*pats)
                    with ctxm:
                        build(m, body, fsms, cur_fsm)
    return fsms


def ser_upat(p):
    if isinstance(p, str):
        return '"' + "".join(p.split()) + '"'
    return f"(i {int(p)})"


def fsm_encoding(item):
    """state encodings in order of first mention (State entry, then `m.next` in its body, then ongoing())"""
    states, og = item[3], item[4]
    order = []

    def mention(x):
        if x not in order:
            order.append(x)

    def walk(items):
        for it in items:
            if it[0] in ("next", "watch"):
                mention(it[1])
            elif it[0] == "if":
                for _c, body in it[1]:
                    walk(body)
                if it[2] is not None:
                    walk(it[2])
            elif it[0] == "switch":
                for _p, body in it[2]:
                    walk(body)
            # a nested FSM's `m.next` binds to that FSM, not to this one
    for e in fsm_entries(item):
        mention(e[1])
        if e[0] == "state":
            walk(e[2])
    for _sig, sname in og:
        mention(sname)
    return {nm: k for k, nm in enumerate(order)}


def fsm_items(items):
    for it in items:
        if it[0] == "fsm":
            yield it
            for _s, body in it[3]:
                yield from fsm_items(body)
        elif it[0] == "if":
            for _c, body in it[1]:
                yield from fsm_items(body)
            if it[2] is not None:
                yield from fsm_items(it[2])
        elif it[0] == "switch":
            for _p, body in it[2]:
                yield from fsm_items(body)


def ser_prog(items, dom, sigidx, fsm=None, _top=True):
    """`fsm`: (state signal, encoding) of the innermost enclosing FSM; FSM items are written as what the
    property says they mean: a Switch over the state register, `m.next` an assignment of the encoding in
    the FSM's domain, `ongoing()` a comparison — unconditional, at the top level of the module."""
    out = []
    if _top and dom == "comb":
        tail = []
        for it in fsm_items(items):
            st = sigidx["fsm:" + it[1]]
            enc = fsm_encoding(it)
            for sig, sname in it[4]:
                tail.append(f"(= (sig {sigidx[id(sig)]}) (== (sig {sigidx[id(st)]}) (c {enc[sname]} {max(1, enc[sname].bit_length())} u)))")
        body = ser_prog(items, dom, sigidx, fsm, _top=False)
        return " ".join(x for x in [body] + tail if x)
    for it in items:
        if it[0] == "next":
            if dom == "sync" and fsm is not None:
                st, enc = fsm
                out.append(f"(= (sig {sigidx[id(st)]}) (c {enc[it[1]]} {len(st)} u))")
        elif it[0] == "fsm":
            name, states = it[1], it[3]
            st = sigidx["fsm:" + name]
            enc = fsm_encoding(it)
            cs = " ".join(f"(((i {enc[sn]})) {ser_prog(body, dom, sigidx, (st, enc), _top=False)})" for sn, body in states)
            out.append(f"(sw (sig {sigidx[id(st)]}) {cs})")
        elif it[0] == "assign":
            _, d, t, rhs = it
            if d == dom:
                out.append(f"(= {ser_value(t, sigidx)} {ser_value(rhs, sigidx)})")
        elif it[0] == "if":
            _, branches, els = it
            bs = " ".join(f"({ser_value(c, sigidx)} {ser_prog(body, dom, sigidx, fsm, _top=False)})" for c, body in branches)
            e = f" (else {ser_prog(els, dom, sigidx, fsm, _top=False)})" if els is not None else ""
            out.append(f"(if {bs}{e})")
        elif it[0] == "switch":
            _, test, cases = it
            cs = []
            for pats, body in cases:
                if pats is None:
                    cs.append(f"(default {ser_prog(body, dom, sigidx, fsm, _top=False)})")
                else:
                    cs.append("((" + " ".join(ser_upat(p) for p in pats) + f") {ser_prog(body, dom, sigidx, fsm, _top=False)})")
            out.append(f"(sw {ser_value(test, sigidx)} {' '.join(cs)})")
    return " ".join(out)


def ser_fprog(items, sigidx, fsms):
    """the program *as written* for the Lean `FProg`: assignments with their domain, FSMs with their State blocks by
    name, `m.next = S`, calls of `fsm.ongoing(S)`. `fsms`: name -> the real FSM object (for `fsm.state` and the signals
    `fsm.ongoing(S)` returns — signals are data, not semantics)."""
    out = []
    for it in items:
        if it[0] == "next":
            out.append(f"(next {it[1]})")
        elif it[0] == "watch":
            out.append(f"(ongoing {it[1]})")
        elif it[0] == "fsm":
            name, init = it[1], it[2]
            fsm = fsms[name]
            og = " ".join(f"({sn} {sigidx[id(fsm.ongoing(sn))]})" for sn in fsm.encoding)
            es = []
            for e in fsm_entries(it):
                if e[0] == "watch":
                    es.append(f"(ongoing {e[1]})")
                else:
                    es.append(f"(state {e[1]} {ser_fprog(e[2], sigidx, fsms)})")
            ini = f"(init {init})" if init is not None else "(init)"
            out.append(f"(fsm {sigidx[id(fsm.state)]} sync {ini} (og {og}) {' '.join(es)})")
        elif it[0] == "assign":
            _, d, t, rhs = it
            out.append(f"(= {d} {ser_value(t, sigidx)} {ser_value(rhs, sigidx)})")
        elif it[0] == "if":
            _, branches, els = it
            bs = " ".join(f"({ser_value(c, sigidx)} {ser_fprog(body, sigidx, fsms)})" for c, body in branches)
            e = f" (else {ser_fprog(els, sigidx, fsms)})" if els is not None else ""
            out.append(f"(if {bs}{e})")
        elif it[0] == "switch":
            _, test, cases = it
            cs = []
            for pats, body in cases:
                if pats is None:
                    cs.append(f"(default {ser_fprog(body, sigidx, fsms)})")
                else:
                    cs.append("((" + " ".join(ser_upat(p) for p in pats) + f") {ser_fprog(body, sigidx, fsms)})")
            out.append(f"(sw {ser_value(test, sigidx)} {' '.join(cs)})")
    return " ".join(out)


def fsm_shapes(items, hist, depth=1):
    """histogram of the FSM shapes in a program (keys `fsm_*`)"""
    def bump(k, n=1):
        hist[k] = hist.get(k, 0) + n
    for it in items:
        if it[0] == "fsm":
            entries = fsm_entries(it)
            defined = [e[1] for e in entries if e[0] == "state"]
            bump(f"fsm_states:{len(defined)}")
            bump(f"fsm_depth:{depth}")
            if it[2] is not None:
                bump("fsm_explicit_init")
                if it[2] != defined[0]:
                    bump("fsm_init_not_first_defined")
            enc = fsm_encoding(it)
            first = it[2] if it[2] is not None else defined[0]
            if enc[first] != 0:
                bump("fsm_init_code_nonzero")
            if list(enc) != defined:
                bump("fsm_encoding_order_differs_from_definition_order")
            n = len(enc)
            if n & (n - 1) or n == 1:
                bump("fsm_register_has_unused_codes")
            # first mention of a state by m.next / ongoing() before its State block
            seen, nb, ob = set(), False, False

            def walk(body):
                nonlocal nb, ob
                for x in body:
                    if x[0] == "next" and x[1] not in seen:
                        nb = True; seen.add(x[1])
                    elif x[0] == "watch" and x[1] not in seen:
                        ob = True; seen.add(x[1])
                    elif x[0] == "if":
                        for _c, b in x[1]:
                            walk(b)
                        if x[2] is not None:
                            walk(x[2])
                    elif x[0] == "switch":
                        for _p, b in x[2]:
                            walk(b)
            for e in entries:
                if e[0] == "watch":
                    if e[1] not in seen:
                        ob = True; seen.add(e[1])
                else:
                    seen.add(e[1])
                    walk(e[2])
            if nb:
                bump("fsm_next_before_define")
            if ob:
                bump("fsm_ongoing_before_define")
            if not any(_has_next(e[2]) for e in entries if e[0] == "state"):
                bump("fsm_without_next")
            for e in entries:
                if e[0] == "state":
                    fsm_shapes(e[2], hist, depth + 1)
        elif it[0] == "if":
            for _c, b in it[1]:
                fsm_shapes(b, hist, depth)
            if it[2] is not None:
                fsm_shapes(it[2], hist, depth)
        elif it[0] == "switch":
            for _p, b in it[2]:
                fsm_shapes(b, hist, depth)


def _has_next(body):
    """is there an `m.next` for the FSM this body belongs to (not inside a nested FSM)?"""
    for x in body:
        if x[0] == "next":
            return True
        if x[0] == "if" and (any(_has_next(b) for _c, b in x[1]) or (x[2] is not None and _has_next(x[2]))):
            return True
        if x[0] == "switch" and any(_has_next(b) for _p, b in x[2]):
            return True
    return False


def ser_stmts(stmts, sigidx):
    """the lowered statements as amaranth built them (Assign / Switch only)"""
    out = []
    for s in stmts:
        if isinstance(s, A.Assign):
            out.append(f"(= {ser_value(s.lhs, sigidx)} {ser_value(s.rhs, sigidx)})")
        elif isinstance(s, A.Switch):
            cs = []
            for pats, body, _loc in s.cases:
                b = ser_stmts(body, sigidx)
                if pats is None:
                    cs.append(f"(default {b})")
                else:
                    cs.append("((" + " ".join(f'"{p}"' for p in pats) + f") {b})")
            out.append(f"(switch {ser_value(s.test, sigidx)} {' '.join(cs)})")
        else:
            raise TypeError(f"unexpected statement {s!r}")
    return " ".join(out)
