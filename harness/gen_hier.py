"""Generator of whole hierarchical designs (shared by C07 and C04; file harness/gen_hier.py).

One `random.Random` drives everything.  A design is a tree of `Module`s (depth <= 4) over one pool
of signals whose names are drawn *with replacement* from a small set (so signals share names with
each other, with ports, with submodules and with clock/reset signals), some of them private (""),
zero-width, unused, undriven or only partially driven.  Every driven bit range of a signal has one
owner (a module and `comb`, a clock domain, an `Instance` output or an I/O buffer input); logic in
any module may read any signal, so values are routed through ancestors, descendants and siblings.
Statement trees come from `gen_prog`/`gen_expr` (the C01/C02 generators).  Optional ingredients:
memories (`lib.memory.Memory`, sync/comb/transparent read ports, write ports with granularity),
`Instance`s with every parameter kind and attributes, `IOPort`s with I/O buffers, structured
(`lib.data`) signals, several clock domains (pos/neg edge; sync, async or no reset).
"""
import random

from amaranth.hdl import (Signal, Const, Cat, Module, ClockDomain, Instance, IOPort, IOBufferInstance,
                          signed, unsigned)
from amaranth.hdl import _ast as A
from amaranth.hdl._ir import PortDirection
from amaranth.lib.memory import Memory
from amaranth.lib import data as ldata
from amaranth.lib import enum as lenum

from . import gen_expr, gen_prog

NAMES = ["a", "b", "c", "d", "o", "sub", "m1", "x", "y", "clk", "rst", "sel"]
SUBNAMES = ["sub", "m1", "a", "b", "U", "mem", "o"]


class Fresh:
    """every target starts with no leaf used yet; targets of the shape of a recorded finding (F9, F25) are
    excluded unless the stream asks for them"""
    def __init__(self, tg, allow_f9, allow_f25):
        self.tg = tg
        self.allow_f9 = allow_f9
        self.allow_f25 = allow_f25

    def target(self, d):
        for _ in range(8):
            self.tg.used = set()
            t = self.tg.target(d)
            if t is None:
                return t
            if (self.allow_f9 or not f9_shaped(t)) and (self.allow_f25 or not f25_shaped(t)):
                return t
        self.tg.used = set()
        return self.tg.leaf()


def _signals_in(v, out):
    if isinstance(v, A.Signal):
        out.append(v)
    elif isinstance(v, A.Operator):
        for o in v.operands:
            _signals_in(o, out)
    elif isinstance(v, A.Slice):
        _signals_in(v.value, out)
    elif isinstance(v, A.Part):
        _signals_in(v.value, out)
    elif isinstance(v, A.Concat):
        for p in v.parts:
            _signals_in(p, out)
    elif isinstance(v, A.SwitchValue):
        for _p, e in v.cases:
            _signals_in(e, out)
    return out


def f9_shaped(t, under=False):
    """finding F9: one signal occurs in two parts of a concatenation that is assigned through a slice or
    part-select (structural classifier over an assignment target)"""
    if isinstance(t, A.Concat):
        if under:
            seen = set()
            for p in t.parts:
                here = {id(s) for s in _signals_in(p, [])}
                if seen & here:
                    return True
                seen |= here
        return any(f9_shaped(p, under) for p in t.parts)
    if isinstance(t, A.Slice):
        return f9_shaped(t.value, True)
    if isinstance(t, A.Part):
        return f9_shaped(t.value, True)
    if isinstance(t, A.Operator):
        return any(f9_shaped(o, under) for o in t.operands)
    if isinstance(t, A.SwitchValue):
        # an array element target: any aliasing between the alternatives under a slice/part behaves alike
        return any(f9_shaped(e, under) for _p, e in t.cases)
    return False


def f25_shaped(t, under=False):
    """finding F25: an array-element target (SwitchValue) with an alternative shorter than the whole (unequal
    lengths, or equal lengths of mixed signedness, which unify to one bit more), below a part-select or a slice
    that does not start at 0: `emit_assign` does not clip the window at the shorter alternative"""
    if isinstance(t, A.SwitchValue):
        if under and any(len(e) < len(t) for _p, e in t.cases):
            return True
        return any(f25_shaped(e, under) for _p, e in t.cases)
    if isinstance(t, A.Slice):
        return f25_shaped(t.value, under or t.start > 0)
    if isinstance(t, A.Part):
        return f25_shaped(t.value, True)
    if isinstance(t, A.Concat):
        return any(f25_shaped(p, under) for p in t.parts)
    if isinstance(t, A.Operator):
        return any(f25_shaped(o, under) for o in t.operands)
    return False


def items_shaped(items, pred):
    for it in items:
        if it[0] == "assign":
            if pred(it[2]):
                return True
        elif it[0] == "if":
            if any(items_shaped(b, pred) for _c, b in it[1]) or (it[2] is not None and items_shaped(it[2], pred)):
                return True
        elif it[0] == "switch":
            if any(items_shaped(b, pred) for _p, b in it[2]):
                return True
    return False


def build_items(m, items, sync, ctr=None, drop=frozenset(), kept=None):
    """gen_prog.build with the `sync` domain renamed.  `ctr` numbers the assignment leaves in build order; leaves whose
    number is in `drop` are left out (used to minimise a failing design); kept targets are appended to `kept`"""
    for it in items:
        if it[0] == "assign":
            _, dom, t, rhs = it
            if ctr is not None:
                ctr[0] += 1
                if ctr[0] - 1 in drop:
                    continue
            if kept is not None:
                kept.append(t)
                if ctr is not None and hasattr(kept, "ids"):
                    kept.ids.append(ctr[0] - 1)
            m.d[sync if dom == "sync" else "comb"] += t.eq(rhs)
        elif it[0] == "if":
            _, branches, els = it
            for k, (c, body) in enumerate(branches):
                with (m.If(c) if k == 0 else m.Elif(c)):
                    build_items(m, body, sync, ctr, drop, kept)
            if els is not None:
                with m.Else():
                    build_items(m, els, sync, ctr, drop, kept)
        elif it[0] == "switch":
            _, test, cases = it
            with m.Switch(test):
                for pats, body in cases:
                    with (m.Default() if pats is None else m.Case(*pats)):
                        build_items(m, body, sync, ctr, drop, kept)


def sexp_str(s):
    return '"' + s.replace("\\", "\\\\").replace('"', '\\"').replace("\n", "\\n") + '"'


def _bits(v, w):
    return format(v & ((1 << w) - 1), f"0{w}b") if w else ""


def expected_const(v):
    """(kind, const-sexp) an RTLIL reader must find for the Python value `v` of a parameter/attribute:
    ints below 2**31-1 are plain decimals, other ints are two's complement of at least 32 bits (signed when
    negative), strings are strings, floats are `real` strings of their repr, Consts are their bits"""
    if isinstance(v, bool):
        v = int(v)
    if isinstance(v, str):
        return "plain", f"(str {sexp_str(v)})"
    if isinstance(v, float):
        return "real", f"(str {sexp_str(repr(v))})"
    if isinstance(v, int):
        if 0 <= v < 2 ** 31 - 1:
            return "plain", f"(int {v})"
        need = v.bit_length() if v > 0 else (-v - 1).bit_length() + 1
        w = max(32, need)
        return ("signed" if v < 0 else "plain"), f'(bits "{_bits(v, w)}")'
    if isinstance(v, A.Const):
        return ("signed" if v.shape().signed else "plain"), f'(bits "{_bits(v.value, len(v))}")'
    raise TypeError(v)


PARAM_INTS = [0, 1, 7, 2 ** 31 - 2, 2 ** 31 - 1, 2 ** 31, 2 ** 32 - 1, 2 ** 32, 1 << 40, -1, -5, -2 ** 31, -2 ** 31 - 1,
              -(1 << 40), 1 << 64]
PARAM_STRS = ["", "x", "hello world", 'q"uote', "back\\slash", "nl\nline", "tab\there", "{brace}", " lead", "1'0", "[3:0]",
              "Gr\u00f6\u00dfe", "\u65e5\u672c\u8a9e", "bell\x07", "\u00b5s \x7f", "\x01"]
PARAM_FLOATS = [0.0, 1.5, -2.25, 1e300, 1e-7, 3.0]


def rand_param(rng, allow_float=True):
    r = rng.random()
    if r < 0.35:
        return rng.choice(PARAM_INTS) if rng.random() < 0.7 else rng.randint(-2 ** 33, 2 ** 33)
    if r < 0.55:
        return rng.choice(PARAM_STRS)
    if r < 0.7 and allow_float:
        return rng.choice(PARAM_FLOATS)
    sh = gen_expr.rand_shape(rng, 8)
    return Const(gen_expr.rand_value(rng, sh), sh)


class Built:
    pass


SRC_ATTR_VALUES = ["vendor/prims/blk_v2.v:317", "", "x", "a.v:1|b.v:2", 'q"uote.v:3', "back\\slash.v:4", 317, 0, -1, 1 << 40]


def io_cat_value(rng, pins, other, shape):
    """an IOValue over the I/O port `pins` (width >= 2) made of slices of it; returns (value, shape-name).
    `split`/`swap`/`bits`/`two_ports` use every bit at most once; `overlap`/`twice`/`bit_twice` repeat a bit
    *inside the one value* (the off-by-one of a bus split: `Cat(pins[0:2], pins[1:3])`)"""
    w = len(pins)
    k = rng.randint(1, w - 1)
    if shape == "split":
        return Cat(pins[0:k], pins[k:w])
    if shape == "swap":
        return Cat(pins[k:w], pins[0:k])
    if shape == "bits":
        idx = list(range(w))
        rng.shuffle(idx)
        return Cat(*(pins[i] for i in idx))
    if shape == "two_ports":
        return Cat(pins[0:k], other, pins[k:w])
    if shape == "part":                         # a proper part of the port; the caller decides about the rest
        return (Cat(pins[0:k]), pins[k:w]) if rng.random() < 0.5 else (pins[k:w], pins[0:k])
    if shape == "overlap":                      # bit k-1 (or k) occurs in both slices
        return Cat(pins[0:k], pins[k - 1:w]) if rng.random() < 0.5 else Cat(pins[k - 1:w], pins[0:k])
    if shape == "twice":
        return Cat(pins, pins[0:k])
    if shape == "bit_twice":
        i = rng.randrange(w)
        return Cat(pins[i], pins[i])
    raise ValueError(shape)


IO_CAT_CLEAN = ["split", "split", "swap", "bits", "two_ports", "part"]
IO_CAT_DUP = ["overlap", "overlap", "twice", "bit_twice"]


class FcKind(lenum.Enum, shape=2):
    """an enumeration-shaped field: its alias wire carries `enum_base_type`/`enum_value_*` attributes"""
    IDLE = 0
    BUSY = 1
    DONE = 3


def alias_suffixes(lay):
    """the suffixes `ModuleEmitter.emit_signal_fields` appends to a signal's name for the alias wires of its
    fields, in order, *with repetitions* (one per field path): `.name` per struct/union/flexible field (the key
    through `str`), `[i]` per array element, joined without separator (`s.f.g[1]`, `s[0].x`, `s[0][1]`)"""
    out = []
    if isinstance(lay, ldata.ArrayLayout):
        for i in range(lay.length):
            out.append(f"[{i}]")
            out += [f"[{i}]" + t for t in alias_suffixes(lay.elem_shape)]
    elif isinstance(lay, ldata.Layout):
        for key, field in lay:
            out.append(f".{key}")
            out += [f".{key}" + t for t in alias_suffixes(field.shape)]
    return out


def fc_layouts():
    """(tag, layout) of the `field_clash` signals: struct / array / nested / union / flexible layouts, zero-width and
    enumeration fields, and (`self_*`) layouts two of whose own field paths join to one alias name"""
    S, A, U = ldata.StructLayout, ldata.ArrayLayout, ldata.UnionLayout
    return [
        ("struct", S({"f": 2, "g": A(2, 2)})),
        ("nested", S({"f": S({"g": 1, "h": signed(2)}), "k": 1})),
        ("array", A(unsigned(2), 2)),
        ("array_of_struct", A(S({"f": 1, "g": signed(2)}), 2)),
        ("array_of_array", A(A(1, 2), 2)),
        ("union", U({"f": 3, "g": signed(2)})),
        ("zero_width_field", S({"z": 0, "f": 2, "g": A(0, 2)})),
        ("enum_field", S({"f": FcKind, "g": 1})),
        ("self_dot", S({"f": S({"g": 1, "h": 2}), "f.g": 3})),
        ("self_index", S({"g": A(2, 2), "g[0]": 1})),
        ("self_deep", S({"f": S({"g": A(1, 2)}), "f.g": 2, "f.g[1]": signed(1)})),
        ("self_flexible", ldata.FlexibleLayout(4, {"f": ldata.Field(A(1, 2), 0), "f[0]": ldata.Field(1, 3),
                                                   0: ldata.Field(signed(2), 1)})),
        ("self_union", U({"f": S({"g": 2}), "f.g": signed(2)})),
    ]


FC_BASES = ["a", "a", "s", "s", "pad", "o", "a.f", "s.g", "s[0]"]


def gen_design(rng, hist, *, instances=True, memories=True, iobufs=True, layouts=True, odd=None, allow_f9=False, allow_f25=False, zero_io=False,
               async_reset=True, max_depth=4, all_ports=False, drop=frozenset(), dup_tf=False, io_cat=False, src_attrs=False,
               field_clash=False, field_clash_cells=False):
    """returns a `Built`: .top .ports .foreign (expected-instance S-expressions) .inputs .domains .pool ...

    `io_cat` and `src_attrs` are off by default and then draw nothing from `rng` (the streams of the other
    checks that use this generator are unchanged).  `io_cat` (needs `iobufs`): extra I/O buffers and instances whose I/O value
    is a concatenation of slices of one (or two) `IOPort`s, a tenth of them with a bit repeated (inside one
    value, or in two separate uses): `.io_dup` tells whether some I/O port bit is used twice anywhere in the
    design (amaranth must refuse exactly those).  `src_attrs`: some instances get an attribute literally
    named `src` (expected among the attributes like any other).

    `field_clash` (off by default; draws nothing from `rng` when off): 1-3 more structured signals (`fc_layouts`: struct,
    array, nested, union, flexible layouts, zero-width and enumeration fields, layouts whose own field paths join to one
    alias name) named from `FC_BASES`, and the *alias names* amaranth gives the wires of their fields (`sig.f`, `sig.f.g`,
    `sig[0]`, `sig[0].f`, ... see `alias_suffixes`) are then used as the names of other signals, of memories, of I/O ports
    and of top-level ports; the module that holds such an object also reads the structured signal (so its alias wires
    are emitted in that very module).  `.field_clash` = {"signals": [(name, tag, [suffixes])], "placed": [(kind, name)]}.
    `field_clash_cells` (needs `field_clash`): alias names also name `Instance`s and submodules."""
    def note(k, n=1):
        hist[k] = hist.get(k, 0) + n

    b = Built()
    b.io_dup = False
    b.io_dup_kinds = []
    # -- module tree -----------------------------------------------------------------------------
    n_mod = rng.choice([1, 2, 2, 3, 3, 4, 5, 6, 8])
    parent, depth = [None], [0]
    for i in range(1, n_mod):
        p = rng.choice([j for j in range(i) if depth[j] < max_depth - 1])
        parent.append(p)
        depth.append(depth[p] + 1)
    empty = [rng.random() < 0.25 for _ in range(n_mod)]
    mods = [Module() for _ in range(n_mod)]
    live = [i for i in range(n_mod) if not empty[i]]
    note(f"modules={n_mod}")
    note(f"depth={max(depth) + 1}")
    note("empty_modules", sum(empty))
    for i in range(n_mod):
        if empty[i]:
            kids = [j for j in range(n_mod) if parent[j] == i]
            pos = "top" if i == 0 else ("leaf" if not kids else ("inner_all_empty" if all(empty[j] for j in kids) else "inner"))
            note("empty_at_" + pos)

    # -- clock domains ---------------------------------------------------------------------------
    doms = []
    for k in range(rng.randint(1, 3)):
        name = ["sync", "d1", "d2"][k]
        edge = rng.choice(["pos", "pos", "neg"])
        kind = rng.choice(["sync", "sync", "none", "async"] if async_reset else ["sync", "sync", "none"])
        cd = ClockDomain(name, clk_edge=edge, reset_less=(kind == "none"), async_reset=(kind == "async"))
        doms.append((name, cd, edge, kind))
        mods[0].domains += cd
        note(f"domain_{edge}_{kind}")
    b.domains = doms

    # -- signal pool -----------------------------------------------------------------------------
    def rand_name():
        r = rng.random()
        if odd == "dollar":
            return rng.choice(["a", "a", "a", "a$1", "a$2", "a$3", "a$4", "a$5", "a$6", "a$7", "port$5$0", "b"])
        if odd == "space" and r < 0.3:
            return rng.choice(["a b", "x\ty", " a", "o "])
        if odd == "dot" and r < 0.4:
            return rng.choice(["a.f", "s.g", "s[0]", "a.f.g", "s.g[1]"])
        if r < 0.1:
            return ""
        return rng.choice(NAMES)

    pool = []
    layouts_used = 0
    lay_sigs = []        # (signal, tag, layout) of the structured signals
    for k in range(rng.randint(3, 10)):
        nm = rand_name()
        if layouts and rng.random() < 0.12:
            lay = rng.choice([
                ldata.StructLayout({"f": 2, "g": ldata.ArrayLayout(2, 2)}),
                ldata.StructLayout({"f": signed(3), "g": 1}),
                ldata.ArrayLayout(unsigned(2), 2),
                ldata.UnionLayout({"f": 3, "g": signed(2)}),
            ])
            s = Signal(lay, name=nm or rng.choice(["a", "s"])).as_value()
            layouts_used += 1
            lay_sigs.append((s, "pool", lay))
        else:
            sh = gen_expr.rand_shape(rng, 6)
            s = Signal(sh, name=nm, init=gen_expr.rand_value(rng, sh))
        pool.append(s)
    # -- field alias names (optional, see `field_clash`) -----------------------------------------------
    fc_names = []        # (alias name, index into lay_sigs) - candidates for the names of other objects
    fc_used = set()      # (module index, id of structured signal): the module reads the signal already
    b.field_clash = {"signals": [], "placed": []}
    if field_clash:
        for k in range(rng.randint(1, 3)):
            tag, lay = rng.choice(fc_layouts())
            s = Signal(lay, name=rng.choice(FC_BASES)).as_value()
            pool.append(s)
            lay_sigs.append((s, tag, lay))
            note("field_clash_layout=" + tag)
        for k, (s, tag, lay) in enumerate(lay_sigs):
            sufs = alias_suffixes(lay)
            b.field_clash["signals"].append((s.name, tag, sufs))
            fc_names += [(s.name + t, k) for t in sufs]
            if len(set(sufs)) < len(sufs):
                note("field_clash_self_collision")
        seen = {}
        for nm, k in fc_names:
            seen.setdefault(nm, set()).add(k)
        note("field_clash_cross_signal_collision", sum(1 for ks in seen.values() if len(ks) > 1))
        note("field_clash_signals", len(lay_sigs))
        # other signals named like an alias wire (also structured ones: `a.f` with a field `g` next to `a` with `f.g`)
        for k in range(rng.randint(0, 2)):
            nm, _k = rng.choice(fc_names)
            sh = gen_expr.rand_shape(rng, 6)
            pool.append(Signal(sh, name=nm, init=gen_expr.rand_value(rng, sh)))
            b.field_clash["placed"].append(("signal", nm))
            note("field_clash_signal")

    def fc_name(mi, kind, p):
        """with probability `p` an alias name for an object of `kind` that lives in module `mi` (None otherwise);
        the module then reads the structured signal, so the alias wires are emitted next to the object"""
        if not fc_names or rng.random() >= p:
            return None
        nm, k = rng.choice(fc_names)
        fc_touch(mi, k)
        b.field_clash["placed"].append((kind, nm))
        note("field_clash_" + kind)
        return nm

    def fc_touch(mi, k):
        s = lay_sigs[k][0]
        if mi is None or empty[mi] or (mi, id(s)) in fc_used:
            return
        fc_used.add((mi, id(s)))
        # a sink nobody reads: no combinational path is added
        mods[mi].d.comb += Signal(max(len(s), 1), name="").eq(s)

    def fc_touch_name(mi, nm):
        """the object called `nm` is (also) used in module `mi`"""
        for n, k in fc_names:
            if n == nm:
                fc_touch(mi, k)
                return

    pool.append(Signal(2, name="sel"))      # always one small unsigned signal for offsets
    note("layout_signals", layouts_used)
    b.pool = pool

    # -- ownership of bit ranges -------------------------------------------------------------------
    roles = {}       # index -> "input" | "unused" | "driven"
    ranges = {}      # index -> [(lo, hi, owner)]
    comb_rank = {}   # index -> position in `order` of the module owning its comb ranges
    order = live[:]
    rng.shuffle(order)
    for i, s in enumerate(pool):
        r = rng.random()
        if i == len(pool) - 1 or r < 0.25 or not live:
            roles[i] = "input"
            continue
        if r < 0.33:
            roles[i] = "unused"
            continue
        roles[i] = "driven"
        w = len(s)
        if w <= 1 or rng.random() < 0.55:
            cuts = [0, w]
        else:
            cuts = sorted({0, w, *(rng.randint(0, w) for _ in range(rng.randint(1, 2)))})
        comb_mod = rng.choice(live)
        rs = []
        for lo, hi in zip(cuts, cuts[1:]):
            q = rng.random()
            if q < 0.2 and len(cuts) > 2:
                owner = None
            elif q < 0.55:
                owner = ("comb", comb_mod)
                comb_rank[i] = order.index(comb_mod)
            elif q < 0.9 or not (instances or iobufs):
                owner = ("sync", rng.choice(live), rng.randrange(len(doms)))
            elif instances and (not iobufs or rng.random() < 0.6):
                owner = ("inst", rng.choice(live))
            else:
                owner = ("iobuf", rng.choice(live))
                # the buffer's input depends combinationally on its output enable: rank it like comb logic
                comb_rank[i] = max(comb_rank.get(i, 0), order.index(owner[1]))
            rs.append((lo, hi, owner))
        ranges[i] = rs
        kinds = {o[0] if o else "none" for _lo, _hi, o in rs}
        note("signal_" + "+".join(sorted(kinds)) + ("_partial" if len(rs) > 1 else ""))
        if w == 0:
            note("zero_width_driven")
    for i in range(len(pool)):
        note("role_" + roles[i])
        if pool[i].name == "":
            note("private_name")

    def piece(i, lo, hi):
        s = pool[i]
        return s if (lo, hi) == (0, len(s)) and rng.random() < 0.8 else s[lo:hi]

    regs = [pool[i] for i in range(len(pool)) if roles[i] == "driven" and i not in comb_rank]
    inputs = [pool[i] for i in range(len(pool)) if roles[i] == "input"]
    extra_by_rank = {k: [] for k in range(len(order) + 1)}     # memory read data etc. readable from rank k on
    always = []                                                # readable everywhere (sync read data, instance outputs)

    # -- I/O ports -----------------------------------------------------------------------------------
    ioports = []
    if iobufs or instances:
        for k in range(rng.randint(0, 3)):
            ioports.append(IOPort(rng.randint(0 if zero_io else 1, 3), name=rng.choice(["pad", "io", "a", "sub", "pad"])))
        if field_clash:
            # I/O ports named like an alias wire; the module that uses one is known only later (`fc_touch_name`)
            for k in range(rng.randint(0, 2)):
                ioports.append(IOPort(rng.randint(1, 3), name=fc_name(None, "ioport", 1.0) or "pad"))
    free_io = ioports[:]
    rng.shuffle(free_io)
    b.foreign = []
    n_inst = 0
    n_mem = 0
    all_items = []
    mem_obs = []
    has_dup_tf = [False]
    leaf_ctr = [0]
    class _Kept(list):
        pass
    kept_targets = _Kept()
    kept_targets.ids = []

    # -- modules -------------------------------------------------------------------------------------
    for rank, mi in enumerate(order):
        m = mods[mi]
        comb_read = inputs + regs + always + [pool[i] for i, rk in comb_rank.items() if rk < rank]
        for k in range(rank + 1):
            comb_read = comb_read + extra_by_rank[k]
        any_read = [s for i, s in enumerate(pool) if roles[i] != "unused"] + always
        offs = [s for s in comb_read if not s.shape().signed and 1 <= len(s) <= 3] or [pool[-1]]
        g_comb = gen_expr.Gen(rng, comb_read, maxw=6)
        g_sync = gen_expr.Gen(rng, any_read, maxw=6)
        comb_t = [piece(i, lo, hi) for i, rs in ranges.items() for lo, hi, o in rs if o == ("comb", mi)]
        first = True
        for di in range(len(doms)):
            sync_t = [piece(i, lo, hi) for i, rs in ranges.items() for lo, hi, o in rs if o == ("sync", mi, di)]
            if not sync_t and not (first and comb_t):
                continue
            tg_c = gen_expr.TargetGen(rng, comb_t if first else [], offs, alias=False, hist=hist)
            tg_s = gen_expr.TargetGen(rng, sync_t, offs, alias=False, hist=hist)
            first = False
            try:
                items = gen_prog.gen_items(rng, g_comb, g_sync, Fresh(tg_c, allow_f9, allow_f25), Fresh(tg_s, allow_f9, allow_f25),
                                           rng.randint(0, 2), hist, n=rng.randint(1, 3))
            except Exception as e:             # a construction-time rejection inside the expression generator
                note("generator_error:" + type(e).__name__)
                items = []
            build_items(m, items, doms[di][0], leaf_ctr, drop, kept_targets)
            all_items.append(items)
        if first and comb_t:
            pass
        # memories
        n_mems = rng.choice([0, 0, 0, 0, 0, 0, 1, 1, 2, 3]) if memories else 0
        if field_clash and memories and rng.random() < 0.5:
            n_mems = max(n_mems, rng.choice([1, 1, 2]))
        for _mem_k in range(n_mems):
            n_mem += 1
            w = rng.randint(1, 6)
            gran = None
            if w % 2 == 0 and rng.random() < 0.4:
                gran = w // 2
            dpt = rng.choice([1, 2, 3, 4, 5, 8])
            shape = unsigned(w) if gran or rng.random() < 0.7 else signed(w)
            init = [gen_expr.rand_value(rng, shape) for _ in range(rng.randint(0, dpt))]
            mem = Memory(shape=shape, depth=dpt, init=init)
            nm = (field_clash and fc_name(mi, "memory", 0.6)) or rng.choice(SUBNAMES + [None])
            if nm is None:
                m.submodules += mem
            else:
                try:
                    m.submodules[nm] = mem
                except Exception:
                    m.submodules += mem
            wps = []
            for _k in range(rng.randint(0, 2)):
                di = rng.randrange(len(doms))
                wp = mem.write_port(domain=doms[di][0], granularity=gran)
                wps.append((wp, di))
                m.d.comb += [wp.addr.eq(g_comb.expr(1)), wp.data.eq(g_comb.expr(2)), wp.en.eq(g_comb.expr(1))]
            for _k in range(rng.randint(1, 2)):
                if rng.random() < 0.35:
                    rp = mem.read_port(domain="comb")
                    m.d.comb += rp.addr.eq(g_comb.expr(1))
                    extra_by_rank[min(rank + 1, len(order))].append(rp.data)
                    mem_obs.append(rp.data)
                    note("mem_read_comb")
                else:
                    di = rng.randrange(len(doms))
                    tf = tuple(wp for wp, dj in wps if dj == di and rng.random() < 0.6)
                    if dup_tf and tf and rng.random() < 0.5:
                        tf = tf + (tf[0],)          # a write port listed twice (finding F29, separate stream)
                        has_dup_tf[0] = True
                        note("mem_transparent_for_duplicate")
                    rp = mem.read_port(domain=doms[di][0], transparent_for=tf)
                    m.d.comb += [rp.addr.eq(g_comb.expr(1)), rp.en.eq(g_comb.expr(1))]
                    always.append(rp.data)
                    mem_obs.append(rp.data)
                    note("mem_read_sync" + ("_transparent" if tf else ""))
            note(f"mem_depth={dpt}")
        # instances
        inst_t = [(i, lo, hi) for i, rs in ranges.items() for lo, hi, o in rs if o == ("inst", mi)]
        if instances and (inst_t or rng.random() < 0.15):
            n_inst += 1
            ty = f"ext{n_inst}_{rng.randint(0, 99)}"
            args = []
            params, attrs, ports = [], [], []
            for k in range(rng.randint(0, 5)):
                v = rand_param(rng)
                args.append(("p", f"P{k}", v))
                kind, c = expected_const(v)
                params.append(f'({kind} "\\\\P{k}" {c})')
            def add_src():
                # an attribute literally named `src` (the name of the generated source-location attribute)
                v = rng.choice(SRC_ATTR_VALUES) if rng.random() < 0.8 else rand_param(rng, allow_float=False)
                args.append(("a", "src", v))
                _kind, c = expected_const(v)
                attrs.append(f'("\\\\src" {c})')
                note("instance_attr_src")
                note("instance_attr_src_" + type(v).__name__)
            src_at = rng.choice(["first", "last", None, None, None]) if src_attrs else None
            if src_at == "first":
                add_src()
            for k in range(rng.randint(0, 2)):
                v = rand_param(rng, allow_float=False)
                args.append(("a", f"at{k}", v))
                _kind, c = expected_const(v)
                attrs.append(f'("\\\\at{k}" {c})')
            if src_at == "last":
                add_src()
            for k in range(rng.randint(0, 3)):
                e = g_comb.expr(rng.randint(0, 2))
                args.append(("i", f"i{k}", e))
                ports.append(f'("\\\\i{k}" i {len(e)} -)')
            for k, (i, lo, hi) in enumerate(inst_t):
                args.append(("o", f"o{k}", piece(i, lo, hi)))
                ports.append(f'("\\\\o{k}" o {hi - lo} -)')
            if free_io and rng.random() < 0.6:
                io = free_io.pop()
                if field_clash:
                    fc_touch_name(mi, io.name)
                d = rng.choice(["i", "o", "io"])
                args.append((d, "pad", io))
                ports.append(f'("\\\\pad" io {len(io)} -)' if d == "io" else f'("\\\\pad" {d} {len(io)} -)')
                b_dir = d
            inst = Instance(ty, *args)
            nm = (field_clash_cells and fc_name(mi, "instance", 0.6)) or rng.choice(SUBNAMES + [None])
            if nm is None:
                m.submodules += inst
            else:
                try:
                    m.submodules[nm] = inst
                except Exception:
                    m.submodules += inst
            b.foreign.append(f'(inst "\\\\{ty}" (params {" ".join(params)}) (attrs {" ".join(attrs)}) (ports {" ".join(ports)}))')
            note("instance")
        # I/O buffers
        buf_t = [(i, lo, hi) for i, rs in ranges.items() for lo, hi, o in rs if o == ("iobuf", mi)]
        for (i, lo, hi) in buf_t:
            if hi == lo and not zero_io:
                continue                     # a zero-width IOPort is finding F26 (separate stream)
            io = IOPort(hi - lo, name=(field_clash and fc_name(mi, "ioport", 0.5)) or rng.choice(["pad", "io", "a"]))
            ioports.append(io)
            if rng.random() < 0.5:
                m.submodules += IOBufferInstance(io, i=piece(i, lo, hi))
                note("iobuf_i")
            else:
                m.submodules += IOBufferInstance(io, i=piece(i, lo, hi), o=Cat(g_comb.expr(1), Const(0, hi - lo))[:hi - lo],
                                                 oe=g_comb.expr(1).bool())
                note("iobuf_io")
        if iobufs and free_io and rng.random() < (0.6 if field_clash else 0.3):
            io = free_io.pop()
            if field_clash:
                fc_touch_name(mi, io.name)
            e = g_comb.expr(2)
            e = Cat(e, Const(0, len(io)))[:len(io)]
            if rng.random() < 0.5:
                m.submodules += IOBufferInstance(io, o=e)
                note("iobuf_o")
            else:
                m.submodules += IOBufferInstance(io, o=e, oe=g_comb.expr(1).bool())
                note("iobuf_o_oe")

        # I/O values that are concatenations of slices of a port (optional, see `io_cat`)
        if io_cat and iobufs and rng.random() < 0.25:
            fit = lambda e, n: Cat(e, Const(0, n))[:n]
            dup = rng.choice(IO_CAT_DUP + ["two_uses"]) if rng.random() < 0.15 else None
            if dup in IO_CAT_DUP:
                shape = dup
            elif dup == "two_uses":
                shape = rng.choice(["split", "swap", "bits"])        # every bit of the port is used once already
            else:
                shape = rng.choice(IO_CAT_CLEAN)
            pins = IOPort(rng.randint(2, 4), name=(field_clash and fc_name(mi, "ioport", 0.5)) or rng.choice(["pins", "pad", "io", "a"]))
            ioports.append(pins)
            other = None
            if shape == "two_ports":
                other = IOPort(rng.randint(1, 2), name=rng.choice(["pins", "pad", "b"]))
                ioports.append(other)
            val = io_cat_value(rng, pins, other, shape)
            rest = None
            if shape == "part":
                val, rest = val
            n = len(val)
            kinds = ["buf_o", "buf_o", "buf_o_oe", "buf_i", "buf_io"] + (["inst_o", "inst_o", "inst_io", "inst_i"] if instances else [])
            kind = rng.choice(kinds)
            if kind in ("buf_i", "buf_io"):
                tgt = Signal(n, name=rng.choice(NAMES))
                # the buffer's input depends combinationally on its output enable: readable from the next rank on
                extra_by_rank[min(rank + 1, len(order))].append(tgt)
            if kind == "buf_o":
                m.submodules += IOBufferInstance(val, o=fit(g_comb.expr(2), n))
            elif kind == "buf_o_oe":
                m.submodules += IOBufferInstance(val, o=fit(g_comb.expr(2), n), oe=g_comb.expr(1).bool())
            elif kind == "buf_i":
                m.submodules += IOBufferInstance(val, i=tgt)
            elif kind == "buf_io":
                m.submodules += IOBufferInstance(val, i=tgt, o=fit(g_comb.expr(1), n), oe=g_comb.expr(1).bool())
            else:
                n_inst += 1
                ty = f"ext{n_inst}_{rng.randint(0, 99)}"
                d = kind[5:]
                e = fit(g_comb.expr(1), n)
                inst = Instance(ty, ("i", "D", e), (d, "pad", val))
                nm = (field_clash_cells and fc_name(mi, "instance", 0.6)) or rng.choice(SUBNAMES + [None])
                if nm is None:
                    m.submodules += inst
                else:
                    try:
                        m.submodules[nm] = inst
                    except Exception:
                        m.submodules += inst
                b.foreign.append(f'(inst "\\\\{ty}" (params ) (attrs ) (ports ("\\\\D" i {n} -) ("\\\\pad" {d} {n} -)))')
                note("instance")
            if rest is not None:
                # the other bits of the port get a separate, disjoint use (two uses of one port that must not be refused).
                # Left unused they would be undriven bits of an `output` port wire when the part is driven: the top-level
                # port is always the whole IOPort (recorded observation, see c07.witness_partial_output_ioport);
                # beside an input-only use they may stay unused (driven by the module input)
                if kind in ("buf_i", "inst_i") and rng.random() < 0.4:
                    note("io_cat_rest=unused_input_bits")
                elif rng.random() < 0.6:
                    m.submodules += IOBufferInstance(rest, o=fit(g_comb.expr(1), len(rest)))
                    note("io_cat_rest=o")
                else:
                    t3 = Signal(len(rest), name=rng.choice(NAMES))
                    m.submodules += IOBufferInstance(rest, i=t3)
                    note("io_cat_rest=i")
            if dup == "two_uses":
                j = rng.randrange(len(pins))
                if rng.random() < 0.5:
                    m.submodules += IOBufferInstance(pins[j], o=fit(g_comb.expr(1), 1))
                else:
                    t2 = Signal(1, name=rng.choice(NAMES))
                    m.submodules += IOBufferInstance(pins[j], i=t2)
            note("io_cat")
            note("io_cat_kind=" + kind)
            note("io_cat_shape=" + shape)
            note("io_cat_width=" + str(n))
            if dup:
                b.io_dup = True
                b.io_dup_kinds.append(f"{kind}:{dup}")
                note("io_cat_dup=" + dup)
                note("io_cat_dup_kind=" + kind)
            else:
                note("io_cat_clean")

    # fix up `o`-length mismatches are impossible by construction; attach the tree
    for i in range(1, n_mod):
        nm = ((field_clash_cells and not empty[parent[i]] and fc_name(parent[i], "submodule", 0.5))
              or rng.choice(SUBNAMES + [None, None]))
        p = mods[parent[i]]
        if nm is None:
            p.submodules += mods[i]
        else:
            try:
                p.submodules[nm] = mods[i]
            except Exception:          # the DSL refuses two submodules of one name in one module
                p.submodules += mods[i]
    b.top = mods[0]
    b.n_inst, b.n_mem = n_inst, n_mem
    b.has_f9 = any(f9_shaped(t) for t in kept_targets)
    # the leaves (numbered as `drop` numbers them) whose target has the shape of finding F9
    b.f9_leaves = [i for t, i in zip(kept_targets, kept_targets.ids) if f9_shaped(t)] if len(kept_targets.ids) == len(kept_targets) else None
    b.has_f25 = any(f25_shaped(t) for t in kept_targets)
    b.n_leaves = leaf_ctr[0]

    # -- ports ---------------------------------------------------------------------------------------
    cands = []
    for i, s in enumerate(pool):
        if roles[i] == "input":
            if all_ports or rng.random() < 0.8:
                cands.append(s)
        elif roles[i] == "driven":
            if all_ports or rng.random() < 0.6:
                cands.append(s)
        elif rng.random() < 0.3:
            cands.append(s)
    for _n, cd, _e, kind in doms:
        if all_ports or rng.random() < 0.9:
            cands.append(cd.clk)
            if kind != "none":
                cands.append(cd.rst)
    rng.shuffle(cands)
    io_c = [io for io in ioports if rng.random() < 0.8]
    style = rng.choice(["list", "dict", "tuples"])
    if style == "list":
        cands = [s for s in cands if s.name != ""]
        b.ports = cands + io_c
    else:
        used = set()
        out = []
        for s in cands + io_c:
            nm = (field_clash and fc_name(0, "port_name", 0.15)) or rng.choice(NAMES + [s.name or "p"] * 6)
            while nm in used or nm == "":
                nm = nm + "_" if nm else "p"
            used.add(nm)
            out.append((nm, s, None))
        b.ports = {nm: (s, d) for nm, s, d in out} if style == "dict" else out
    note("ports_" + style)
    b.inputs = inputs
    b.mem_obs = mem_obs
    b.has_dup_tf = has_dup_tf[0]
    b.ioports = ioports
    b.roles, b.ranges = roles, ranges
    return b
