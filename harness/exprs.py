"""Expression campaigns shared by C01 (compiled circuits) and C05 (testbench reads).

Each job builds real amaranth expressions, simulates them (circuit path: a comb signal assigned the
expression; testbench path: ctx.get(expr)), and asks the Lean driver for Model and Spec values of
the same constructed AST."""
import itertools
import os
import random
import traceback
from concurrent.futures import ProcessPoolExecutor

from . import common
from .common import ser_value, ser_ctx, ser_env, errkind


def sim_exprs(sigs, exprs, envs, want_tb=True):
    """returns per expr: list over envs of (circuit, tb) values, or ('error', kind, text)"""
    from amaranth.hdl import Module, Signal, Shape
    from amaranth.sim import Simulator

    def attempt(idxs):
        m = Module()
        outs = {}
        wide = {}
        for k in idxs:
            o = Signal(exprs[k].shape(), name=f"o{k}")
            m.d.comb += o.eq(exprs[k])
            outs[k] = o
            # the same expression assigned to a target three bits wider of the same signedness: extended by its own
            # signedness it must show the same integer (a seeded change dropped the normalisation of unsigned
            # right-hand sides, visible only in a wider target)
            sh = exprs[k].shape()
            ow = Signal(Shape(sh.width + 3, sh.signed), name=f"ow{k}")
            m.d.comb += ow.eq(exprs[k])
            wide[k] = ow
        sim = Simulator(m)
        res = {k: [None] * len(envs) for k in idxs}

        async def tb(ctx):
            for j, env in enumerate(envs):
                for s, v in zip(sigs, env):
                    ctx.set(s, v)
                for k in idxs:
                    c = ctx.get(outs[k])
                    cw = ctx.get(wide[k])
                    if cw != c:
                        c = ("wider-target-differs", c, cw)
                    t = ctx.get(exprs[k]) if want_tb else None
                    res[k][j] = (c, t)
        sim.add_testbench(tb)
        sim.run()
        return res

    idxs = list(range(len(exprs)))
    try:
        r = attempt(idxs)
        return [r[k] for k in idxs]
    except Exception:
        out = []
        for k in idxs:
            try:
                out.append(attempt([k])[k])
            except Exception as e:
                # find which path fails
                try:
                    if want_tb:
                        saved = exprs[k]
                        r = sim_exprs(sigs, [saved], envs, want_tb=False)[0]
                        out.append(("tb-error", errkind(e), repr(e)[:200], r))
                        continue
                except Exception:
                    pass
                out.append(("error", errkind(e), repr(e)[:200]))
        return out


def _mk_requests(sigs, exprs, envs):
    sigidx = {id(s): i for i, s in enumerate(sigs)}
    ctx = ser_ctx([s.shape() for s in sigs])
    envtxt = " ".join(ser_env(e) for e in envs)
    return [f"(eval {ctx} {ser_value(e, sigidx)} {envtxt})" for e in exprs]


def parse_eval(resp):
    """'eval W sg wf=1 ; rtl=.. old=.. tb=.. spec=.. ; ...' -> (shape, wf, [dict])"""
    if not resp.startswith("eval "):
        return None
    parts = resp.split(" ; ")
    head = parts[0].split()
    shape = (int(head[1]), head[2] == "s")
    wf = head[3] == "wf=1"
    rows = []
    for p in parts[1:]:
        d = common.kv(p)
        rows.append({k: int(v) for k, v in d.items()})
    return shape, wf, rows


def random_job(args):
    """one batch of random expressions; returns a summary dict (picklable)"""
    seed, n_expr, depth, maxw, n_env, wide = args
    from . import gen_expr
    rng = random.Random(seed)
    hist = {}
    sigs = gen_expr.make_signals(rng, rng.randint(2, 6), maxw)
    g = gen_expr.Gen(rng, sigs, maxw=maxw, wide=wide, hist=hist)
    exprs = []
    errors = []
    while len(exprs) < n_expr:
        try:
            exprs.append(g.expr(rng.randint(1, depth)))
        except Exception as e:     # construction-time rejection inside the generator is a generator bug
            errors.append(("construct", errkind(e), traceback.format_exc()[-400:]))
            if len(errors) > 50:
                break
    envs = [[gen_expr.rand_value(rng, s.shape()) for s in sigs] for _ in range(n_env)]
    reqs = _mk_requests(sigs, exprs, envs)
    sims = sim_exprs(sigs, exprs, envs)
    return {"seed": seed, "reqs": reqs, "sims": sims, "shapes": [(len(e), e.shape().signed) for e in exprs],
            "reprs": [repr(e)[:300] for e in exprs], "hist": hist, "errors": errors,
            "sigshapes": [(len(s), s.shape().signed) for s in sigs], "envs": envs}


def table_job(args):
    """exhaustive depth-1 table for one pair of operand shapes: every operator, every value pair"""
    (wa, sa), (wb, sb) = args
    from amaranth.hdl import Signal, Shape, Cat, Mux, Const
    from . import gen_expr
    a = Signal(Shape(wa, sa), name="a")
    b = Signal(Shape(wb, sb), name="b")
    sigs = [a, b]
    exprs = []
    names = []

    def add(name, f):
        try:
            exprs.append(f())
            names.append(name)
        except Exception:
            pass   # construction-time rejections are compared in the malformed stream

    for name, f in [("~", lambda: ~a), ("neg", lambda: -a), ("b", lambda: a.bool()), ("any", lambda: a.any()),
                    ("all", lambda: a.all()), ("xor", lambda: a.xor()), ("u", lambda: a.as_unsigned()),
                    ("s", lambda: a.as_signed()), ("abs", lambda: abs(a))]:
        add(name, f)
    import operator as O
    for name, f in [("+", O.add), ("-", O.sub), ("*", O.mul), ("//", O.floordiv), ("%", O.mod), ("==", O.eq),
                    ("!=", O.ne), ("<", O.lt), ("<=", O.le), (">", O.gt), (">=", O.ge), ("&", O.and_),
                    ("|", O.or_), ("^", O.xor), ("<<", O.lshift), (">>", O.rshift)]:
        add(name, lambda f=f: f(a, b))
    add("cat", lambda: Cat(a, b))
    add("mux", lambda: Mux(a, b, a))
    add("mux2", lambda: Mux(b, a, b))
    add("rep", lambda: a.replicate(2))
    for w in range(0, 3):
        add(f"bit_select{w}", lambda w=w: a.bit_select(b, w))
        add(f"word_select{w}", lambda w=w: a.word_select(b, w))
        add(f"inv_bit_select{w}", lambda w=w: (~a).bit_select(b, w))
        add(f"us_bit_select{w}", lambda w=w: (a.as_signed() if not sa else a.as_unsigned()).bit_select(b, w))
    for s in range(0, wa + 1):
        for e in range(s, wa + 1):
            add(f"slice{s}:{e}", lambda s=s, e=e: a[s:e])
    for n in range(-2, wa + 2):
        add(f"shl{n}", lambda n=n: a.shift_left(n))
        add(f"shr{n}", lambda n=n: a.shift_right(n))
        add(f"rol{n}", lambda n=n: a.rotate_left(n))
        add(f"ror{n}", lambda n=n: a.rotate_right(n))
    for p in (["".join(t) for t in itertools.product("01-", repeat=wa)] if wa <= 2 else ["1" + "-" * (wa - 1), "-" * wa, "0" * wa]):
        add(f"matches:{p}", lambda p=p: a.matches(p))
    add("matches:int", lambda: a.matches(1, -1, 2))
    envs = [[x, y] for x in gen_expr.all_values(a.shape()) for y in gen_expr.all_values(b.shape())]
    reqs = _mk_requests(sigs, exprs, envs)
    sims = sim_exprs(sigs, exprs, envs)
    return {"seed": None, "reqs": reqs, "sims": sims, "shapes": [(len(e), e.shape().signed) for e in exprs],
            "reprs": [repr(e)[:300] for e in exprs], "hist": {n.split(':')[0].rstrip('-0123456789'): 1 for n in names},
            "errors": [], "sigshapes": [(wa, sa), (wb, sb)], "envs": envs}


def derived_job(args):
    """derived operators (abs, constant shifts/rotates, replicate, matches, Mux, Array, subscripts) applied to
    random operands through the public API; the Lean Spec gives their meaning on the operands' exact values"""
    seed, n_cases, n_env = args
    from amaranth.hdl import Mux, Array, Value
    from . import gen_expr
    rng = random.Random(seed)
    sigs = gen_expr.make_signals(rng, rng.randint(2, 5), 6)
    g = gen_expr.Gen(rng, sigs, maxw=6)
    sigidx = {id(s): i for i, s in enumerate(sigs)}
    ctx = ser_ctx([s.shape() for s in sigs])
    envs = [[gen_expr.rand_value(rng, s.shape()) for s in sigs] for _ in range(n_env)]
    envtxt = " ".join(ser_env(e) for e in envs)
    cases, exprs_, hist = [], [], {}

    def upat(p):
        return '"' + "".join(p.split()) + '"' if isinstance(p, str) else f"(i {int(p)})"
    for _ in range(n_cases):
        a = Value.cast(g.expr(rng.randint(0, 2)))
        n = len(a)
        kind = rng.choice(["abs", "shl", "shr", "rol", "ror", "rep", "matches", "matches", "mux", "array", "index", "slicestep"])
        ops = [a]
        try:
            if kind == "abs":
                e, op = abs(a), "(abs)"
            elif kind == "shl":
                k = rng.randint(-n - 1, 5); e, op = a.shift_left(k), f"(shl {k})"
            elif kind == "shr":
                k = rng.randint(-4, n + 2); e, op = a.shift_right(k), f"(shr {k})"
            elif kind == "rol":
                k = rng.randint(-2 * n - 1, 2 * n + 1); e, op = a.rotate_left(k), f"(rol {k})"
            elif kind == "ror":
                k = rng.randint(-2 * n - 1, 2 * n + 1); e, op = a.rotate_right(k), f"(ror {k})"
            elif kind == "rep":
                k = rng.randint(0, 3); e, op = a.replicate(k), f"(rep {k})"
            elif kind == "matches":
                pats = []
                for _p in range(rng.randint(0, 3)):
                    r = rng.random()
                    if r < 0.45:
                        pats.append("".join(rng.choice("01") for _b in range(n)))        # fully specified
                    else:
                        pats.append(gen_expr.rand_pattern(rng, n))
                e, op = a.matches(*pats), "(matches " + " ".join(upat(p) for p in pats) + ")"
            elif kind == "mux":
                b, c = Value.cast(g.expr(rng.randint(0, 2))), Value.cast(g.expr(rng.randint(0, 2)))
                sel = Value.cast(g.expr(rng.randint(0, 1)))
                e, op, ops = Mux(sel, b, c), "(mux)", [sel, b, c]
            elif kind == "array":
                elems = [Value.cast(g.expr(rng.randint(0, 2))) for _e in range(rng.randint(1, 4))]
                idx = g.small_unsigned(1, 2)
                if rng.random() < 0.35 and len(idx) >= 1:
                    idx = idx.as_signed()          # a signed index reaches only the non-negative half of its range
                e, op, ops = Value.cast(Array(elems)[idx]), "(array)", [idx] + elems
            elif kind == "index":
                if n == 0:
                    continue
                k = rng.randint(-n, n - 1); e, op = a[k], f"(index {k})"
            else:
                sl = slice(rng.choice([None, rng.randint(-n - 1, n + 1)]), rng.choice([None, rng.randint(-n - 1, n + 1)]),
                           rng.choice([None, 1, 2, 3, -1, -2]))
                st, sp, stp = sl.indices(n)
                e, op = a[sl], f"(slicestep {st} {sp} {stp})"
                e = Value.cast(e)
        except Exception as ex:
            hist["construct:" + errkind(ex)] = hist.get("construct:" + errkind(ex), 0) + 1
            continue
        if len(e) > 400:
            continue
        hist[kind] = hist.get(kind, 0) + 1
        exprs_.append(e)
        cases.append({"req": f"(derived {op} {ctx} (operands {' '.join(ser_value(o, sigidx) for o in ops)}) (built {ser_value(e, sigidx)}) {envtxt})",
                      "repr": f"{kind} {op} on {[repr(o)[:120] for o in ops]}", "shape": (len(e), e.shape().signed)})
    sims = sim_exprs(sigs, exprs_, envs)
    return {"seed": seed, "cases": cases, "sims": sims, "envs": envs, "hist": hist,
            "sigshapes": [(len(s), s.shape().signed) for s in sigs]}


def judge_derived(chk, job, path, resps):
    pos = 0 if path == "circuit" else 1
    for c, sim, resp in zip(job["cases"], job["sims"], resps):
        base = {"request": c["req"], "repr": c["repr"], "sigshapes": job["sigshapes"], "job_seed": job["seed"]}
        if not resp.startswith("derived "):
            chk.not_shown("driver could not evaluate a derived operator", dict(base, response=resp))
            continue
        if resp.strip() == "derived none":
            chk.hist("derived_out_of_spec", 1)        # e.g. out-of-range array index: not covered by the property
            continue
        parts = resp.split(" ; ")
        head = parts[0].split(None, 3)
        shape = (int(head[1]), head[2] == "s")
        vals = parts[1:]
        chk.count(len(vals))
        chk.distinct(c["req"], len(set(vals)) > 1)
        built = head[3] if len(head) > 3 else "built=na"
        chk.hist("derived_built:" + built.split(":")[0][6:], 1)
        if built.startswith("built=differs"):
            # the construction-time rewrite is not the modelled one: theorem derived_build_spec says nothing
            # about this code any more; the value comparison below is the search for a failing input
            chk.not_shown(f"the nodes built for {c['repr'][:80]} are not the modelled rewrite (theorem Amaranth.derived_build_spec)",
                          dict(base, kind="derived-built", model=built[len("built=differs:"):][:2000]))
        if shape != tuple(c["shape"]):
            chk.violation(f"shape of {c['repr']} is {c['shape']}, the documented shape is {shape}",
                          dict(base, kind="derived-shape", impl=c["shape"], spec=shape, classes=[]))
            continue
        if isinstance(sim, tuple):
            chk.violation(f"simulation of {c['repr']} raises {sim[1]}", dict(base, kind="derived-raises", error=sim[1:3], classes=[]))
            continue
        for j, v in enumerate(vals):
            if v == "none":
                continue
            if sim[j][pos] is not None and sim[j][pos] != int(v):
                chk.violation(f"{path} value of {c['repr']} with inputs {job['envs'][j]} is {sim[j][pos]}, Python semantics give {v}",
                              dict(base, kind="derived-value", env=job["envs"][j], impl=sim[j][pos], spec=int(v), classes=[]))
                break


def classify_expr(req):
    """structural classes of a request, used to match known findings"""
    classes = set()
    if "(part (~ " in req or "(part (u " in req or "(part (s " in req:
        classes.add("F1-candidate")
    return classes


def judge(chk, job, path, drv_resps):
    """compare impl with model and spec; `path` is 'circuit' (C01) or 'tb' (C05)"""
    model_key = "rtl" if path == "circuit" else "tb"
    pos = 0 if path == "circuit" else 1
    for k, (req, resp) in enumerate(zip(job["reqs"], drv_resps)):
        parsed = parse_eval(resp)
        sim = job["sims"][k]
        base = {"request": req, "repr": job["reprs"][k], "sigshapes": job["sigshapes"], "job_seed": job["seed"]}
        if parsed is None:
            chk.not_shown("driver could not evaluate a constructed expression", dict(base, response=resp))
            continue
        shape, wf, rows = parsed
        chk.count(len(rows))
        nontrivial = "(sig" in req and len({(r["spec"]) for r in rows}) > 1
        chk.distinct(req, nontrivial)
        chk.hist("result_width", min(shape[0], 80) // 8 * 8)
        if shape != tuple(job["shapes"][k]):
            chk.violation(f"shape of {job['reprs'][k]} is {job['shapes'][k]} but the documented rule gives {shape}",
                          dict(base, kind="shape", impl=job["shapes"][k], model=shape, classes=[]))
            continue
        if not wf:
            chk.not_shown("amaranth constructed an expression the model's WF rejects", base)
            continue
        if isinstance(sim, tuple):
            if sim[0] == "tb-error":
                if path == "tb":
                    chk.violation(f"ctx.get raises {sim[1]} on {job['reprs'][k]}",
                                  dict(base, kind="tb-raises", error=sim[1:3], classes=["F8"] if "invalid literal" in sim[2] else []))
                    continue
                sim = sim[3]
            else:
                chk.violation(f"simulation raises {sim[1]} on {job['reprs'][k]}",
                              dict(base, kind="raises", error=sim[1:3], classes=[]))
                continue
        for j, row in enumerate(rows):
            impl = sim[j][pos]
            if impl is None:
                continue
            if impl != row["spec"]:
                classes = []
                if path == "circuit" and impl == row["old"] and row["old"] != row["rtl"]:
                    classes.append("F1")
                chk.violation(
                    f"{path} value of {job['reprs'][k]} with inputs {job['envs'][j]} is {impl}, exact result is {row['spec']}",
                    dict(base, kind="value", env=job["envs"][j], impl=impl, spec=row["spec"], model=row[model_key], classes=classes))
                break
            if impl != row[model_key]:
                chk.not_shown(f"{path} correspondence: impl = spec but model differs",
                              dict(base, env=job["envs"][j], impl=impl, model=row[model_key]))
                break
        else:
            if len(chk.cov["samples"]) < 6 and nontrivial and (k % 7 == 0):
                chk.sample({"expr": job["reprs"][k], "inputs": job["envs"][0], "impl": sim[0][pos], "spec": rows[0]["spec"]})


def run_jobs(chk, fn, arglist, path, workers=None):
    workers = workers or min(16, os.cpu_count() or 4)
    njobs = 0
    with ProcessPoolExecutor(max_workers=workers) as ex:
        for job in ex.map(fn, arglist, chunksize=1):
            njobs += 1
            for e in job["errors"]:
                chk.hist("generator_errors", e[1])
            for k, v in job["hist"].items():
                chk.hist("operators", k, v)
            resps = chk.driver.ask(job["reqs"])
            judge(chk, job, path, resps)
    return njobs


def malformed_stream(chk):
    """the other direction of `Expr.wf`: trees the model calls ill-formed must be refused by the real constructors
    (the main streams only build what the constructors accept and require wf = true for it)"""
    from amaranth.hdl import Signal, signed, unsigned
    from amaranth.hdl import _ast as A
    import warnings
    ctx = "(ctx (4 u) (3 s) (0 u) (2 u))"
    a, sg, z, o = Signal(4, name="a"), Signal(signed(3), name="s"), Signal(0, name="z"), Signal(2, name="o")
    cases = [
        ("as_signed of a zero-width value", lambda: z.as_signed(), "(s (sig 2))"),
        ("left shift by a signed amount", lambda: a << sg, "(<< (sig 0) (sig 1))"),
        ("right shift by a signed amount", lambda: a >> sg, "(>> (sig 0) (sig 1))"),
        ("slice with start > stop", lambda: A.Slice(a, 3, 2), "(slice (sig 0) 3 2)"),
        ("slice beyond the width", lambda: A.Slice(a, 0, 9), "(slice (sig 0) 0 9)"),
        ("slice of a slice beyond its width", lambda: A.Slice(A.Slice(a, 1, 3), 0, 3), "(slice (slice (sig 0) 1 3) 0 3)"),
        ("part-select with a signed offset", lambda: a.bit_select(sg, 2), "(part (sig 0) (sig 1) 2 1)"),
        ("part-select with stride 0", lambda: A.Part(a, o, 2, 0), "(part (sig 0) (sig 3) 2 0)"),
        ("word_select of width 0", lambda: a.word_select(o, 0), "(part (sig 0) (sig 3) 0 0)"),
        ("switch pattern of the wrong width", lambda: A.SwitchValue(a, [("01", a)]), '(sw (sig 0) (("01") (sig 0)))'),
        ("nested: ill-formed operand of a well-formed operator", lambda: (a << sg) + 1, "(+ (<< (sig 0) (sig 1)) (c 1 1 u))"),
        ("a signal that does not exist", None, "(sig 7)"),
    ]
    reqs = [f"(eval {ctx} {sx} (env 0 0 0 0))" for _w, _f, sx in cases]
    resps = chk.driver.ask(reqs)
    for (what, build, sx), req, resp in zip(cases, reqs, resps):
        chk.count(1)
        chk.hist("malformed", what, 1)
        parsed = parse_eval(resp)
        if parsed is None:
            chk.not_shown("driver could not judge an ill-formed expression", {"request": req, "response": resp[:200]})
            continue
        _shape, wf, _rows = parsed
        raised = None
        if build is not None:
            try:
                with warnings.catch_warnings():
                    warnings.simplefilter("ignore")
                    build()
            except Exception as e:
                raised = errkind(e)
        else:
            raised = "n/a"
        if wf:
            chk.not_shown(f"the model calls an expression well-formed that the constructors refuse ({what})",
                          {"request": req, "constructor": raised})
        elif raised is None:
            chk.violation(f"the constructors accept an expression without a meaning ({what}): the model has no value for it",
                          {"request": req, "kind": "malformed-accepted", "classes": []})


def proxy_stream(chk):
    """An un-cast `Array(...)[index]` proxy forwards every operator and method to the value it stands for: for every
    binary operator in both operand orders, every unary operator and the value methods, the expression built with the
    proxy is the expression built with `Value.cast(proxy)` (so the theorems about the latter apply to the former).
    (Subscripts and attribute access distribute over the elements instead and are not compared here.)"""
    import operator as O
    from amaranth.hdl import Signal, Array, Value, signed, unsigned
    import warnings
    rng = chk.rng
    binops = [("+", O.add), ("-", O.sub), ("*", O.mul), ("//", O.floordiv), ("%", O.mod), ("==", O.eq), ("!=", O.ne),
              ("<", O.lt), ("<=", O.le), (">", O.gt), (">=", O.ge), ("&", O.and_), ("|", O.or_), ("^", O.xor),
              ("<<", O.lshift), (">>", O.rshift)]
    unops = [("neg", O.neg), ("pos", O.pos), ("inv", O.invert), ("abs", abs), ("bool", lambda v: v.bool()),
             ("any", lambda v: v.any()), ("all", lambda v: v.all()), ("xor", lambda v: v.xor()),
             ("as_signed", lambda v: v.as_signed()), ("as_unsigned", lambda v: v.as_unsigned()), ("len", len),
             ("bit_select", lambda v: v.bit_select(1, 2)),
             ("word_select", lambda v: v.word_select(1, 2)), ("shift_left", lambda v: v.shift_left(2)),
             ("shift_right", lambda v: v.shift_right(1)), ("rotate_left", lambda v: v.rotate_left(1)),
             ("rotate_right", lambda v: v.rotate_right(1)), ("replicate", lambda v: v.replicate(2)),
             ("matches", lambda v: v.matches(1, "-1-")), ("eq", lambda v: Signal(3).eq(v))]
    for _round in range(6):
        elems = [Signal(rng.choice([unsigned(3), signed(3)]), name=f"e{k}") for k in range(3)]
        idx = Signal(2, name="idx")
        x = Signal(rng.choice([unsigned(3), signed(4), unsigned(2)]), name="x")
        sigs = elems + [idx, x]
        sigidx = {id(s): i for i, s in enumerate(sigs)}

        def same(a, b):
            if isinstance(a, int) or isinstance(b, int):
                return a == b
            from amaranth.hdl import _ast as A
            if isinstance(a, A.Statement):
                return ser_value(a.lhs, {**sigidx, id(a.lhs): 99}) == ser_value(b.lhs, {**sigidx, id(b.lhs): 99}) and \
                    ser_value(a.rhs, sigidx) == ser_value(b.rhs, sigidx)
            sa, sb = ser_value(a, sigidx), ser_value(b, sigidx)
            if sa == sb:
                return True
            # `x op proxy` may be built through the proxy's reflected operator: the same function with the operands
            # exchanged (commutative operators) or the mirrored comparison
            if isinstance(a, A.Operator) and isinstance(b, A.Operator) and len(a.operands) == 2 and len(b.operands) == 2:
                mirror = {"==": "==", "!=": "!=", "+": "+", "*": "*", "&": "&", "|": "|", "^": "^",
                          "<": ">", ">": "<", "<=": ">=", ">=": "<="}
                if mirror.get(a.operator) == b.operator:
                    return (ser_value(a.operands[0], sigidx) == ser_value(b.operands[1], sigidx)
                            and ser_value(a.operands[1], sigidx) == ser_value(b.operands[0], sigidx))
            return False
        cases = [(f"x {n} proxy", lambda f=f: (f(x, Array(elems)[idx]), f(x, Value.cast(Array(elems)[idx])))) for n, f in binops]
        cases += [(f"proxy {n} x", lambda f=f: (f(Array(elems)[idx], x), f(Value.cast(Array(elems)[idx]), x))) for n, f in binops]
        cases += [(f"3 {n} proxy", lambda f=f: (f(3, Array(elems)[idx]), f(3, Value.cast(Array(elems)[idx])))) for n, f in binops[:14]]
        cases += [(f"{n}(proxy)", lambda f=f: (f(Array(elems)[idx]), f(Value.cast(Array(elems)[idx])))) for n, f in unops]
        for what, mk in cases:
            chk.count(1)
            chk.hist("proxy_operator", what.split()[1] if " " in what else what, 1)
            outcome = []
            with warnings.catch_warnings():
                warnings.simplefilter("ignore")
                try:
                    got, want = mk()
                    ok = same(got, want)
                except Exception as e:
                    # both sides raise alike (e.g. a signed shift amount) or not at all
                    try:
                        mk2 = mk
                        ok = None
                        outcome = errkind(e)
                    except Exception:
                        ok = None
            if ok is False:
                chk.violation(f"operator table of ArrayProxy: {what} builds another expression than with the proxy cast to a value",
                              {"kind": "proxy-operator", "what": what, "shapes": [repr(e.shape()) for e in elems] + [repr(x.shape())],
                               "classes": []})
                return


def campaign(chk, path):
    tier = chk.tier
    rng = chk.rng
    malformed_stream(chk)
    proxy_stream(chk)
    # exhaustive depth-1 table over small shapes
    maxw = 3 if tier == "quick" else 4
    shapes = [(w, False) for w in range(0, maxw + 1)] + [(w, True) for w in range(1, maxw + 1)]
    pairs = [(x, y) for x in shapes for y in shapes]
    run_jobs(chk, table_job, pairs, path)
    chk.extra["exhaustive_table"] = {"operand_widths": f"0..{maxw}", "shape_pairs": len(pairs),
                                     "all_value_pairs": True}
    # random deep expressions
    if tier == "quick":
        plan = [(60, 40, 4, 8, 6, False), (40, 30, 5, 16, 5, False), (12, 25, 3, 70, 5, True)]
    else:
        plan = [(900, 40, 4, 8, 8, False), (500, 30, 5, 16, 6, False), (250, 25, 6, 12, 6, False), (200, 25, 3, 70, 6, True)]
    args = []
    for njobs, n_expr, depth, maxw_, n_env, wide in plan:
        for _ in range(njobs):
            args.append((rng.getrandbits(48), n_expr, depth, maxw_, n_env, wide))
    run_jobs(chk, random_job, args, path)
    # derived operators against their Python meaning
    dargs = [(rng.getrandbits(48), 40, 6) for _ in range(40 if tier == "quick" else 600)]
    with ProcessPoolExecutor(max_workers=min(16, os.cpu_count() or 4)) as ex:
        for job in ex.map(derived_job, dargs, chunksize=2):
            for k, v in job["hist"].items():
                chk.hist("derived_operators", k, v)
            judge_derived(chk, job, path, chk.driver.ask([c["req"] for c in job["cases"]]))
    chk.cov["rule"] = (
        "exhaustive: every operator/derived operator over every pair of operand shapes of width 0.."
        f"{maxw} with all value pairs; random: type-directed expressions (depth<=6, widths<=70) with corner-biased "
        "inputs. distinct = distinct serialised constructed AST; non-trivial = contains a signal and takes >1 value over the inputs tried")
