"""Shared machinery of the correspondence checks.

* imports amaranth from the *working tree* of /repo (VERIF_REPO overrides), never from an installed copy;
* builds the Lean library, the property's theorem module and the native model driver;
* audits the axioms of every theorem in Properties/<id>.lean;
* talks to the driver over the one-line-in / one-line-out protocol;
* writes evidence/<id>.json, prints VIOLATION / KNOWN-FINDING lines, owns the exit code.
"""
import hashlib
import json
import os
import random
import re
import subprocess
import sys
import time
import warnings

VERIF = os.path.dirname(os.path.dirname(os.path.abspath(__file__)))
REPO = os.environ.get("VERIF_REPO", "/repo")
LEAN = os.path.join(VERIF, "lean")
EVIDENCE_DIR = os.path.join(VERIF, "evidence")
REPLAY_DIR = os.path.join(VERIF, "replays")
AMODEL = os.path.join(LEAN, ".lake", "build", "bin", "amodel")
ALLOWED_AXIOMS = {"propext", "Classical.choice", "Quot.sound"}

if REPO not in sys.path:
    sys.path.insert(0, REPO)
os.environ.setdefault("AMARANTH_VERIF", "1")
warnings.filterwarnings("ignore")

EXIT_OK, EXIT_VIOLATION, EXIT_INFRA = 0, 1, 2


class Infra(Exception):
    """A failure of the machinery that is not attributable to /repo: exit 2, never a VIOLATION."""


def sh(cmd, cwd=None, timeout=3600, env=None):
    e = dict(os.environ)
    if env:
        e.update(env)
    p = subprocess.run(cmd, cwd=cwd, shell=isinstance(cmd, str), capture_output=True, text=True,
                       timeout=timeout, env=e)
    out = "\n".join(l for l in (p.stdout + p.stderr).splitlines() if "conda" not in l)
    return p.returncode, out


# ------------------------------------------------------------------------------------------------
# Lean build and audit

_FORBIDDEN = re.compile(r"\b(sorry|admit|native_decide|bv_decide|implemented_by|unsafe)\b|^axiom |maxHeartbeats 0")


def strip_comments(src):
    src = re.sub(r"/-.*?-/", "", src, flags=re.S)
    return "\n".join(l.split("--")[0] for l in src.splitlines())


def lean_sources():
    out = []
    for root, _dirs, files in os.walk(os.path.join(LEAN, "AmaranthVerif")):
        for f in files:
            if f.endswith(".lean"):
                out.append(os.path.join(root, f))
    return sorted(out)


def import_closure(modules):
    """files of this project reachable through `import AmaranthVerif.…` from the given module names"""
    seen, todo = {}, list(modules)
    while todo:
        m = todo.pop()
        if m in seen:
            continue
        path = os.path.join(LEAN, *m.split(".")) + ".lean"
        if not os.path.exists(path):
            continue
        seen[m] = path
        for line in open(path):
            mm = re.match(r"\s*(?:public\s+)?import\s+(AmaranthVerif\.\S+)", line)
            if mm:
                todo.append(mm.group(1))
    return seen


def grep_forbidden(prop_id=None):
    """forbidden tokens in the import closure of Properties/<id>.lean (all sources when no id given)"""
    if prop_id is None:
        paths = lean_sources()
    else:
        paths = sorted(import_closure([f"AmaranthVerif.Properties.{prop_id}"]).values())
    hits = []
    for path in paths:
        if "/Driver/" in path or path.endswith("Sexp.lean"):
            # the driver's I/O glue may use `partial`; it carries no theorem
            continue
        for n, line in enumerate(strip_comments(open(path).read()).splitlines(), 1):
            if _FORBIDDEN.search(line):
                hits.append(f"{os.path.relpath(path, LEAN)}:{n}: {line.strip()}")
    return hits


def lake_build(targets, clean=False):
    """returns (ok, log)"""
    if clean:
        sh("rm -rf .lake/build", cwd=LEAN)
    rc, out = sh(["lake", "build"] + list(targets), cwd=LEAN, timeout=3000)
    return rc == 0, out


def theorem_names(prop_id):
    path = os.path.join(LEAN, "AmaranthVerif", "Properties", f"{prop_id}.lean")
    src = strip_comments(open(path).read())
    ns = []
    names = []
    for line in src.splitlines():
        m = re.match(r"\s*namespace\s+(\S+)", line)
        if m:
            ns.append(m.group(1))
            continue
        m = re.match(r"\s*end\s+(\S+)", line)
        if m and ns and ns[-1] == m.group(1):
            ns.pop()
            continue
        m = re.match(r"\s*(?:protected\s+|private\s+)?theorem\s+(\S+)", line)
        if m:
            names.append(".".join(ns + [m.group(1)]))
    return names


def audit(prop_id):
    """`#print axioms` for every theorem of Properties/<id>.lean.
    returns dict name -> sorted list of axioms; raises Infra if lean itself fails."""
    names = theorem_names(prop_id)
    os.makedirs(os.path.join(LEAN, "Audit"), exist_ok=True)
    path = os.path.join(LEAN, "Audit", f"{prop_id}.lean")
    with open(path, "w") as f:
        f.write(f"import AmaranthVerif.Properties.{prop_id}\n")
        for n in names:
            f.write(f"#print axioms {n}\n")
    rc, out = sh(["lake", "env", "lean", path], cwd=LEAN, timeout=1200)
    if rc != 0:
        raise Infra(f"audit of {prop_id} failed:\n{out[-3000:]}")
    res = {}
    # "'name' depends on axioms: [a, b]" (possibly wrapped) / "'name' does not depend on any axioms"
    flat = re.sub(r"\s+", " ", out)
    for m in re.finditer(r"'([^']+)' (does not depend on any axioms|depends on axioms: \[([^\]]*)\])", flat):
        res[m.group(1)] = sorted(a.strip() for a in (m.group(3) or "").split(",") if a.strip())
    missing = [n for n in names if n not in res]
    if missing:
        raise Infra(f"audit of {prop_id}: no axiom report for {missing}")
    return res


# ------------------------------------------------------------------------------------------------
# Driver

class Driver:
    """Persistent model driver process; `ask` sends a batch of request lines and returns responses."""

    def __init__(self, exe="amodel"):
        self.exe = os.path.join(LEAN, ".lake", "build", "bin", exe)
        if not os.path.exists(self.exe):
            raise Infra(f"model driver {exe} not built")
        self.n = 0

    def ask(self, lines):
        if not lines:
            return []
        data = "\n".join(lines) + "\n"
        assert data.count("\n") == len(lines), "request contains a newline"
        p = subprocess.run([self.exe], input=data, capture_output=True, text=True, timeout=3000)
        out = p.stdout.splitlines()
        if p.returncode != 0 or len(out) != len(lines):
            raise Infra(f"driver returned {len(out)} lines for {len(lines)} requests (rc={p.returncode}): "
                        f"{p.stderr[-500:]}")
        self.n += len(lines)
        return out


def kv(resp):
    """'a=1 b=-2 c=x' -> dict of str->str (tokens without '=' are ignored)"""
    d = {}
    for tok in resp.split():
        if "=" in tok:
            k, v = tok.split("=", 1)
            d[k] = v
    return d


# ------------------------------------------------------------------------------------------------
# amaranth AST -> protocol

def ser_value(v, sigidx):
    """Serialise a *constructed* amaranth value (so derived operators appear as what they were
    rewritten to). `sigidx`: dict id(Signal) -> index, extended on demand via sigidx['__add__']."""
    from amaranth.hdl import _ast as A
    v = A.Value.cast(v)
    if isinstance(v, A.Const):
        return f"(c {v.value} {v.shape().width} {'s' if v.shape().signed else 'u'})"
    if isinstance(v, A.Signal):
        return f"(sig {sigidx[id(v)]})"
    if type(v).__name__ == "_Row":
        # a memory row read or written from a testbench: a signal of the row's shape for the model
        return f"(sig {sigidx[('row', id(v._memory), v._index)]})"
    if isinstance(v, A.Operator):
        op = v.operator
        args = " ".join(ser_value(o, sigidx) for o in v.operands)
        if len(v.operands) == 1 and op == "-":
            op = "neg"
        if len(v.operands) == 1 and op == "+":
            return args
        return f"({op} {args})"
    if isinstance(v, A.Slice):
        return f"(slice {ser_value(v.value, sigidx)} {v.start} {v.stop})"
    if isinstance(v, A.Part):
        return f"(part {ser_value(v.value, sigidx)} {ser_value(v.offset, sigidx)} {v.width} {v.stride})"
    if isinstance(v, A.Concat):
        return "(cat" + "".join(" " + ser_value(p, sigidx) for p in v.parts) + ")"
    if isinstance(v, A.SwitchValue):
        cs = []
        for pats, val in v.cases:
            if pats is None:
                cs.append(f"(default {ser_value(val, sigidx)})")
            else:
                cs.append("((" + " ".join(f'"{p}"' for p in pats) + f") {ser_value(val, sigidx)})")
        return f"(sw {ser_value(v.test, sigidx)} " + " ".join(cs) + ")"
    raise TypeError(f"cannot serialise {v!r}")


def ser_ctx(shapes):
    return "(ctx" + "".join(f" ({s.width} {'s' if s.signed else 'u'})" for s in shapes) + ")"


def ser_env(vals):
    return "(env" + "".join(f" {x}" for x in vals) + ")"


def errkind(exc):
    n = type(exc).__name__
    known = {"TypeError", "ValueError", "SyntaxError", "IndexError", "DriverConflict", "CombinationalCycle",
             "ResourceError", "ConnectionError", "AssertionError", "OverflowError", "NameError",
             "AttributeError", "KeyError", "DomainError", "SignatureError", "NotImplementedError"}
    return n if n in known else f"other:{n}"


# ------------------------------------------------------------------------------------------------
# Known findings

def load_known_findings():
    """known_findings.txt: `known: property=<id> id=<Fn> <what>` / `fixed: property=<id> <commit> <what>`"""
    path = os.path.join(VERIF, "known_findings.txt")
    out = []
    if os.path.exists(path):
        for line in open(path):
            line = line.strip()
            m = re.match(r"known:\s+property=(\S+)\s+id=(\S+)\s+(.*)", line)
            if m:
                out.append({"property": m.group(1), "id": m.group(2), "what": m.group(3), "status": "open"})
            m = re.match(r"fixed:\s+property=(\S+)\s+(\S+)\s+(.*)", line)
            if m:
                out.append({"property": m.group(1), "commit": m.group(2), "what": m.group(3), "status": "fixed"})
    return out


# ------------------------------------------------------------------------------------------------
# The check runner

class Check:
    """One run of one property's check."""

    def __init__(self, prop_id, tier, seed, level="proof", exe="amodel"):
        self.exe = exe
        self.id = prop_id
        self.tier = tier
        self.seed = seed
        self.level = level
        self.t0 = time.time()
        self.rng = random.Random(seed)
        self.violations = []      # (summary, replay-object)
        self.unshown = []         # broken proof obligations / correspondences without failing input
        self.known_seen = {}      # finding id -> count
        self.cov = {"evaluations": 0, "distinct_nontrivial": 0, "rule": "", "samples": []}
        self.extra = {}
        self.assumptions = []
        self.obligations = []     # (name, ok, detail)
        self._distinct = set()
        self.known = [k for k in load_known_findings() if k.get("property") == prop_id and k.get("status") == "open"]
        self.driver = None

    # -- Lean side ---------------------------------------------------------------------------
    def lean(self, generated_changed=False):
        """build the property module and the driver; audit. Returns True if all obligations hold."""
        target = f"AmaranthVerif.Properties.{self.id}"
        ok, log = lake_build([target, self.exe], clean=(self.tier == "thorough" and os.environ.get("VERIF_CLEAN") == "1"))
        self.extra["checker_cmd"] = f"cd lean && lake build {target} {self.exe} && lake env lean Audit/{self.id}.lean"
        if not ok:
            self.obligations.append((f"lake build {target}", False, log[-2000:]))
            self.build_log = log
            if not generated_changed:
                # nothing the build reads comes from /repo: a broken build is my error, never a violation
                raise Infra(f"lake build {target} failed:\n{log[-3000:]}")
            return False
        self.obligations.append((f"lake build {target}", True, ""))
        hits = grep_forbidden(self.id)
        self.obligations.append(("no sorry/admit/axiom/native_decide/bv_decide/implemented_by/unsafe/maxHeartbeats 0", not hits, "; ".join(hits)))
        if hits:
            raise Infra("forbidden token in Lean sources: " + "; ".join(hits))
        ax = audit(self.id)
        self.extra["axioms"] = ax
        for name, axs in ax.items():
            bad = [a for a in axs if a not in ALLOWED_AXIOMS]
            self.obligations.append((f"theorem {name}", not bad, ",".join(axs)))
            if bad:
                raise Infra(f"theorem {name} depends on {bad}")
        if self.tier == "thorough" and os.environ.get("VERIF_LEANCHECKER", "1") == "1":
            rc, out = sh(["lake", "env", "leanchecker", target], cwd=LEAN, timeout=3000)
            self.obligations.append((f"leanchecker {target}", rc == 0, out[-500:]))
            if rc != 0:
                raise Infra("leanchecker rejected " + target + ": " + out[-800:])
        self.driver = Driver(self.exe)
        return True

    # -- bookkeeping -------------------------------------------------------------------------
    def count(self, n=1):
        self.cov["evaluations"] += n

    def distinct(self, key, nontrivial=True):
        if nontrivial:
            h = hashlib.blake2b(repr(key).encode(), digest_size=8).digest()
            self._distinct.add(h)

    def sample(self, obj, limit=6):
        if len(self.cov["samples"]) < limit:
            self.cov["samples"].append(obj)

    def hist(self, name, key, n=1):
        d = self.extra.setdefault("distribution", {}).setdefault(name, {})
        d[str(key)] = d.get(str(key), 0) + n

    def violation(self, summary, replay):
        """a concrete failing input for the property"""
        for k in self.known:
            if k["id"] in self._classify(replay):
                self.known_seen[k["id"]] = self.known_seen.get(k["id"], 0) + 1
                return False
        if len(self.violations) < 20:
            self.violations.append((summary, replay))
        return True

    def _classify(self, replay):
        c = replay.get("classes") if isinstance(replay, dict) else None
        return set(c or [])

    def not_shown(self, what, detail):
        """a proof obligation or correspondence that no longer checks, with no failing input found"""
        self.unshown.append((what, detail))

    # -- finish ------------------------------------------------------------------------------
    def finish(self):
        os.makedirs(EVIDENCE_DIR, exist_ok=True)
        os.makedirs(REPLAY_DIR, exist_ok=True)
        self.cov["distinct_nontrivial"] = len(self._distinct)
        n_obl = len(self.obligations)
        n_ok = sum(1 for _n, ok, _d in self.obligations if ok)
        cov = dict(self.cov)
        cov.update({
            "obligations": n_obl, "discharged": n_ok,
            "checker_cmd": self.extra.pop("checker_cmd", "lake build"),
            "trusted_base": TRUSTED_BASE + self.extra.pop("trusted_base", []),
            "obligation_list": [{"name": n, "ok": ok, "detail": d} for n, ok, d in self.obligations],
            "known_findings_seen": self.known_seen,
        })
        if self.level == "translation_validation":
            cov.setdefault("programs", cov["evaluations"])
            cov.setdefault("disagreements_checked", cov["evaluations"])
        cov.update(self.extra)
        if not isinstance(cov.get("exhaustive", False), bool):
            # the schema's `exhaustive` is a flag for "the whole space was enumerated"; the checks enumerate
            # finite sub-spaces completely inside an unbounded space, which is described here instead
            cov["exhaustive_subspaces"] = cov.pop("exhaustive")
            cov["exhaustive"] = False
        lines = []
        code = EXIT_OK
        for fid, n in sorted(self.known_seen.items()):
            k = next(k for k in self.known if k["id"] == fid)
            lines.append(f"KNOWN-FINDING: property={self.id} {fid}: {k['what']} (seen {n}x this run)")
        for i, (summary, replay) in enumerate(self.violations):
            path = os.path.join(REPLAY_DIR, f"{self.id}-{self.tier}-{self.seed}-{i}.json")
            with open(path, "w") as f:
                json.dump({"property": self.id, "summary": summary, "replay": replay, "seed": self.seed,
                           "tier": self.tier}, f, indent=1, default=str)
            lines.append(f"VIOLATION property={self.id} replay={os.path.relpath(path, VERIF)}")
            lines.append(f"  {summary}")
            code = EXIT_VIOLATION
        if not self.violations and self.unshown:
            path = os.path.join(REPLAY_DIR, f"{self.id}-{self.tier}-{self.seed}-unshown.json")
            with open(path, "w") as f:
                json.dump({"property": self.id, "no_longer_checks": [{"what": w, "detail": d} for w, d in self.unshown],
                           "seed": self.seed, "tier": self.tier}, f, indent=1, default=str)
            lines.append(f"VIOLATION property={self.id} replay={os.path.relpath(path, VERIF)} no-failing-input-found")
            code = EXIT_VIOLATION
        ev = {
            "property_id": self.id, "tier": self.tier, "seed": self.seed, "level": self.level,
            "coverage": cov, "assumptions": self.assumptions,
            "wall_s": round(time.time() - self.t0, 2), "violations": len(self.violations) + (1 if (self.unshown and not self.violations) else 0),
        }
        with open(os.path.join(EVIDENCE_DIR, f"{self.id}.json"), "w") as f:
            json.dump(ev, f, indent=1, default=str)
        for l in lines:
            print(l)
        print(f"{self.id} {self.tier} seed={self.seed}: evaluations={cov['evaluations']} distinct_nontrivial={cov['distinct_nontrivial']} "
              f"obligations={n_ok}/{n_obl} violations={len(self.violations)} known={sum(self.known_seen.values())} "
              f"wall={ev['wall_s']}s")
        return code


TRUSTED_BASE = [
    "Lean 4.33.0 kernel; axioms per theorem are listed under coverage.axioms (allowed: propext, Classical.choice, Quot.sound)",
    "Lean compiler: the native driver computes what the kernel-checked definitions denote",
    "the Python correspondence harness and its generators (harness/), the S-expression reader and driver main (unverified glue)",
    "the Spec (lean/AmaranthVerif/Spec) is the intended reading of the property",
    "CPython int/str semantics as modelled by Lean Int/String functions (differentially tested)",
]
