"""Type-directed generator of amaranth expressions, built through the public API.

Everything is derived from the `random.Random` passed in. The generator returns real amaranth
values; the protocol text is produced from the *constructed* AST by `common.ser_value`, so every
construction-time rewrite (abs, shift_left, rotate, matches, constant bit_select, Mux, Array) is
seen by the Lean model as what amaranth actually built.
"""
from amaranth.hdl import Signal, Const, Cat, Mux, Array, signed, unsigned, Shape

UN = ["~", "neg", "b", "any", "all", "xor", "u", "s", "abs"]
BIN = ["+", "-", "*", "//", "%", "==", "!=", "<", "<=", ">", ">=", "&", "|", "^", "<<", ">>"]
OTHER = ["slice", "index", "bit_select", "word_select", "cat", "rep", "mux", "matches", "array",
         "shl_c", "shr_c", "rol", "ror", "sw"]


def rand_shape(rng, maxw=8, allow_zero=True):
    r = rng.random()
    if r < 0.08 and allow_zero:
        w = 0
    elif r < 0.75:
        w = rng.randint(1, min(maxw, 6))
    else:
        w = rng.randint(1, maxw)
    sg = rng.random() < 0.45 and w > 0
    return signed(w) if sg else unsigned(w)


def rand_value(rng, shape):
    """values biased to the corners of the shape"""
    w = shape.width
    if w == 0:
        return 0
    lo = -(1 << (w - 1)) if shape.signed else 0
    hi = (1 << (w - 1)) - 1 if shape.signed else (1 << w) - 1
    r = rng.random()
    if r < 0.15:
        return lo
    if r < 0.30:
        return hi
    if r < 0.40:
        return max(lo, min(hi, rng.choice([0, 1, -1, 2, -2])))
    return rng.randint(lo, hi)


def all_values(shape):
    w = shape.width
    if shape.signed:
        return list(range(-(1 << (w - 1)), 1 << (w - 1)))
    return list(range(1 << w))


def make_signals(rng, n, maxw=8):
    return [Signal(rand_shape(rng, maxw), name=f"i{k}") for k in range(n)]


def rand_pattern(rng, width):
    r = rng.random()
    if r < 0.6:
        s = "".join(rng.choice("01-") for _ in range(width))
        if rng.random() < 0.2 and width > 1:
            k = rng.randint(1, width - 1)
            s = s[:k] + " " + s[k:]
        return s
    if r < 0.9:
        return rng.randint(0, max(0, (1 << width) - 1))
    return rng.randint(-(1 << max(0, width - 1)) - 1, (1 << width) + 1)   # possibly unrepresentable


class Gen:
    def __init__(self, rng, sigs, maxw=8, wide=False, hist=None):
        self.rng = rng
        self.sigs = sigs
        self.maxw = maxw
        self.wide = wide
        self.hist = hist if hist is not None else {}

    def note(self, k):
        self.hist[k] = self.hist.get(k, 0) + 1

    def leaf(self):
        rng = self.rng
        if rng.random() < 0.7 and self.sigs:
            self.note("sig")
            return rng.choice(self.sigs)
        self.note("const")
        sh = rand_shape(rng, self.maxw)
        return Const(rand_value(rng, sh), sh)

    def small_unsigned(self, depth, maxw=3):
        """an unsigned expression of small width (shift amounts, offsets) so results stay simulable"""
        rng = self.rng
        r = rng.random()
        if r < 0.2:
            # literal amounts, biased to values whose top bits repeat (11…, 00…)
            w = rng.randint(1, maxw)
            v = rng.choice([(1 << w) - 1, (1 << w) - 1, rng.randint(0, (1 << w) - 1), 3 << max(0, w - 2) & ((1 << w) - 1)])
            self.note("amount:const")
            return Const(v, unsigned(w))
        if r < 0.3 and maxw >= 2:
            # an amount whose two top bits are the same net
            cands = [s for s in self.sigs if len(s) and len(s) <= maxw - 1]
            if cands:
                x = rng.choice(cands)
                self.note("amount:dup_top")
                return Cat(x, x[-1])
        for _ in range(8):
            e = self.expr(depth)
            if not e.shape().signed and len(e) <= maxw:
                return e
        cands = [s for s in self.sigs if not s.shape().signed and len(s) <= maxw]
        if cands and rng.random() < 0.7:
            return rng.choice(cands)
        w = rng.randint(0, maxw)
        return Const(rng.randint(0, (1 << w) - 1) if w else 0, unsigned(w))

    def expr(self, depth):
        rng = self.rng
        if depth <= 0 or rng.random() < 0.12:
            return self.leaf()
        kind = rng.choice(["un"] * 4 + ["bin"] * 8 + ["other"] * 6)
        limit = 2000 if self.wide else 200
        for _ in range(10):
            e = self._node(kind, depth)
            if e is not None and len(e) <= limit:
                return e
            kind = rng.choice(["un", "bin", "other"])
        return self.leaf()

    def _node(self, kind, depth):
        rng = self.rng
        if kind == "un":
            op = rng.choice(UN)
            a = self.expr(depth - 1)
            self.note(op)
            if op == "~": return ~a
            if op == "neg": return -a
            if op == "b": return a.bool()
            if op == "any": return a.any()
            if op == "all": return a.all()
            if op == "xor": return a.xor()
            if op == "u": return a.as_unsigned()
            if op == "s":
                if len(a) == 0:
                    return None
                return a.as_signed()
            if op == "abs": return abs(a)
        if kind == "bin":
            op = rng.choice(BIN)
            a = self.expr(depth - 1)
            if op in ("<<", ">>"):
                b = self.small_unsigned(depth - 1, 3 if op == "<<" else 4)
            else:
                b = self.expr(depth - 1)
            self.note(op)
            if rng.random() < 0.06 and op not in ("<<", ">>"):
                # python int operand (Value.cast -> Const)
                b = rng.randint(-5, 9)
            if op == "+": return a + b
            if op == "-": return a - b
            if op == "*": return a * b
            if op == "//": return a // b
            if op == "%": return a % b
            if op == "==": return a == b
            if op == "!=": return a != b
            if op == "<": return a < b
            if op == "<=": return a <= b
            if op == ">": return a > b
            if op == ">=": return a >= b
            if op == "&": return a & b
            if op == "|": return a | b
            if op == "^": return a ^ b
            if op == "<<": return a << b
            if op == ">>": return a >> b
        op = rng.choice(OTHER)
        self.note(op)
        a = self.expr(depth - 1)
        n = len(a)
        if op == "slice":
            s = rng.randint(0, n)
            e = rng.randint(s, n)
            return a[s:e]
        if op == "index":
            if n == 0:
                return None
            return a[rng.randint(-n, n - 1)]
        if op in ("bit_select", "word_select"):
            w = rng.randint(0, max(1, n))
            if rng.random() < 0.25:
                # constant offset: folded to a slice at construction (must stay in range)
                if op == "bit_select":
                    off = rng.randint(0, n)
                    w = min(w, n - off)
                    return a.bit_select(off, w)
                if w == 0 or n < w:
                    return a.word_select(0, 0)
                return a.word_select(rng.randint(0, n // w - 1) if n // w else 0, w)
            off = self.small_unsigned(depth - 1, 3)
            if op == "word_select" and w == 0:
                w = 1          # a zero stride is rejected at construction
            return a.bit_select(off, w) if op == "bit_select" else a.word_select(off, w)
        if op == "cat":
            k = rng.randint(0, 3)
            return Cat(a, *[self.expr(depth - 1) for _ in range(k)])
        if op == "rep":
            return a.replicate(rng.randint(0, 3))
        if op == "mux":
            return Mux(self.expr(depth - 1), a, self.expr(depth - 1))
        if op == "matches":
            k = rng.randint(0, 3)
            pats = [rand_pattern(rng, n) for _ in range(k)]
            return a.matches(*pats)
        if op == "array":
            k = rng.randint(1, 5)
            elems = [a] + [self.expr(depth - 1) for _ in range(k - 1)]
            idx = self.small_unsigned(depth - 1, 3)
            if (1 << len(idx)) > len(elems) and rng.random() < 0.5:
                # keep the index in range of the array (in-range indexing is what the property covers)
                idx = idx % len(elems) if len(elems) > 0 else idx
                if len(idx) == 0:
                    return None
            from amaranth.hdl import Value
            return Value.cast(Array(elems)[idx])
        if op == "shl_c":
            return a.shift_left(rng.randint(-3, 5))
        if op == "shr_c":
            return a.shift_right(rng.randint(-3, n + 2))
        if op == "rol":
            return a.rotate_left(rng.randint(-2 * n - 1, 2 * n + 1))
        if op == "ror":
            return a.rotate_right(rng.randint(-2 * n - 1, 2 * n + 1))
        if op == "sw":
            # a choice between values under patterns of a test (what Mux and Array lower to)
            from amaranth.hdl._ast import SwitchValue
            test = self.expr(depth - 1)
            k = rng.randint(0, 4)
            cases = []
            for i in range(k):
                if i == k - 1 and rng.random() < 0.4:
                    pats = None     # a default is only ever the last case (Mux); `match` rejects anything else
                else:
                    pats = tuple(rand_pattern(rng, len(test)) for _ in range(rng.randint(0, 2)))
                cases.append((pats, self.expr(depth - 1) if i else a))
            return SwitchValue(test, cases)
        return None


class TargetGen:
    """assignable targets over a pool of signals (signal, slice, index, cat, bit/word_select with
    signal offsets incl. beyond the target, array element, as_signed/as_unsigned, nested)"""

    def __init__(self, rng, sigs, offs, alias=False, hist=None):
        self.rng = rng
        self.sigs = sigs          # candidate target signals
        self.offs = offs          # unsigned signals usable as offsets / indices
        self.alias = alias
        self.used = set()
        self.hist = hist if hist is not None else {}

    def note(self, k):
        self.hist[k] = self.hist.get(k, 0) + 1

    def leaf(self):
        rng = self.rng
        cands = [s for s in self.sigs if self.alias or id(s) not in self.used]
        if not cands:
            return None
        s = rng.choice(cands)
        self.used.add(id(s))
        return s

    def offset(self):
        rng = self.rng
        o = rng.choice(self.offs)
        r = rng.random()
        if r < 0.2 and len(o) > 1:
            return o[:rng.randint(0, len(o))]      # possibly zero-width selector
        if r < 0.3:
            return o + rng.choice(self.offs)
        if r < 0.4 and len(o) > 0:
            return ~o                              # raw value is negative before masking
        if r < 0.5:
            return (o - rng.choice(self.offs)).as_unsigned()
        if r < 0.58 and len(o) > 0:
            return o.as_signed().as_unsigned()
        return o

    def target(self, depth):
        rng = self.rng
        if depth <= 0 or rng.random() < 0.2:
            return self.leaf()
        kind = rng.choice(["slice", "index", "cat", "bit_select", "word_select", "array", "u", "s", "slice",
                           "catslice", "rev"])
        self.note(kind)
        if kind == "catslice":
            # a window of a concatenation of three or more parts that reaches into the third or a later part
            parts = [self.target(depth - 1) for _ in range(rng.randint(3, 5))]
            parts = [p for p in parts if p is not None]
            if not parts:
                return None
            c = Cat(*parts)
            n = len(c)
            lo_min = sum(len(p) for p in parts[:2]) if len(parts) >= 3 and rng.random() < 0.6 else 0
            hi = rng.randint(min(lo_min, n), n)
            lo = rng.randint(0, hi)
            self.note(f"catslice:parts{len(parts)}")
            if rng.random() < 0.3:
                return c.bit_select(self.offset(), rng.randint(0, n))
            return c[lo:hi]
        if kind == "rev":
            t = self.target(depth - 1)
            if t is None:
                return None
            if len(t) == 0:
                return t        # `t[::-1]` would be the empty `Cat()`, which the model's syntax cannot tell from its list terminator
            r = t[::-1]
            n = len(r)
            if rng.random() < 0.6 and n > 0:
                s0 = rng.randint(0, n)
                return r[s0:rng.randint(s0, n)]
            return r
        if kind == "cat":
            parts = [self.target(depth - 1) for _ in range(rng.randint(1, 3))]
            parts = [p for p in parts if p is not None]
            if not parts:
                return None
            return Cat(*parts)
        if kind == "array":
            elems = [self.target(depth - 1) for _ in range(rng.randint(1, 4))]
            elems = [p for p in elems if p is not None]
            if not elems:
                return None
            from amaranth.hdl import Value
            return Value.cast(Array(elems)[self.offset()])
        t = self.target(depth - 1)
        if t is None:
            return None
        n = len(t)
        if kind == "slice":
            s = rng.randint(0, n)
            return t[s:rng.randint(s, n)]
        if kind == "index":
            if n == 0:
                return t
            return t[rng.randint(-n, n - 1)]
        if kind == "bit_select":
            return t.bit_select(self.offset(), rng.randint(0, n + 1))
        if kind == "word_select":
            return t.word_select(self.offset(), rng.randint(1, max(1, n // 2 + 1)))
        if kind == "u":
            return t.as_unsigned()
        if kind == "s":
            if n == 0:
                return t
            return t.as_signed()
        return t
