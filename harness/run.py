"""Entry point: ./check <ID> [--tier quick|thorough] [--seed N] [--replay FILE]"""
import argparse
import importlib
import os
import sys
import traceback

from . import common


def main():
    ap = argparse.ArgumentParser()
    ap.add_argument("prop")
    ap.add_argument("--tier", default=os.environ.get("VERIF_TIER", "quick"), choices=["quick", "thorough"])
    ap.add_argument("--seed", type=int, default=int(os.environ.get("VERIF_SEED", "1")))
    ap.add_argument("--replay", default=None)
    a = ap.parse_args()
    mod = importlib.import_module(f"harness.checks.{a.prop.lower()}")
    chk = common.Check(a.prop, a.tier, a.seed, level=getattr(mod, "LEVEL", "proof"), exe=getattr(mod, "EXE", "amodel"))
    try:
        if a.replay:
            return mod.replay(chk, a.replay)
        mod.run(chk)
        return chk.finish()
    except common.Infra as e:
        print(f"INFRA {a.prop}: {e}", file=sys.stderr)
        return common.EXIT_INFRA
    except Exception:
        traceback.print_exc()
        print(f"INFRA {a.prop}: harness crashed", file=sys.stderr)
        return common.EXIT_INFRA


if __name__ == "__main__":
    sys.exit(main())
