"""Entry point: ./check <ID> [--tier quick|thorough] [--seed N] [--replay FILE]"""
import argparse
import importlib
import os
import sys
import traceback

from . import common


def generic_replay(mod, a):
    """checks without a dedicated replay: every case of a run is derived from (tier, seed), both recorded in the
    replay file, so the run is repeated on the current tree and the recorded case is looked up among what it reports.
    Nothing is written (no evidence, no replay files)."""
    import json
    rec = json.load(open(a.replay))
    tier, seed = rec.get("tier", "quick"), int(rec.get("seed", 1))
    chk = common.Check(a.prop, tier, seed, level=getattr(mod, "LEVEL", "proof"), exe=getattr(mod, "EXE", "amodel"))
    mod.run(chk)
    flush = getattr(mod, "flush_reports", None)
    if flush:
        flush(chk)
    want = rec.get("summary", "")
    found = [s for s, _r in chk.violations if s == want] + [w for w, _d in chk.unshown if w == want]
    print(f"recorded: {want[:500]}")
    if found:
        print("REPRODUCED on the current tree (same tier and seed)")
        return common.EXIT_VIOLATION
    others = len(chk.violations) + len(chk.unshown)
    print(f"not reproduced on the current tree ({others} other report(s) in this run)")
    for s, _r in chk.violations[:5]:
        print("  other:", s[:300])
    return common.EXIT_OK


def main():
    ap = argparse.ArgumentParser()
    ap.add_argument("prop")
    ap.add_argument("--tier", default=os.environ.get("VERIF_TIER", "quick"), choices=["quick", "thorough"])
    ap.add_argument("--seed", type=int, default=int(os.environ.get("VERIF_SEED", "1")))
    ap.add_argument("--replay", default=None)
    a = ap.parse_args()
    mod = importlib.import_module(f"harness.checks.{a.prop.lower()}")
    chk = common.Check(a.prop, a.tier, a.seed, level=getattr(mod, "LEVEL", "proof"), exe=getattr(mod, "EXE", "amodel"))
    try:
        if a.replay:
            if hasattr(mod, "replay"):
                return mod.replay(chk, a.replay)
            return generic_replay(mod, a)
        mod.run(chk)
        return chk.finish()
    except common.Infra as e:
        print(f"INFRA {a.prop}: {e}", file=sys.stderr)
        return common.EXIT_INFRA
    except Exception:
        traceback.print_exc()
        print(f"INFRA {a.prop}: harness crashed", file=sys.stderr)
        return common.EXIT_INFRA


if __name__ == "__main__":
    sys.exit(main())
