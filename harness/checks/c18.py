"""C18 - I/O buffers apply direction, inversion and registering exactly per bit.

Streams (every case goes to the real code *and* to the Lean driver, which answers with the Model and
the Spec value):

  A  port algebra     SingleEndedPort / DifferentialPort / SimulationPort expressions from
                      subscripting, `+`, `~`; compared field by field (direction, invert tuple, len,
                      identity of the underlying wires per lane)
  B  legality         Buffer / FFBuffer / DDRBuffer constructors for every port/buffer direction pair
  C  Buffer           simulated on SimulationPorts (widths 0..6 x all masks x all legal direction pairs)
  D  FFBuffer         simulated with hand-driven clocks (one shared domain, or two named domains)
  E  netlists         buffers on real IOPorts through Fragment.get / build_netlist; the IOBuffer
                      cells are collected and the netlist is evaluated (pads, `i`); model side:
                      `Buffer.single` / `Buffer.diff` and, for FFBuffer, `FFBuffer.realRun` from power-on;
                      Spec side: `padClaims` (which pads carry a cell - a differential *input* has none on
                      its `n` half), `padBuffer`, `ffRunPads`
  D2 FFBuffer+reset   as D, in domains that have a synchronous or an asynchronous reset which the testbench raises
                      and releases mid-run (with and without a clock edge in the same event); FFBuffer's registers
                      are declared reset_less, so the model's `ff` run without any reset is the expectation
  F  RTLIL            buffers on concatenations of slices / single bits of SEVERAL IOPorts (index patterns where a
                      bit of another port follows bit k-1 of a port at index k, in the numbering of the top module
                      and of submodules), the buffer being the converted design, a submodule, or two levels down;
                      `back.rtlil.convert`, the text read back by a small RTLIL reader (module hierarchy, connect,
                      $tribuf, $dff, bitwise cells) that yields the observations of stream E; same model request
"""
import concurrent.futures as cf
import itertools
import os

from .. import common

LEVEL = "proof"
EXE = "amodel_c18"

DIRS = ("i", "o", "io")
LEGAL = [("i", "i"), ("o", "o"), ("io", "i"), ("io", "o"), ("io", "io")]   # (port dir, buffer dir)
KINDS = ("se", "diff", "sim")


# ------------------------------------------------------------------------------------------------
# abstract port expressions:  ("leaf", dir, id, width, bits) | ("leafb", dir, id, width, 0|1)
#                             | ("get", e, key) | ("add", a, b) | ("inv", a)
# key: ("i", k) | ("s", a, b, c) (None = omitted) | "bad"

def bits_of(mask, w):
    return "".join("1" if (mask >> k) & 1 else "0" for k in range(w))


def ser_key(key):
    if key == "bad":
        return "bad"
    if key[0] == "i":
        return f"(i {key[1]})"
    return "(s " + " ".join("n" if x is None else str(x) for x in key[1:]) + ")"


def ser(e):
    t = e[0]
    if t == "leaf":
        return f"(leaf {e[1]} {e[2]} {e[3]} {e[4] or '-'})"
    if t == "leafb":
        return f"(leafb {e[1]} {e[2]} {e[3]} {e[4]})"
    if t == "get":
        return f"(get {ser(e[1])} {ser_key(e[2])})"
    if t == "add":
        return f"(add {ser(e[1])} {ser(e[2])})"
    if t == "inv":
        return f"(inv {ser(e[1])})"
    raise ValueError(e)


def depth(e):
    t = e[0]
    if t in ("leaf", "leafb"):
        return 0
    if t == "add":
        return 1 + max(depth(e[1]), depth(e[2]))
    return 1 + depth(e[1])


def py_key(key):
    if key == "bad":
        return "x"
    if key[0] == "i":
        return key[1]
    return slice(key[1], key[2], key[3])


def build(kind, e):
    """evaluate the expression with the real classes (Python evaluates operands left to right)"""
    from amaranth.hdl import IOPort
    from amaranth.lib import io
    t = e[0]
    if t in ("leaf", "leafb"):
        _t, d, ident, w, b = e
        inv = bool(b) if t == "leafb" else tuple(c == "1" for c in b)
        if kind == "se":
            return io.SingleEndedPort(IOPort(w, name=f"a{ident}"), invert=inv, direction=d)
        if kind == "diff":
            return io.DifferentialPort(IOPort(w, name=f"p{ident}"), IOPort(w, name=f"n{ident}"), invert=inv, direction=d)
        return io.SimulationPort(d, w, invert=inv, name=f"s{ident}")
    if t == "get":
        return build(kind, e[1])[py_key(e[2])]
    if t == "add":
        a = build(kind, e[1])
        b = build(kind, e[2])
        return a + b
    if t == "inv":
        return ~build(kind, e[1])
    raise ValueError(e)


def flat_io(v):
    from amaranth.hdl import _ast as A
    if isinstance(v, A.IOPort):
        return [(v.name, b) for b in range(len(v))]
    if isinstance(v, A.IOConcat):
        out = []
        for p in v.parts:
            out += flat_io(p)
        return out
    if isinstance(v, A.IOSlice):
        return flat_io(v.value)[v.start:v.stop]
    raise TypeError(v)


def flat_val(v):
    from amaranth.hdl import _ast as A
    if isinstance(v, A.Signal):
        return [(v.name, b) for b in range(len(v))]
    if isinstance(v, A.Concat):
        out = []
        for p in v.parts:
            out += flat_val(p)
        return out
    if isinstance(v, A.Slice):
        return flat_val(v.value)[v.start:v.stop]
    if isinstance(v, A.Const) and len(v) == 0:
        return []
    raise TypeError(v)


def lane_str(wires, prefix, suffix=""):
    """`[id.bit,...]`; a wire that is not in the lane it should be in is printed verbatim (mismatch)"""
    out = []
    for name, b in wires:
        if name.startswith(prefix) and name.endswith(suffix) and name[len(prefix):len(name) - len(suffix)].isdigit():
            out.append(f"{name[len(prefix):len(name) - len(suffix)]}.{b}")
        else:
            out.append(f"{name}!{b}")
    return "[" + ",".join(out) + "]"


def describe(kind, p):
    from amaranth.lib import io
    d = p.direction.value
    inv = p.invert
    if not (isinstance(inv, tuple) and all(isinstance(x, bool) for x in inv)):
        return f"bad-invert:{inv!r}".replace(" ", "")
    bits = "".join("1" if x else "0" for x in inv) or "-"
    if kind == "se":
        lanes = [lane_str(flat_io(p.io), "a"), "-", "-"]
        n = len(flat_io(p.io))
    elif kind == "diff":
        lanes = [lane_str(flat_io(p.p), "p"), lane_str(flat_io(p.n), "n"), "-"]
        n = len(flat_io(p.p))
    else:
        lanes = []
        n = None
        for attr in ("i", "o", "oe"):
            try:
                v = getattr(p, attr)
            except AttributeError:
                lanes.append("-")
                continue
            w = flat_val(v)
            n = len(w)
            lanes.append(lane_str(w, "s", "__" + attr))
    s = f"ok|{d}|{bits}|{lanes[0]}|{lanes[1]}|{lanes[2]}"
    if len(p) != len(inv) or (n is not None and n != len(inv)):
        s += f"|LEN{len(p)}"
    return s


def run_pexpr(kind, e):
    try:
        return describe(kind, build(kind, e))
    except Exception as exc:  # noqa: BLE001 - every exception is an observation
        return "err:" + common.errkind(exc)


# ------------------------------------------------------------------------------------------------
# generators

def gen_key(rng, w, unit_bias=0.6):
    r = rng.random()
    if r < 0.25:
        return ("i", rng.randint(-w - 1, w))
    def part():
        return None if rng.random() < 0.25 else rng.randint(-w - 2, w + 2)
    step = None if rng.random() < unit_bias else rng.choice([1, 2, 3, -1, -2, -3])
    return ("s", part(), part(), step)


def gen_valid_key(rng, w):
    """a key that the code accepts on a sequence of length w (if there is one)"""
    for _ in range(20):
        key = gen_key(rng, w)
        if key[0] == "i":
            if -w <= key[1] < w:
                return key
        else:
            a, b, c = slice(key[1], key[2], key[3]).indices(w)
            if c != 1 or a <= b:
                return key
    return ("s", None, None, None)


class Gen:
    def __init__(self, rng):
        self.rng = rng
        self.next_id = 0

    def leaf(self, dirs=DIRS, maxw=6):
        rng = self.rng
        w = rng.choice([0, 1, 1, 2, 2, 3, 3, 4, 5, 6][: maxw + 4])
        w = min(w, maxw)
        ident = self.next_id
        self.next_id += 1
        d = rng.choice(dirs)
        if rng.random() < 0.1:
            return ("leafb", d, ident, w, rng.randint(0, 1)), w, d
        return ("leaf", d, ident, w, bits_of(rng.getrandbits(w) if w else 0, w)), w, d

    def tree(self, depth_left, valid, dirs=DIRS):
        """returns (expr, width, dir); `valid`: avoid raising keys and direction clashes"""
        rng = self.rng
        if depth_left == 0 or rng.random() < 0.15:
            return self.leaf(dirs)
        op = rng.choice(["get", "get", "add", "add", "inv"])
        if op == "inv":
            e, w, d = self.tree(depth_left - 1, valid, dirs)
            return ("inv", e), w, d
        if op == "get":
            e, w, d = self.tree(depth_left - 1, valid, dirs)
            key = gen_valid_key(rng, w) if (valid or rng.random() < 0.8) else gen_key(rng, w)
            if key[0] == "i":
                nw = 1 if -w <= key[1] < w else 0
            else:
                nw = len(range(*slice(key[1], key[2], key[3]).indices(w)))
            return ("get", e, key), nw, d
        a, wa, da = self.tree(depth_left - 1, valid, dirs)
        if valid or rng.random() < 0.85:
            ok_dirs = [x for x in dirs if {x, da} != {"i", "o"}] or [da]
        else:
            ok_dirs = dirs
        b, wb, db = self.tree(depth_left - 1, valid, tuple(ok_dirs))
        if da == db:
            d = da
        elif da == "io":
            d = db
        else:
            d = da
        return ("add", a, b), wa + wb, d


# ------------------------------------------------------------------------------------------------
# simulation workers (top level: picklable)

def _vectors(rng, w, n):
    if 2 * w + 1 <= 7:
        return [(o, oe, pi) for o in range(1 << w) for oe in (0, 1) for pi in range(1 << w)]
    full = (1 << w) - 1
    vs = [(0, 0, 0), (full, 1, 0), (0, 1, full), (full, 0, full), (full, 1, full)]
    while len(vs) < n:
        vs.append((rng.getrandbits(w), rng.getrandbits(1), rng.getrandbits(w)))
    return vs


def _obs(ctx, port, buf, bdir):
    po = ctx.get(port.o) if bdir != "i" else None
    poe = ctx.get(port.oe) if bdir != "i" else None
    bi = ctx.get(buf.i) if bdir != "o" else None
    return ",".join("-" if x is None else str(x) for x in (po, poe, bi))


def sim_buffer(job):
    """job = (expr, bdir, vecs) -> 'obs;obs;...' or 'err:Kind'"""
    import warnings
    warnings.simplefilter("ignore")
    from amaranth.hdl import Module
    from amaranth.lib import io
    from amaranth.sim import Simulator
    e, bdir, vecs = job
    try:
        port = build("sim", e)
        buf = io.Buffer(bdir, port)
        m = Module()
        m.submodules.buf = buf
        sim = Simulator(m)
        out = []

        async def tb(ctx):
            for o, oe, pi in vecs:
                if bdir != "i":
                    ctx.set(buf.o, o)
                    ctx.set(buf.oe, oe)
                if port.direction.value != "o":
                    ctx.set(port.i, pi)
                out.append(_obs(ctx, port, buf, bdir))
        sim.add_testbench(tb)
        sim.run()
        return ";".join(out)
    except Exception as exc:  # noqa: BLE001
        return "err:" + common.errkind(exc)


def sim_ffbuffer(job):
    """job = (expr, bdir, two_domains, events[, (reset_kind, resets)]) ; events: (o, oe, pi, tickI, tickO)

    reset_kind: "sync" | "async" - the domains have a reset signal of that kind; resets: one (rstI, rstO) per
    event, the level the testbench puts on the reset of the i / o domain before the event's clock edges (with one
    shared domain rstI is used). Without the fifth element the domains are reset-less, as before."""
    import warnings
    warnings.simplefilter("ignore")
    from amaranth.hdl import Module, ClockDomain, Cat
    from amaranth.lib import io
    from amaranth.sim import Simulator
    e, bdir, two, events = job[:4]
    rkind, resets = job[4] if len(job) > 4 else (None, None)
    cdkw = dict(reset_less=True) if rkind is None else dict(async_reset=(rkind == "async"))
    try:
        port = build("sim", e)
        kw = {}
        if two:
            if bdir != "o":
                kw["i_domain"] = "di"
            if bdir != "i":
                kw["o_domain"] = "do"
        buf = io.FFBuffer(bdir, port, **kw)
        m = Module()
        m.submodules.buf = buf
        if two:
            m.domains.di = cdi = ClockDomain(**cdkw)
            m.domains.do = cdo = ClockDomain(**cdkw)
        else:
            m.domains.sync = cdi = cdo = ClockDomain(**cdkw)
        sim = Simulator(m)
        out = []

        async def tb(ctx):
            for n, (o, oe, pi, ti, to) in enumerate(events):
                if rkind is not None:
                    ri, ro = resets[n]
                    ctx.set(cdi.rst, ri)
                    if two:
                        ctx.set(cdo.rst, ro)
                if bdir != "i":
                    ctx.set(buf.o, o)
                    ctx.set(buf.oe, oe)
                if port.direction.value != "o":
                    ctx.set(port.i, pi)
                if two:
                    if ti and to:
                        ctx.set(Cat(cdi.clk, cdo.clk), 3)
                        ctx.set(Cat(cdi.clk, cdo.clk), 0)
                    elif ti:
                        ctx.set(cdi.clk, 1)
                        ctx.set(cdi.clk, 0)
                    elif to:
                        ctx.set(cdo.clk, 1)
                        ctx.set(cdo.clk, 0)
                elif ti:
                    ctx.set(cdi.clk, 1)
                    ctx.set(cdi.clk, 0)
                out.append(_obs(ctx, port, buf, bdir))
        sim.add_testbench(tb)
        sim.run()
        return ";".join(out)
    except Exception as exc:  # noqa: BLE001
        return "err:" + common.errkind(exc)


# ------------------------------------------------------------------------------------------------
# netlists of designs with real ports

class NetEval:
    """evaluates the nets of a built netlist: top-level inputs, pads and flip-flop contents given"""

    def __init__(self, nl):
        from amaranth.hdl import _nir
        self.nir = _nir
        self.nl = nl
        self.given = {}
        self.memo = {}

    def set_value(self, nets, value):
        for k, net in enumerate(nets):
            self.given[int(net)] = (value >> k) & 1

    def net(self, net):
        n = int(net)
        if n in (0, 1):
            return n
        if n in self.given:
            return self.given[n]
        if n in self.memo:
            return self.memo[n]
        N = self.nir
        net = N.Net(n)
        if not net.is_cell:
            raise NotImplementedError(f"late net {n}")
        cell = self.nl.cells[net.cell]
        if isinstance(cell, N.Operator):
            ins = [[self.net(x) for x in v] for v in cell.inputs]
            op = cell.operator
            if op == "~":
                val = [1 - b for b in ins[0]]
            elif op == "^":
                val = [a ^ b for a, b in zip(*ins)]
            elif op == "&":
                val = [a & b for a, b in zip(*ins)]
            elif op == "|":
                val = [a | b for a, b in zip(*ins)]
            elif op == "m":
                val = ins[1] if ins[0][0] else ins[2]
            else:
                raise NotImplementedError(f"operator {op}")
            for k, b in enumerate(val):
                self.memo[(net.cell << 16) | k] = b
            return self.memo[n]
        raise NotImplementedError(f"net {net!r} of {type(cell).__name__} has no value")

    def value(self, nets):
        return sum(self.net(x) << k for k, x in enumerate(nets))


def run_real(job):
    """job = (kind, [(ff, bdir, expr, vecs)]) -> blob (see Driver/C18Main.lean) or 'err:Kind'"""
    import warnings
    warnings.simplefilter("ignore")
    from amaranth.hdl import Module
    from amaranth.hdl._ir import build_netlist, Fragment
    from amaranth.lib import io
    kind, bufs = job
    try:
        m = Module()
        built = []
        shared = {}
        for idx, (ff, bdir, e, vecs) in enumerate(bufs):
            port = build_shared(kind, e, shared)
            buf = (io.FFBuffer if ff else io.Buffer)(bdir, port)
            m.submodules[f"b{idx}"] = buf
            built.append((ff, bdir, port, buf, vecs))
        ports = []
        for _ff, bdir, _port, buf, _v in built:
            if bdir != "o":
                ports.append(buf.i)
            if bdir != "i":
                ports += [buf.o, buf.oe]
        nl = build_netlist(Fragment.get(m, None), ports=ports)
    except Exception as exc:  # noqa: BLE001
        return "err:" + common.errkind(exc), None
    try:
        return eval_real(nl, kind, built), None
    except NotImplementedError as exc:
        return "unevaluable", str(exc)


def build_shared(kind, e, shared):
    """like build(), but leaves with the same id are the same IOPort(s)"""
    from amaranth.hdl import IOPort
    from amaranth.lib import io
    t = e[0]
    if t in ("leaf", "leafb"):
        _t, d, ident, w, b = e
        inv = bool(b) if t == "leafb" else tuple(c == "1" for c in b)
        if kind == "se":
            if ident not in shared:
                shared[ident] = IOPort(w, name=f"a{ident}")
            return io.SingleEndedPort(shared[ident], invert=inv, direction=d)
        if ident not in shared:
            shared[ident] = (IOPort(w, name=f"a{2 * ident}"), IOPort(w, name=f"a{2 * ident + 1}"))
        return io.DifferentialPort(*shared[ident], invert=inv, direction=d)
    if t == "get":
        return build_shared(kind, e[1], shared)[py_key(e[2])]
    if t == "add":
        a = build_shared(kind, e[1], shared)
        b = build_shared(kind, e[2], shared)
        return a + b
    return ~build_shared(kind, e[1], shared)


DIRMAP = {"input": "i", "output": "o", "inout": "io"}


def eval_real(nl, kind, built):
    """All buffers of a design carry the same number of vectors. A combinational buffer is observed
    once per vector; a registered one twice: at power-on and after one clock edge with the inputs held."""
    N = __import__("amaranth.hdl._nir", fromlist=["x"])
    iob = [(idx, c) for idx, c in enumerate(nl.cells) if isinstance(c, N.IOBuffer)]
    ffs = [(idx, c) for idx, c in enumerate(nl.cells) if isinstance(c, N.FlipFlop)]
    other = [type(c).__name__ for c in nl.cells if not isinstance(c, (N.IOBuffer, N.FlipFlop, N.Operator, N.Top))]
    if other:
        raise NotImplementedError(f"unexpected cells {sorted(set(other))}")

    def nets_of(cell):
        return [(nl.io_ports[n.port].name, n.bit) for n in cell.port]

    # every pad bit at most once over all cells (checked directly, independent of the model)
    allnets = [x for _i, c in iob for x in nets_of(c)]
    dup = len(allnets) != len(set(allnets))

    def pad_cell_for(port):
        want = flat_io(port.io if kind == "se" else port.p)
        for idx, c in iob:
            if nets_of(c) == want and c.dir.value != "output":
                return idx, c
        raise NotImplementedError("no input cell for a buffer that reads its port")

    def buf_of_cell(cell):
        mod = cell.module_idx
        while mod is not None:
            name = nl.modules[mod].name
            if len(name) >= 2 and name[1][:1] == "b" and name[1][1:].isdigit():
                return int(name[1][1:])
            mod = nl.modules[mod].parent
        raise NotImplementedError("buffer cell outside of the buffer submodules")

    nvec = len(built[0][4])
    per_cell = {idx: [] for idx, _c in iob}
    per_buf = [[] for _ in built]
    for j in range(nvec):
        def fresh(ffstate):
            ev = NetEval(nl)
            for ff, bdir, port, buf, vecs in built:
                o, oe, pad = vecs[j]
                if bdir != "i":
                    ev.set_value(nl.signals[buf.o], o)
                    ev.set_value(nl.signals[buf.oe], oe)
                if bdir != "o":
                    idx, c = pad_cell_for(port)
                    ev.set_value([N.Net.from_cell(idx, b) for b in range(len(c.port))], pad)
            for idx, c in ffs:
                ev.set_value([N.Net.from_cell(idx, b) for b in range(len(c.data))], ffstate[idx])
            return ev
        ev0 = fresh({idx: c.init for idx, c in ffs})
        ev1 = fresh({idx: ev0.value(c.data) for idx, c in ffs})
        for idx, c in iob:
            is_ff = built[buf_of_cell(c)][0]
            for ev in ([ev0, ev1] if is_ff else [ev0]):
                per_cell[idx].append("-,-" if c.dir.value == "input" else f"{ev.value(c.o)},{ev.net(c.oe)}")
        for k, (ff, bdir, _port, buf, _vecs) in enumerate(built):
            for ev in ([ev0, ev1] if ff else [ev0]):
                per_buf[k].append("-" if bdir == "o" else str(ev.value(nl.signals[buf.i])))
    cells = []
    for idx, c in iob:
        nets = "[" + ",".join(f"{n[1:]}.{b}" if n[:1] == "a" and n[1:].isdigit() else f"{n}!{b}" for n, b in nets_of(c)) + "]"
        cells.append(f"{nets}|{DIRMAP[c.dir.value]}|" + "/".join(per_cell[idx]))
    cells.sort()
    ivals = ["/".join(v) if v else "-" for v in per_buf]
    blob = "ok#" + "&".join(cells) + "#" + "&".join(ivals)
    if dup:
        blob += "#DUPLICATE-PAD-BIT"
    return blob


# ------------------------------------------------------------------------------------------------
# the same designs read back from the emitted RTLIL text (stream F)

def _rtlil_sigspec(tokens):
    """[(wire, bit | None) | ("const", 0|1)], LSB first; `None` = the whole wire (expanded by the caller)"""
    tok = tokens.pop(0)
    if tok == "{":
        parts = []
        while tokens[0] != "}":
            parts.append(_rtlil_sigspec(tokens))
        tokens.pop(0)
        out = []
        for part in reversed(parts):        # concatenations are written MSB first
            out += part
        return out
    if tok[0] in "\\$":
        if tokens and tokens[0].startswith("["):
            sel = tokens.pop(0)[1:-1]
            hi, _, lo = sel.partition(":")
            hi = int(hi)
            lo = int(lo) if lo else hi
            return [(tok, b) for b in range(lo, hi + 1)]
        return [(tok, None)]
    _width, _, digits = tok.partition("'")
    if not digits and _width.isdigit():     # a plain integer
        raise NotImplementedError(f"integer sigspec {tok}")
    if set(digits) - {"0", "1"}:
        raise NotImplementedError(f"constant {tok}")
    return [("const", int(d)) for d in reversed(digits)]


def rtlil_parse(text):
    """{module: {"wires": {name: (width, port kind | None, init bits | None)}, "cells": [...], "connects": [...]}}"""
    modules = {}
    module = cell = None
    init = None
    for line in text.splitlines():
        tokens = line.split()
        if not tokens:
            continue
        t0 = tokens[0]
        if t0 == "attribute":
            if tokens[1] == "\\init" and cell is None and module is not None:
                init = [b for _c, b in _rtlil_sigspec(tokens[2:])]
        elif t0 == "module":
            module = modules[tokens[1]] = {"wires": {}, "cells": [], "connects": []}
            init = None
        elif t0 == "wire" and cell is None:
            width, kind = 1, None
            if "width" in tokens:
                width = int(tokens[tokens.index("width") + 1])
            for k in ("input", "output", "inout"):
                if k in tokens[1:-1]:
                    kind = k
            module["wires"][tokens[-1]] = (width, kind, init)
            init = None
        elif t0 == "cell":
            cell = {"type": tokens[1], "name": tokens[2], "ports": {}, "params": {}}
            module["cells"].append(cell)
        elif t0 == "parameter" and cell is not None:
            cell["params"][tokens[-2]] = tokens[-1]
        elif t0 == "connect":
            rest = tokens[1:]
            if cell is not None:
                port = rest.pop(0)
                cell["ports"][port] = _rtlil_sigspec(rest) if rest else []
            else:
                lhs = _rtlil_sigspec(rest)
                rhs = _rtlil_sigspec(rest)
                module["connects"].append((lhs, rhs))
        elif t0 == "end":
            if cell is not None:
                cell = None
            else:
                module = None
        elif t0 in ("process", "memory", "switch", "case", "assign", "sync", "update"):
            raise NotImplementedError(f"RTLIL statement {t0}")
    for mod in modules.values():
        def expand(bits, mod=mod):
            out = []
            for wire, bit in bits:
                if bit is None:
                    if wire not in mod["wires"]:
                        raise NotImplementedError(f"undeclared wire {wire}")
                    out += [(wire, i) for i in range(mod["wires"][wire][0])]
                else:
                    out.append((wire, bit))
            return out
        for c in mod["cells"]:
            c["ports"] = {k: expand(v) for k, v in c["ports"].items()}
        mod["connects"] = [(expand(a), expand(b)) for a, b in mod["connects"]]
    return modules


_RTLIL_COMB = {"$xor": lambda a, b: a ^ b, "$and": lambda a, b: a & b, "$or": lambda a, b: a | b}


class RtlilDesign:
    """The emitted text flattened into bit nodes (instance path, wire, bit). Ports of submodule cells alias the
    child's port wire with what the parent connects; `connect` and primitive cells ($not $xor $and $or $mux $pos
    $dff $tribuf) are drivers. Pads are the bits of the top-level wires called a<N>: reading a pad gives the value
    the testbench put on it; what drives a pad is collected per $tribuf / `connect`."""

    def __init__(self, text, top="\\top"):
        self.modules = rtlil_parse(text)
        if top not in self.modules:
            raise NotImplementedError("no module \\top")
        self.top = top
        self.parent = {}
        self.drivers = {}        # node -> [driver] (moved to the class representative by _settle)
        self.problems = []
        self.tribufs = []        # (inst, Y nodes, A nodes, EN node)
        self.connects = []       # (inst, lhs nodes, rhs nodes)
        self.dffs = []           # (key, D nodes, Q nodes, init)
        self._inst((), top)
        self._settle()

    # -- union-find
    def find(self, x):
        p = self.parent
        root = x
        while p.get(root, root) != root:
            root = p[root]
        while p.get(x, x) != x:
            p[x], x = root, p[x]
        return root

    def union(self, a, b):
        ra, rb = self.find(a), self.find(b)
        if ra != rb:
            # keep top-level nodes as representatives
            if len(rb[0]) < len(ra[0]):
                ra, rb = rb, ra
            self.parent[rb] = ra

    def node(self, inst, mod, sig):
        wire, bit = sig
        if wire == "const":
            return ("const", bit)
        width = self.modules[mod]["wires"].get(wire, (0,))[0]
        if bit >= width:
            self.problems.append(f"{wire}[{bit}] beyond the {width} bit(s) of the wire")
        return (inst, wire, bit)

    def _inst(self, inst, modname):
        mod = self.modules[modname]
        for c in mod["cells"]:
            ports = {k: [self.node(inst, modname, x) for x in v] for k, v in c["ports"].items()}
            t = c["type"]
            if t in self.modules:
                child = inst + (c["name"],)
                cm = self.modules[t]
                for pname, nodes in ports.items():
                    if pname not in cm["wires"] or cm["wires"][pname][1] is None:
                        self.problems.append(f"cell port {pname} is not a port of {t}")
                        continue
                    if cm["wires"][pname][0] != len(nodes):
                        self.problems.append(f"cell port {pname}: {len(nodes)} bit(s) connected to a port of {cm['wires'][pname][0]}")
                    for b, pn in enumerate(nodes):
                        cn = (child, pname, b)
                        if pn[0] == "const":
                            self.drivers.setdefault(cn, []).append(pn)
                        else:
                            self.union(cn, pn)
                self._inst(child, t)
            elif t == "$tribuf":
                self.tribufs.append((inst, ports["\\Y"], ports["\\A"], ports["\\EN"][0]))
            elif t == "$dff":
                if c["params"].get("\\CLK_POLARITY") != "1":
                    raise NotImplementedError("negative-edge $dff")
                q = ports["\\Q"]
                init = []
                for w, b in c["ports"]["\\Q"]:
                    iv = mod["wires"].get(w, (0, None, None))[2]
                    init.append(iv[b] if iv is not None and b < len(iv) else 0)
                key = ("ff", len(self.dffs))
                self.dffs.append((key, ports["\\D"], q, init))
                for b, qn in enumerate(q):
                    self.drivers.setdefault(qn, []).append(("ffq", key, b))
            elif t in ("$not", "$pos", "$mux") or t in _RTLIL_COMB:
                if c["params"].get("\\A_SIGNED", "0") != "0" or c["params"].get("\\B_SIGNED", "0") != "0":
                    raise NotImplementedError("signed cell")
                ylen = len(ports["\\Y"])
                for k in ("\\A", "\\B"):
                    if k in ports and len(ports[k]) != ylen:
                        raise NotImplementedError(f"{t} with operands of another width than the result")
                for b, yn in enumerate(ports["\\Y"]):
                    self.drivers.setdefault(yn, []).append(("op", t, ports, b))
            else:
                raise NotImplementedError(f"RTLIL cell {t}")
        for lhs, rhs in mod["connects"]:
            ln = [self.node(inst, modname, x) for x in lhs]
            rn = [self.node(inst, modname, x) for x in rhs]
            if len(ln) != len(rn):
                self.problems.append(f"connect of {len(ln)} and {len(rn)} bit(s)")
            self.connects.append((inst, ln, rn))

    def pad(self, node):
        """(port number, bit) of the top-level pad this node is, or None"""
        if node[0] == "const":
            return None
        r = self.find(node)
        if r[0] == () and r[1][:2] == "\\a" and r[1][2:].isdigit():
            return int(r[1][2:]), r[2]
        return None

    def _settle(self):
        # after all aliases are known: `connect`s that do not touch a pad become ordinary drivers
        self.pad_out = []     # (inst, pad-side nodes, data nodes)   connect <pads> <data>  (output, always enabled)
        self.pad_in = []      # (inst, pad-side nodes)               connect <wire> <pads>
        for inst, ln, rn in self.connects:
            lp = [self.pad(x) is not None for x in ln]
            rp = [self.pad(x) is not None for x in rn]
            if any(lp):
                self.pad_out.append((inst, ln, rn))
            else:
                if any(rp):
                    self.pad_in.append((inst, rn))
                for a, b in zip(ln, rn):
                    self.drivers.setdefault(a, []).append(("alias", b))
        byroot = {}
        for n, ds in self.drivers.items():
            byroot.setdefault(self.find(n), []).extend(ds)
        self.drivers = byroot

    def pad_str(self, nodes):
        out = []
        for n in nodes:
            p = self.pad(n)
            if p is not None:
                out.append(f"{p[0]}.{p[1]}")
            elif n[0] == "const":
                out.append(f"const!{n[1]}")
            else:
                r = self.find(n)
                out.append(f"{'.'.join(x.lstrip(chr(92)) for x in r[0])}:{r[1].lstrip(chr(92))}!{r[2]}")
        return "[" + ",".join(out) + "]"


class RtlilEval:
    def __init__(self, design, given, ffstate):
        self.d = design
        self.given = given          # representative node -> bit (top-level inputs and pads)
        self.ff = ffstate           # ff key -> [bits]
        self.memo = {}
        self.floating = False

    def bit(self, node):
        if node[0] == "const":
            return node[1]
        d = self.d
        r = d.find(node)
        if r in self.memo:
            v = self.memo[r]
            if v is None:
                raise NotImplementedError("combinational loop in the emitted RTLIL")
            return v
        if r in self.given:
            return self.given[r]
        if d.pad(r) is not None:
            return 0                # a pad nobody was asked to read
        self.memo[r] = None
        ds = d.drivers.get(r, [])
        if len(ds) != 1:
            self.floating = True    # undriven, or driven twice: reported in the blob
            if not ds:
                self.memo[r] = 0
                return 0
        drv = ds[0]
        if drv[0] == "const":
            v = drv[1]
        elif drv[0] == "alias":
            v = self.bit(drv[1])
        elif drv[0] == "ffq":
            v = self.ff[drv[1]][drv[2]]
        else:
            _op, t, ports, b = drv
            if t == "$not":
                v = 1 - self.bit(ports["\\A"][b])
            elif t == "$pos":
                v = self.bit(ports["\\A"][b])
            elif t == "$mux":
                v = self.bit(ports["\\B"][b]) if self.bit(ports["\\S"][0]) else self.bit(ports["\\A"][b])
            else:
                v = _RTLIL_COMB[t](self.bit(ports["\\A"][b]), self.bit(ports["\\B"][b]))
        self.memo[r] = v
        return v

    def value(self, nodes):
        return sum(self.bit(n) << k for k, n in enumerate(nodes))


def run_rtlil(job):
    """job = (kind, nesting, [(ff, bdir, expr, vecs)]) -> the blob of eval_real, computed from the RTLIL text.
    nesting 0: the (single) buffer is the design that is converted; 1: buffers are submodules b<k> of the top
    module; 2: submodules of a submodule."""
    import warnings
    warnings.simplefilter("ignore")
    from amaranth.hdl import Module, Signal
    from amaranth.back import rtlil
    from amaranth.lib import io
    kind, nesting, bufs = job
    try:
        built = []
        shared = {}
        ports = []
        if nesting == 0:
            (ff, bdir, e, vecs), = bufs
            port = build_shared(kind, e, shared)
            top = buf = (io.FFBuffer if ff else io.Buffer)(bdir, port)
            built.append((ff, bdir, port, buf, vecs))
            if bdir != "o":
                ports.append(buf.i)
            if bdir != "i":
                ports += [buf.o, buf.oe]
        else:
            top = Module()
            holder = top
            if nesting == 2:
                top.submodules.inner = holder = Module()
            for idx, (ff, bdir, e, vecs) in enumerate(bufs):
                port = build_shared(kind, e, shared)
                buf = (io.FFBuffer if ff else io.Buffer)(bdir, port)
                holder.submodules[f"b{idx}"] = buf
                built.append((ff, bdir, port, buf, vecs))
                w = len(port)
                if bdir != "o":
                    s = Signal(w, name=f"b{idx}_i")
                    top.d.comb += s.eq(buf.i)
                    ports.append(s)
                if bdir != "i":
                    s, se = Signal(w, name=f"b{idx}_o"), Signal(name=f"b{idx}_oe")
                    top.d.comb += [buf.o.eq(s), buf.oe.eq(se)]
                    ports += [s, se]
        text = rtlil.convert(top, ports=ports, emit_src=False)
    except Exception as exc:  # noqa: BLE001
        return "err:" + common.errkind(exc), None
    try:
        return eval_rtlil(text, kind, nesting, built), None
    except NotImplementedError as exc:
        return "unevaluable", str(exc)


def eval_rtlil(text, kind, nesting, built):
    """the observations of eval_real (same blob), taken from the text: $tribuf cells and the `connect`s from / to
    pad bits play the role of the IOBuffer cells; every wire is followed through the module hierarchy"""
    import re
    d = RtlilDesign(text)
    topw = d.modules[d.top]["wires"]

    def top_nodes(name):
        if name not in topw:
            raise NotImplementedError(f"no top-level wire {name}")
        return [((), name, b) for b in range(topw[name][0])]

    def buf_of(inst):
        for comp in inst:
            mm = re.fullmatch(r"\\b(\d+)", comp)
            if mm:
                return int(mm.group(1))
        if nesting == 0:
            return 0
        raise NotImplementedError("buffer cell outside of the buffer submodules")

    # the cells: output side ($tribuf / connect to pads) and input side (connect from pads), paired per instance
    outs = [(inst, y, a, en) for inst, y, a, en in d.tribufs] + [(inst, ln, rn, ("const", 1)) for inst, ln, rn in d.pad_out]
    ins = list(d.pad_in)
    cells = []       # (inst, pad string, pad list, dir, a nodes, en node)
    for inst, y, a, en in outs:
        ps = d.pad_str(y)
        mate = [k for k, (i2, rn) in enumerate(ins) if i2 == inst and d.pad_str(rn) == ps]
        if mate:
            ins.pop(mate[0])
        cells.append((inst, ps, [d.pad(x) for x in y], "io" if mate else "o", a, en))
    for inst, rn in ins:
        cells.append((inst, d.pad_str(rn), [d.pad(x) for x in rn], "i", None, None))
    used = [p for c in cells for p in c[2] if p is not None]
    dup = len(used) != len(set(used))

    # names of the data signals at top level
    names = []
    for k, (ff, bdir, port, buf, vecs) in enumerate(built):
        if nesting == 0:
            outw = [n for n, (_w, kd, _i) in topw.items() if kd == "output" and not re.fullmatch(r"\\a\d+", n)]
            names.append(("\\o", "\\oe", outw[0] if len(outw) == 1 else "\\i"))
        else:
            names.append((f"\\b{k}_o", f"\\b{k}_oe", f"\\b{k}_i"))
    nvec = len(built[0][4])
    per_cell = [[] for _ in cells]
    per_buf = [[] for _ in built]
    floating = False
    for j in range(nvec):
        given = {}
        for (ff, bdir, port, buf, vecs), (no, noe, _ni) in zip(built, names):
            o, oe, pad = vecs[j]
            if bdir != "i":
                for b, n in enumerate(top_nodes(no)):
                    given[d.find(n)] = (o >> b) & 1
                given[d.find(top_nodes(noe)[0])] = oe
            if bdir != "o":
                for b, (pname, pbit) in enumerate(flat_io(port.io if kind == "se" else port.p)):
                    given[d.find(((), "\\" + pname, pbit))] = (pad >> b) & 1
        for n, (_w, kd, _i) in topw.items():
            if kd == "input":
                for node in top_nodes(n):
                    given.setdefault(d.find(node), 0)      # clk, rst and anything else that is not data
        ev0 = RtlilEval(d, given, {key: init for key, _dn, _qn, init in d.dffs})
        ev1 = RtlilEval(d, given, {key: [ev0.bit(x) for x in dn] for key, dn, _qn, _init in d.dffs})
        for ci, (inst, _ps, _pl, cdir, a, en) in enumerate(cells):
            is_ff = built[buf_of(inst)][0]
            for ev in ([ev0, ev1] if is_ff else [ev0]):
                per_cell[ci].append("-,-" if cdir == "i" else f"{ev.value(a)},{ev.bit(en)}")
        for k, ((ff, bdir, _port, _buf, _vecs), (_no, _noe, ni)) in enumerate(zip(built, names)):
            for ev in ([ev0, ev1] if ff else [ev0]):
                per_buf[k].append("-" if bdir == "o" else str(ev.value(top_nodes(ni))))
        floating = floating or ev0.floating or ev1.floating
    cs = sorted(f"{ps}|{cdir}|" + "/".join(per_cell[ci]) for ci, (_inst, ps, _pl, cdir, _a, _en) in enumerate(cells))
    ivals = ["/".join(v) if v else "-" for v in per_buf]
    blob = "ok#" + "&".join(cs) + "#" + "&".join(ivals)
    if dup:
        blob += "#DUPLICATE-PAD-BIT"
    if floating:
        blob += "#FLOATING-NET"
    if d.problems:
        blob += "#MALFORMED:" + ";".join(sorted(set(d.problems)))[:200].replace(" ", "_")
    return blob


# ------------------------------------------------------------------------------------------------

_POOL = None


def _warm(_x):
    import warnings
    warnings.simplefilter("ignore")
    import amaranth.lib.io      # noqa: F401
    import amaranth.sim         # noqa: F401
    return os.getpid()


def start_pool(workers):
    """started before the big case lists exist, so that forking stays cheap; reused by every stream"""
    global _POOL
    if workers > 1 and _POOL is None:
        _POOL = cf.ProcessPoolExecutor(max_workers=workers)
        list(_POOL.map(_warm, range(workers * 4), chunksize=1))


def stop_pool():
    global _POOL
    if _POOL is not None:
        _POOL.shutdown()
        _POOL = None


def _apply_chunk(arg):
    fn, chunk = arg
    return [fn(j) for j in chunk]


def pmap(fn, jobs, workers):
    if not jobs:
        return []
    if _POOL is None or len(jobs) < 64:
        return [fn(j) for j in jobs]
    n = workers * 3
    chunks = [jobs[i::n] for i in range(n)]
    outs = list(_POOL.map(_apply_chunk, [(fn, c) for c in chunks]))
    res = [None] * len(jobs)
    for i, out in enumerate(outs):
        res[i::n] = out
    return res


def compare(chk, stream, cases, impls, resps):
    """cases: replay data; impl vs model (tie) and impl vs spec (the property)"""
    bad_tie = 0
    for case, impl, resp in zip(cases, impls, resps):
        d = common.kv(resp)
        if "model" not in d or "spec" not in d:
            raise common.Infra(f"driver answered {resp!r} to {case!r}")
        if impl != d["spec"]:
            chk.violation(f"{stream}: code gives {impl[:160]} but the property requires {d['spec'][:160]}",
                          {"stream": stream, "case": case, "impl": impl, "spec": d["spec"], "model": d["model"]})
        elif impl != d["model"]:
            bad_tie += 1
            if bad_tie <= 5:
                chk.not_shown(f"{stream}: model differs from the code (code agrees with the Spec)",
                              {"stream": stream, "case": case, "impl": impl, "model": d["model"]})


def run(chk):
    if not chk.lean():
        chk.not_shown("Lean build of Properties/C18 failed", chk.build_log[-3000:])
        return
    rng = chk.rng
    quick = chk.tier == "quick"
    workers = int(os.environ.get("VERIF_WORKERS", "0")) or min(16, os.cpu_count() or 1)
    P = dict(
        maxw=6,
        trees=2400 if quick else 240000,
        pair_w=3 if quick else 5,
        sim_samples=24 if quick else 96,
        composite=240 if quick else 12000,
        ff_events=14 if quick else 40,
        real_random=500 if quick else 40000,
        ff_reset=240 if quick else 6000,
        rtlil_designs=700 if quick else 30000,
    )
    chk.extra["tier_parameters"] = P
    start_pool(workers)
    try:
        _run(chk, rng, quick, workers, P)
    finally:
        stop_pool()


def _run(chk, rng, quick, workers, P):
    import time
    t_last = [time.time()]
    phase_s = chk.extra.setdefault("phase_seconds", {})

    def lap(name):
        now = time.time()
        phase_s[name] = round(now - t_last[0], 2)
        t_last[0] = now
    chk.extra["exhaustive"] = {}

    # ---------------------------------------------------------------- A: port algebra
    cases = []      # (kind, expr)
    W = range(P["maxw"] + 1)
    n_exh = 0
    for kind in KINDS:
        for w in W:
            for mask in range(1 << w):
                b = bits_of(mask, w)
                for d in DIRS:
                    leaf = ("leaf", d, 0, w, b)
                    cases.append((kind, leaf))
                    cases.append((kind, ("inv", leaf)))
                    cases.append((kind, ("inv", ("inv", leaf))))
                # every integer key and every unit-step slice with bounds in -w-2..w+2 / omitted
                leaf = ("leaf", "io", 0, w, b)
                for k in range(-w - 2, w + 2):
                    cases.append((kind, ("get", leaf, ("i", k))))
                bounds = [None] + list(range(-w - 2, w + 3))
                grid = [(a, bb) for a in bounds for bb in bounds]
                full = (1 << w) - 1
                if quick and w >= 5 and mask not in (0, full, 0x15 & full, 0x2A & full, 0x0B & full, 0x34 & full):
                    grid = rng.sample(grid, 40)     # quick tier: the full grid for 6 masks, 40 pairs for the others
                for a, bb in grid:
                    cases.append((kind, ("get", leaf, ("s", a, bb, None))))
                # other steps: bounds sampled
                for step in (1, 2, 3, -1, -2, -3, 0):
                    for _ in range(3):
                        cases.append((kind, ("get", leaf, ("s", rng.choice(bounds), rng.choice(bounds), step))))
            for d in DIRS:
                for w_ in (0, 1, 3):
                    cases.append((kind, ("leafb", d, 0, w_, 0)))
                    cases.append((kind, ("leafb", d, 0, w_, 1)))
        # `+`: all pairs of (width, mask, dir) up to pair_w
        small = [(w, m, d) for w in range(P["pair_w"] + 1) for m in range(1 << w) for d in DIRS]
        for (w1, m1, d1), (w2, m2, d2) in itertools.product(small, small):
            cases.append((kind, ("add", ("leaf", d1, 0, w1, bits_of(m1, w1)), ("leaf", d2, 1, w2, bits_of(m2, w2)))))
        n_exh = len(cases)
    chk.extra["exhaustive"]["A"] = (f"per port class: widths 0..{P['maxw']} x all masks x all directions for leaf, ~, ~~; all integer keys "
                                    f"-w-2..w+1 and all unit-step slices with bounds omitted or in -w-2..w+2 for every mask "
                                    f"(quick tier, widths 5 and 6: full bound grid for 6 masks, 40 sampled bound pairs for each other mask); "
                                    f"`+` over all pairs of (width<= {P['pair_w']}, mask, direction); {n_exh} cases")
    for kind in KINDS:
        g = Gen(rng)
        for n in range(P["trees"] // 3):
            g.next_id = 0
            e, _w, _d = g.tree(rng.choice([1, 2, 3, 4, 4]), valid=rng.random() < 0.6)
            cases.append((kind, e))
    # malformed: constructor rejections that the model has
    for kind in KINDS:
        for w, nb in ((2, 3), (0, 1), (3, 0), (1, 2)):
            cases.append((kind, ("leaf", "io", 0, w, "1" * nb)))
        cases.append((kind, ("get", ("leaf", "io", 0, 3, "101"), "bad")))
        cases.append((kind, ("add", ("leaf", "i", 0, 1, "1"), ("leaf", "o", 1, 1, "0"))))
    impls = pmap_pexpr(cases, workers)
    sers = [ser(e) for _k, e in cases]
    resps = chk.driver.ask([f"(pexpr {k} {se})" for (k, _e), se in zip(cases, sers)])
    compare(chk, "port-algebra", [{"kind": k, "expr": se} for (k, _e), se in zip(cases, sers)], impls, resps)
    chk.count(len(cases))
    for (k, e), se, impl in zip(cases, sers, impls):
        dd = depth(e)
        chk.distinct(("A", k, se), nontrivial=dd >= 1)
        chk.hist("A.depth", dd)
        chk.hist("A.kind", k)
        chk.hist("A.outcome", impl.split("|")[0] if impl.startswith("ok") else impl)
        if impl.startswith("ok"):
            chk.hist("A.result_width", 0 if impl.split("|")[2] == "-" else len(impl.split("|")[2]))
    chk.sample({"stream": "A", "kind": cases[-7][0], "expr": ser(cases[-7][1]), "impl": impls[-7]})
    mixed_type_adds(chk)

    lap("A")
    # ---------------------------------------------------------------- B: legality
    breq, bimpl, bcase = [], [], []
    from amaranth.lib import io
    for cls in ("Buffer", "FFBuffer", "DDRBuffer"):
        for kind in KINDS:
            for pdir in DIRS:
                for bdir in DIRS:
                    for idom, odom in ([(0, 0)] if cls == "Buffer" else [(0, 0), (1, 0), (0, 1), (1, 1)]):
                        port = build(kind, ("leaf", pdir, 0, 2, "10"))
                        kw = {}
                        if idom:
                            kw["i_domain"] = "a"
                        if odom:
                            kw["o_domain"] = "b"
                        try:
                            buf = getattr(io, cls)(bdir, port, **kw)
                            r = "ok"
                            if buf.direction.value != bdir or buf.port is not port:
                                r = "ok-but-wrong-attributes"
                            if cls != "Buffer":
                                exp_i = None if bdir == "o" else ("a" if idom else "sync")
                                exp_o = None if bdir == "i" else ("b" if odom else "sync")
                                if (buf.i_domain, buf.o_domain) != (exp_i, exp_o):
                                    r = f"ok-but-domains={buf.i_domain},{buf.o_domain}"
                        except Exception as exc:  # noqa: BLE001
                            r = "err:" + common.errkind(exc)
                        bimpl.append(r)
                        breq.append(f"(bufnew {bdir} {pdir} {idom} {odom})")
                        bcase.append({"cls": cls, "kind": kind, "pdir": pdir, "bdir": bdir, "i_domain": idom, "o_domain": odom})
    compare(chk, "legality", bcase, bimpl, chk.driver.ask(breq))
    chk.count(len(breq))
    for c, r in zip(bcase, bimpl):
        chk.distinct(("B", tuple(c.values())), nontrivial=True)
        chk.hist("B.outcome", r)
    chk.extra["exhaustive"]["B"] = "3 buffer classes x 3 port classes x 3 port directions x 3 buffer directions x domain arguments given or not"

    lap("B")
    # ---------------------------------------------------------------- C: Buffer on simulation ports
    jobs = []
    for w in W:
        for mask in range(1 << w):
            for pdir, bdir in LEGAL:
                jobs.append((("leaf", pdir, 0, w, bits_of(mask, w)), bdir, _vectors(rng, w, P["sim_samples"])))
    n_c_exh = len(jobs)
    g = Gen(rng)
    for _ in range(P["composite"]):
        e, w, pdir = linear_tree(g, rng)
        bdir = rng.choice([b for p, b in LEGAL if p == pdir])
        jobs.append((e, bdir, _vectors(rng, w, P["sim_samples"])))
    impls = pmap(sim_buffer, jobs, workers)
    inv_batch(chk, [j[0] for j in jobs])
    reqs, cs = [], []
    for (e, bdir, vecs) in jobs:
        inv = inv_of(chk, e)
        reqs.append(f"(buf {bdir} {inv or '-'} " + " ".join(f"({o} {oe} {pi})" for o, oe, pi in vecs) + ")")
        cs.append({"port": ser(e), "bdir": bdir, "invert": inv, "vectors": vecs})
    compare(chk, "Buffer(sim)", cs, impls, chk.driver.ask(reqs))
    chk.count(sum(len(j[2]) for j in jobs))
    for (e, bdir, vecs), c in zip(jobs, cs):
        chk.distinct(("C", c["port"], bdir), nontrivial=len(c["invert"]) > 0)
        chk.hist("C.width", len(c["invert"]))
        chk.hist("C.buffer_dir", bdir)
        chk.hist("C.port_depth", depth(e))
    chk.sample({"stream": "C", **{k: (v if k != "vectors" else v[:4]) for k, v in cs[-1].items()}, "impl": impls[-1][:120]})
    chk.extra["exhaustive"]["C"] = (f"widths 0..{P['maxw']} x all masks x the 5 legal (port, buffer) direction pairs = {n_c_exh} simulated buffers; "
                                    f"input vectors (o, oe, port.i) all for widths <= 3, corners + random up to {P['sim_samples']} otherwise; "
                                    f"plus {P['composite']} buffers on composite (sliced/concatenated/inverted) simulation ports")

    lap("C")
    # ---------------------------------------------------------------- D: FFBuffer
    jobs = []
    for w in W:
        for mask in range(1 << w):
            for pdir, bdir in LEGAL:
                for two in (False, True):
                    jobs.append((("leaf", pdir, 0, w, bits_of(mask, w)), bdir, two, gen_events(rng, w, P["ff_events"], two)))
    for _ in range(P["composite"] // 2):
        e, w, pdir = linear_tree(g, rng)
        bdir = rng.choice([b for p, b in LEGAL if p == pdir])
        two = rng.random() < 0.5
        jobs.append((e, bdir, two, gen_events(rng, w, P["ff_events"], two)))
    impls = pmap(sim_ffbuffer, jobs, workers)
    inv_batch(chk, [j[0] for j in jobs])
    reqs, cs = [], []
    for (e, bdir, two, evs) in jobs:
        inv = inv_of(chk, e)
        reqs.append(f"(ff {bdir} {inv or '-'} " + " ".join("(" + " ".join(str(x) for x in ev) + ")" for ev in evs) + ")")
        cs.append({"port": ser(e), "bdir": bdir, "invert": inv, "two_domains": two, "events": evs})
    compare(chk, "FFBuffer(sim)", cs, impls, chk.driver.ask(reqs))
    chk.count(sum(len(j[3]) for j in jobs))
    for (e, bdir, two, evs), c in zip(jobs, cs):
        chk.distinct(("D", c["port"], bdir, two), nontrivial=len(c["invert"]) > 0)
        chk.hist("D.domains", "two" if two else "one")
        for ev in evs:
            chk.hist("D.event", f"tickI={ev[3]} tickO={ev[4]}")
    chk.sample({"stream": "D", **{k: (v if k != "events" else v[:4]) for k, v in cs[-1].items()}, "impl": impls[-1][:120]})
    chk.extra["exhaustive"]["D"] = ("the same configurations as C, each with one shared clock domain and with two named domains; "
                                    f"event sequences of length {P['ff_events']} (edge on i-domain, o-domain, both at once, none)")

    lap("D")
    # ---------------------------------------------------------------- E: real ports
    jobs = []
    for kind in ("se", "diff"):
        for w in W:
            for mask in range(1 << w):
                for pdir, bdir in LEGAL:
                    for ff in (0, 1):
                        vecs = [(rng.getrandbits(w) if w else 0, rng.getrandbits(1), rng.getrandbits(w) if w else 0) for _ in range(3)]
                        if w <= 2 and not ff:
                            vecs = [(o, oe, pi) for o in range(1 << w) for oe in (0, 1) for pi in range(1 << w)]
                        jobs.append((kind, [(ff, bdir, ("leaf", pdir, 0, w, bits_of(mask, w)), vecs)]))
    n_e_exh = len(jobs)
    for _ in range(P["real_random"]):
        jobs.append(gen_design(rng))
    res = pmap(run_real, jobs, workers)
    impls = [r[0] for r in res]
    reqs = []
    for kind, bufs in jobs:
        reqs.append(f"(real {kind} " + " ".join(
            f"({ff} {bdir} {ser(e)} " + " ".join(f"({o} {oe} {pad})" for o, oe, pad in vecs) + ")" for ff, bdir, e, vecs in bufs) + ")")
    cs = [{"kind": kind, "buffers": [{"ff": ff, "bdir": bdir, "port": ser(e), "vectors": vecs} for ff, bdir, e, vecs in bufs]}
          for kind, bufs in jobs]
    for r, c in zip(res, cs):
        if r[0] == "unevaluable":
            chk.not_shown("netlist of a buffer on real ports contains something the harness cannot evaluate: " + str(r[1]), c)
    keep = [i for i, r in enumerate(res) if r[0] != "unevaluable"]
    resps = chk.driver.ask(reqs)
    compare(chk, "netlist(real ports)", [cs[i] for i in keep], [impls[i] for i in keep], [resps[i] for i in keep])
    chk.count(len(jobs))
    for (kind, bufs), impl in zip(jobs, impls):
        chk.distinct(("E", kind, tuple((ff, bdir, ser(e)) for ff, bdir, e, _v in bufs)), nontrivial=True)
        chk.hist("E.buffers", len(bufs))
        chk.hist("E.outcome", impl if impl.startswith("err") else impl.split("#")[0])
    chk.sample({"stream": "E", **cs[-1], "impl": impls[-1][:200]})
    chk.extra["exhaustive"]["E"] = (f"SingleEndedPort and DifferentialPort: widths 0..{P['maxw']} x all masks x 5 legal direction pairs x "
                                    f"(Buffer, FFBuffer) = {n_e_exh} netlists; plus {P['real_random']} random designs of 1-3 buffers on "
                                    "port expressions over shared IOPorts (about half of them claim a pad bit twice)")

    lap("E")
    # ---------------------------------------------------------------- D2: FFBuffer in domains that have a reset
    # (the registers are declared reset_less: a reset of either kind, pulsed mid-run, changes nothing; the model's
    # `ff` run - which has no reset input at all - is the expectation)
    jobs = []
    for rkind in ("sync", "async"):
        for pdir, bdir in LEGAL:
            for two in (False, True):
                for w, mask in ((1, 1), (3, 0b010), (4, 0b0101)):
                    evs, rs = gen_reset_events(rng, w, P["ff_events"], two)
                    jobs.append((("leaf", pdir, 0, w, bits_of(mask, w)), bdir, two, evs, (rkind, rs)))
    n_d2_exh = len(jobs)
    for _ in range(P["ff_reset"]):
        e, w, pdir = linear_tree(g, rng)
        bdir = rng.choice([b for p_, b in LEGAL if p_ == pdir])
        two = rng.random() < 0.6
        evs, rs = gen_reset_events(rng, w, P["ff_events"], two)
        jobs.append((e, bdir, two, evs, (rng.choice(["sync", "async"]), rs)))
    impls = pmap(sim_ffbuffer, jobs, workers)
    inv_batch(chk, [j[0] for j in jobs])
    reqs, cs = [], []
    for (e, bdir, two, evs, (rkind, rs)) in jobs:
        inv = inv_of(chk, e)
        reqs.append(f"(ff {bdir} {inv or '-'} " + " ".join("(" + " ".join(str(x) for x in ev) + ")" for ev in evs) + ")")
        cs.append({"port": ser(e), "bdir": bdir, "invert": inv, "two_domains": two, "events": evs, "reset_kind": rkind, "resets": rs})
    compare(chk, "FFBuffer(sim, domains with reset)", cs, impls, chk.driver.ask(reqs))
    chk.count(sum(len(j[3]) for j in jobs))
    for (e, bdir, two, evs, (rkind, rs)), c in zip(jobs, cs):
        chk.distinct(("D2", c["port"], bdir, two, rkind), nontrivial=len(c["invert"]) > 0 and any(r != (0, 0) for r in rs))
        chk.hist("D2.reset_kind", rkind)
        chk.hist("D2.domains", "two" if two else "one")
        prev = (0, 0)
        for ev, r in zip(evs, rs):
            for side, dom_tick in ((0, ev[3]), (1, ev[4] if two else ev[3])):
                if side == 1 and not two:
                    continue
                what = "rises" if r[side] and not prev[side] else "falls" if prev[side] and not r[side] else "high" if r[side] else "low"
                chk.hist("D2.event", f"reset {what}, {'edge' if dom_tick else 'no edge'}")
            prev = r
    chk.sample({"stream": "D2", **{k: (v if k not in ("events", "resets") else v[:5]) for k, v in cs[-1].items()}, "impl": impls[-1][:120]})
    chk.extra["exhaustive"]["D2"] = (f"{n_d2_exh} fixed configurations (sync / async reset x 5 legal direction pairs x one / two domains x "
                                     f"3 width-mask pairs) + {P['ff_reset']} composite ports; the reset of each domain is raised and "
                                     "released at random events, with and without a clock edge of that domain in the same event")

    lap("D2")
    # ---------------------------------------------------------------- F: real ports, read back from the RTLIL text
    jobs = []
    for fixed in fixed_xdesigns(rng):
        jobs.append(fixed)
    n_f_fixed = len(jobs)
    for _ in range(P["rtlil_designs"]):
        jobs.append(gen_xdesign(rng))
    res = pmap(run_rtlil, jobs, workers)
    impls = [r[0] for r in res]
    reqs = []
    for kind, _nest, bufs in jobs:
        reqs.append(f"(real {kind} " + " ".join(
            f"({ff} {bdir} {ser(e)} " + " ".join(f"({o} {oe} {pad})" for o, oe, pad in vecs) + ")" for ff, bdir, e, vecs in bufs) + ")")
    cs = [{"kind": kind, "nesting": nest, "buffers": [{"ff": ff, "bdir": bdir, "port": ser(e), "vectors": vecs} for ff, bdir, e, vecs in bufs]}
          for kind, nest, bufs in jobs]
    for r, c in zip(res, cs):
        if r[0] == "unevaluable":
            chk.not_shown("RTLIL of a buffer on real ports contains something the harness cannot evaluate: " + str(r[1]), c)
    keep = [i for i, r in enumerate(res) if r[0] != "unevaluable"]
    resps = chk.driver.ask(reqs)
    compare(chk, "RTLIL(real ports)", [cs[i] for i in keep], [impls[i] for i in keep], [resps[i] for i in keep])
    chk.count(len(jobs))
    for (kind, nest, bufs), impl in zip(jobs, impls):
        chk.distinct(("F", kind, nest, tuple((ff, bdir, ser(e)) for ff, bdir, e, _v in bufs)), nontrivial=True)
        chk.hist("F.nesting", {0: "buffer is the converted design", 1: "buffers are submodules", 2: "buffers two levels down"}[nest])
        chk.hist("F.kind", kind)
        chk.hist("F.buffers", len(bufs))
        chk.hist("F.outcome", impl if impl.startswith("err") else impl.split("#")[0])
        for ff, bdir, e, _v in bufs:
            lanes = xlanes(e)
            chk.hist("F.ports_in_expression", len({l for l, _b in lanes}))
            chk.hist("F.width", len(lanes))
            chk.hist("F.cross_port_index_continuation", xcontinuation(lanes, top_numbering=(nest == 0 and not ff)))
    chk.sample({"stream": "F", **cs[-1], "impl": impls[-1][:200]})
    chk.extra["exhaustive"]["F"] = (f"{n_f_fixed} fixed designs (index-continuing concatenations of slices of two ports at each nesting level) + "
                                    f"{P['rtlil_designs']} random designs of 1-3 Buffer/FFBuffer on concatenations of slices and single bits of 2-3 "
                                    "IOPorts (no pad bit used twice, except ~4% on purpose); back.rtlil.convert, text parsed and evaluated")

    lap("F")
    chk.cov["rule"] = ("a case is one port expression / one constructor call / one simulated buffer configuration with its input "
                       "sequence / one elaborated design; distinct = different serialised case; non-trivial = expression depth >= 1 "
                       "(A), width >= 1 (C, D), every design (B, E)")
    chk.assumptions += [
        "wires are identified by (name of the IOPort or of the SimulationPort signal, bit index); leaf names are chosen by the harness",
        "amaranth.sim is the reference for what an elaborated Buffer/FFBuffer computes (clock edges driven by hand, "
        "observations after each event with the inputs still applied)",
        "netlists are evaluated by a 60-line interpreter of _nir cells (Top, Operator ~ ^ & | m, FlipFlop, IOBuffer) written for this check",
        "DifferentialPort with the generic Buffer: an input buffer claims only the `p` half (the code's vendor-neutral lowering; "
        "theorems buffer_real_diff_input / buffer_real_diff_use say so: the `n` pads of a differential input carry no cell, "
        "so 'used by exactly one cell' holds for them as 'at most one'); the model, the Spec's padClaims and the netlist comparison follow that",
        "FFBuffer on real ports: the netlist is evaluated at power-on and after one clock edge with the inputs held and compared with "
        "FFBuffer.realRun (theorems ffbuffer_real_registers / _one_stage); where the FlipFlop cells sit in the netlist is not modelled",
        "DDRBuffer is covered only as far as its constructor (it cannot be elaborated without a platform)",
        "stream F reads the text of amaranth.back.rtlil.convert with a reader written for this check (wires, `connect`, submodule "
        "cells, $tribuf $dff $not $xor $and $or $mux $pos): module ports alias what the parent connects, pads are the bits of the "
        "top-level wires a<N>, a $tribuf / a `connect` onto pads is the output side and a `connect` from pads the input side of one "
        "buffer cell; it yields the same observations as the netlist evaluation of stream E and is compared with the same model request",
        "stream D2: the model has no reset input; FFBuffer's i_ff / o_ff / oe_ff are declared reset_less in lib/io.py, so the expectation "
        "for domains with a synchronous or asynchronous reset is the run of the same events without any reset",
    ]


def _pexpr(case):
    return run_pexpr(*case)


def pmap_pexpr(cases, workers):
    return pmap(_pexpr, cases, workers)


def mixed_type_adds(chk):
    """`+` between different port classes or with a non-port is a TypeError (documented); not in the model"""
    from amaranth.hdl import IOPort
    from amaranth.lib import io
    se = io.SingleEndedPort(IOPort(1, name="a0"))
    df = io.DifferentialPort(IOPort(1, name="p0"), IOPort(1, name="n0"))
    sm = io.SimulationPort("io", 1, name="s0")
    for a, b in itertools.permutations([se, df, sm, 3], 2):
        try:
            a + b
            r = "ok"
        except Exception as exc:  # noqa: BLE001
            r = common.errkind(exc)
        chk.count()
        if r != "TypeError":
            chk.violation(f"port algebra: {type(a).__name__} + {type(b).__name__} gives {r}, documented: TypeError",
                          {"stream": "A-mixed", "a": type(a).__name__, "b": type(b).__name__, "impl": r})


def linear_tree(g, rng):
    """a composite simulation port in which every leaf wire occurs at most once (so that driving it is unambiguous)"""
    g.next_id = 0
    n = rng.choice([1, 2, 2, 3])
    base_dir = rng.choice(DIRS)
    parts = []
    for _ in range(n):
        dirs = (base_dir, "io") if base_dir != "io" else ("io",)
        leaf, w, d = g.leaf(dirs=dirs)
        e = leaf
        for _ in range(rng.randint(0, 2)):
            r = rng.random()
            if r < 0.4:
                e = ("inv", e)
            else:
                a = rng.randint(0, w)
                b = rng.randint(a, w)
                if rng.random() < 0.2 and w:
                    k = rng.randrange(-w, w)
                    e, w = ("get", e, ("i", k)), 1
                elif rng.random() < 0.2:
                    step = rng.choice([2, -1, -2])
                    key = ("s", None, None, step)
                    e, w = ("get", e, key), len(range(*slice(None, None, step).indices(w)))
                else:
                    e, w = ("get", e, ("s", a, b, None)), b - a
        parts.append((e, w, d))
    e, w, d = parts[0]
    for e2, w2, d2 in parts[1:]:
        e, w = ("add", e, e2), w + w2
        d = d if d == d2 else (d2 if d == "io" else d)
    if rng.random() < 0.3:
        e = ("inv", e)
    return e, w, d


_INV_CACHE = {}


def inv_batch(chk, exprs):
    """inversion flags of (valid) port expressions, from the model; one driver round trip"""
    todo = sorted({ser(e) for e in exprs} - set(_INV_CACHE))
    for s, resp in zip(todo, chk.driver.ask([f"(pexpr sim {s})" for s in todo])):
        r = common.kv(resp)["model"]
        if not r.startswith("ok"):
            raise common.Infra(f"generator produced an invalid port expression {s}: {r}")
        b = r.split("|")[2]
        _INV_CACHE[s] = "" if b == "-" else b


def inv_of(chk, e):
    return _INV_CACHE[ser(e)]


def gen_events(rng, w, n, two):
    evs = []
    for _ in range(n):
        o = rng.getrandbits(w) if w else 0
        pi = rng.getrandbits(w) if w else 0
        oe = rng.getrandbits(1)
        if two:
            ti, to = rng.choice([(1, 1), (1, 0), (0, 1), (1, 1), (0, 0)])
        else:
            ti = to = 0 if rng.random() < 0.2 else 1
        evs.append((o, oe, pi, ti, to))
    return evs


def gen_design(rng):
    """1-3 buffers on expressions over shared leaves; about half of the designs reuse a pad bit"""
    kind = rng.choice(["se", "diff"])
    nleaf = rng.randint(1, 3)
    leaves = []
    for ident in range(nleaf):
        w = rng.choice([1, 2, 3, 4, 5, 6])
        leaves.append((ident, w))
    conflict = rng.random() < 0.5
    free = {ident: list(range(w)) for ident, w in leaves}
    bufs = []
    for _ in range(rng.randint(1, 3)):
        parts = []
        width = 0
        for _ in range(rng.randint(1, 2)):
            ident, w = rng.choice(leaves)
            a = rng.randint(0, w - 1)
            b = rng.randint(a + 1, w)
            if not conflict:
                # take a still-free contiguous run
                runs = [k for k in free[ident]]
                if not runs:
                    continue
                a = rng.choice(runs)
                b = a + 1
                while b in free[ident] and rng.random() < 0.6:
                    b += 1
                for k in range(a, b):
                    free[ident].remove(k)
            inv = bits_of(rng.getrandbits(w), w)
            e = ("get", ("leaf", "io", ident, w, inv), ("s", a, b, None))
            if rng.random() < 0.3:
                e = ("inv", e)
            parts.append(e)
            width += b - a
        if not parts:
            continue
        e = parts[0]
        for p in parts[1:]:
            e = ("add", e, p)
        bdir = rng.choice(DIRS)
        ff = rng.randint(0, 1)
        vecs = [(rng.getrandbits(width), rng.getrandbits(1), rng.getrandbits(width)) for _ in range(2)]
        bufs.append((ff, bdir, e, vecs))
    if not bufs:
        ident, w = leaves[0]
        bufs.append((0, "io", ("leaf", "io", ident, w, bits_of(0, w)), [(0, 0, 0)]))
    return kind, bufs


def gen_reset_events(rng, w, n, two):
    """events as gen_events plus one (rstI, rstO) level per event; a reset that rises often comes without a clock edge
    of its domain in the same event (then only an asynchronous reset could have any effect - and must have none)"""
    evs, rs = [], []
    cur = [0, 0]
    for k in range(n):
        o = rng.getrandbits(w) if w else 0
        pi = rng.getrandbits(w) if w else 0
        oe = rng.getrandbits(1) if k else 1
        if two:
            ti, to = rng.choice([(1, 1), (1, 0), (0, 1), (1, 1), (0, 0)])
        else:
            ti = to = 0 if rng.random() < 0.2 else 1
        rose = [False, False]
        if k >= 2:              # the first events fill the registers with something that is not the initial value
            for side in (0, 1):
                if rng.random() < 0.3:
                    cur[side] ^= 1
                    rose[side] = cur[side] == 1
        if not two:
            cur[1] = cur[0]
            if rose[0] and rng.random() < 0.6:
                ti = to = 0
        else:
            if rose[0] and rng.random() < 0.6:
                ti = 0
            if rose[1] and rng.random() < 0.6:
                to = 0
        if k < 2:
            ti = to = 1
        evs.append((o, oe, pi, ti, to))
        rs.append((cur[0], cur[1]))
    return evs, rs


# ------------------------------------------------------------------------------------------------
# stream F designs: expressions are `add`-chains of pieces; a piece is a unit-step slice or a single bit of a leaf,
# possibly inverted

def _piece(rng, leaf, a, b):
    if b == a + 1 and rng.random() < 0.5:
        e = ("get", leaf, ("i", a if rng.random() < 0.7 else a - leaf[3]))
    else:
        e = ("get", leaf, ("s", a, b, None))
    if rng.random() < 0.25:
        e = ("inv", e)
    return e


def xlanes(e):
    """[(leaf id, bit)] of an expression made of leaf / get / add / inv (what the port algebra gives; used for the
    input histograms and the generator's bookkeeping only, never as an expectation)"""
    t = e[0]
    if t in ("leaf", "leafb"):
        return [(e[2], b) for b in range(e[3])]
    if t == "inv":
        return xlanes(e[1])
    if t == "add":
        return xlanes(e[1]) + xlanes(e[2])
    inner = xlanes(e[1])
    r = inner[py_key(e[2])]
    return r if isinstance(r, list) else [r]


def xcontinuation(lanes, top_numbering):
    """does a bit of another wire follow bit k-1 of a wire at index k? In the converted design itself wires are the
    IOPorts; inside a submodule, every maximal run of bits of one IOPort that the submodule uses is a wire of its own"""
    if top_numbering:
        num = {l: (l[0], l[1]) for l in lanes}
    else:
        num = {}
        used = sorted(set(lanes))
        start = None
        for k, (leaf, bit) in enumerate(used):
            if k == 0 or used[k - 1] != (leaf, bit - 1):
                start = bit
            num[(leaf, bit)] = ((leaf, start), bit - start)
    for x, y in zip(lanes, lanes[1:]):
        (wx, ix), (wy, iy) = num[x], num[y]
        if wx != wy and iy == ix + 1:
            return "yes"
    return "no"


def xvectors(rng, bufs_w):
    """the same number of vectors for every buffer of a design: index-coded ones (bit b of vector j = bit j of b+1,
    so that every data bit has its own column) and two random ones"""
    ncode = max(max(bufs_w), 1).bit_length()
    out = []
    for w in bufs_w:
        vs = []
        for j in range(ncode):
            code = sum((((b + 1) >> j) & 1) << b for b in range(w))
            vs.append((code, (j + 1) & 1, code ^ (rng.getrandbits(w) if j else 0)))
        full = (1 << w) - 1
        vs.append((full & ~vs[0][0], 1, rng.getrandbits(w)))
        for _ in range(2):
            vs.append((rng.getrandbits(w), rng.getrandbits(1), rng.getrandbits(w)))
        out.append(vs)
    return out


def _chain(parts):
    e = parts[0]
    for p_ in parts[1:]:
        e = ("add", e, p_)
    return e


def fixed_xdesigns(rng):
    """the index patterns named in the property's netlist clause, at each nesting level (rng: the random vectors)"""
    out = []
    A = ("leaf", "io", 0, 4, "0000")
    B = ("leaf", "io", 1, 4, "0101")
    C = ("leaf", "io", 2, 3, "110")
    shapes = [
        [("get", A, ("s", 0, 2, None)), ("get", B, ("s", 2, 4, None))],
        [("get", A, ("i", 0)), ("inv", ("get", B, ("i", 1))), ("get", A, ("i", 2)), ("get", B, ("i", 3))],
        [("get", A, ("s", 0, 2, None)), ("get", B, ("i", 2)), ("get", B, ("s", 0, 2, None))],
        [("get", B, ("s", 1, 3, None)), ("get", A, ("i", 3)), ("get", A, ("s", 1, 3, None)), ("get", C, ("i", 2)), ("get", C, ("s", 0, 2, None))],
        [("get", ("add", A, B), ("s", 2, 6, None))],
        [A, B],
    ]
    for kind in ("se", "diff"):
        for nest in (0, 1, 2):
            for parts in shapes:
                for ff in (0, 1):
                    for bdir in DIRS:
                        e = _chain(parts)
                        (vecs,) = xvectors(rng, [len(xlanes(e))])
                        out.append((kind, nest, [(ff, bdir, e, vecs)]))
    return out


def gen_xdesign(rng):
    kind = rng.choice(["se", "se", "diff"])
    nleaf = rng.randint(2, 3)
    leaves = []
    for ident in range(nleaf):
        w = rng.randint(2, 6)
        leaves.append(("leaf", "io", ident, w, bits_of(rng.getrandbits(w), w)))
    nest = rng.choice([0, 0, 1, 1, 1, 2])
    nbuf = 1 if nest == 0 else rng.choice([1, 1, 2, 3])
    free = {l[2]: set(range(l[3])) for l in leaves}
    conflict = rng.random() < 0.04
    bufs = []

    def take(leaf, a, b):
        """the piece leaf[a:b] if all its bits are still free"""
        if a < 0 or b > leaf[3] or a >= b:
            return None
        if not conflict and not all(k in free[leaf[2]] for k in range(a, b)):
            return None
        for k in range(a, b):
            free[leaf[2]].discard(k)
        return _piece(rng, leaf, a, b)

    for _ in range(nbuf):
        parts = []
        style = rng.choice(["continue", "alternate", "scramble", "random", "random"])
        p, q = rng.sample(leaves, 2)
        if style == "continue":         # p[a:k] + q[k:m] (+ p[m:...])
            k = rng.randint(1, min(p[3], q[3] - 1))
            a = rng.randint(0, k - 1)
            m = rng.randint(k + 1, q[3])
            parts = [take(p, a, k), take(q, k, m)]
            if m < p[3] and rng.random() < 0.5:
                parts.append(take(p, m, rng.randint(m + 1, p[3])))
        elif style == "alternate":      # p[a] + q[a+1] + p[a+2] + ...
            a = rng.randint(0, 1)
            n = rng.randint(2, 5)
            for j in range(n):
                parts.append(take((p, q)[j % 2], a + j, a + j + 1))
        elif style == "scramble":       # p[a:a+k] + q[b+k:b+k+n] + q[b:b+k]: continues in the numbering of a submodule
            k = rng.randint(1, min(p[3], q[3] - 1))
            a = rng.randint(0, p[3] - k)
            b = rng.randint(0, q[3] - k - 1)
            n = rng.randint(1, q[3] - k - b)
            parts = [take(p, a, a + k), take(q, b + k, b + k + n), take(q, b, b + k)]
            if rng.random() < 0.3:
                parts.reverse()
        else:
            for _ in range(rng.randint(2, 4)):
                leaf = rng.choice(leaves)
                a = rng.randint(0, leaf[3] - 1)
                parts.append(take(leaf, a, rng.randint(a + 1, min(leaf[3], a + 3))))
        parts = [x for x in parts if x is not None]
        if not parts:
            continue
        if rng.random() < 0.1:
            e = ("inv", _chain(parts))
        else:
            e = _chain(parts)
        bufs.append([rng.randint(0, 1), rng.choice(DIRS), e])
    if not bufs:
        bufs.append([0, "io", _chain([("get", leaves[0], ("s", 0, 1, None)), ("get", leaves[1], ("s", 1, 2, None))])])
    vss = xvectors(rng, [len(xlanes(b[2])) for b in bufs])
    return kind, nest, [(ff, bdir, e, vs) for (ff, bdir, e), vs in zip(bufs, vss)]
