"""C13 - asynchronous FIFOs are safe under every interleaving of their clocks.

Correspondence of lean/AmaranthVerif/Model/AsyncFifo.lean (+ Spec/Queue2.lean) with
amaranth.lib.fifo.AsyncFIFO / AsyncFIFOBuffered:

* `_gray_encode` / `_gray_decode` on every n-bit value, n <= 7 (exhaustive);
* constructor sweep: depths 0..70, both classes, exact_depth both ways: error kind, rounded depth,
  and elaboration (must succeed; the `[-2]` IndexError of 1-bit counters is finding F6);
* random walks: real FIFO, two hand-driven clocks (write edge / read edge / coincident edges),
  random strobes and data; all outputs after every event against the model (exact) and against
  the Spec monitor (a bounded queue seen from two sides, incl. the drain bound);
* several FIFOs in ONE simulated design (each owns a reset synchroniser with a private clock domain
  called "async_ff"): two or three AsyncFIFO / AsyncFIFOBuffered instances with different read clocks
  (one of them idle or slow), shared or separate write clocks; every FIFO is compared with its own
  model and Spec monitor run on the projection of the design's clock events onto its two clocks, and
  its outputs must not move on an event that has none of its clocks;
* the complete reachable graph of the smallest configurations: every reachable model state is
  loaded into the real FIFO's registers and storage, every event over the whole input alphabet is
  applied, and the successor register state and outputs are compared.
"""
import concurrent.futures as cf
import os

from .. import common

LEVEL = "proof"
EXE = "amodel_c13"

WALK_DEPTHS = [0, 1, 2, 3, 4, 5, 8, 9, 16, 17]
WIDTHS = [0, 1, 4]
KINDS = ("W", "R", "B")
PROFILES = {
    # name: (weights of W/R/B, p(w_en), p(r_en))
    "balanced": ((1, 1, 1), 0.6, 0.6),
    "w-fast": ((6, 1, 1), 0.7, 0.8),
    "r-fast": ((1, 6, 1), 0.9, 0.5),
    "coincident": ((1, 1, 6), 0.7, 0.7),
    "fill": ((3, 1, 1), 0.95, 0.1),
    "drain": ((1, 3, 1), 0.1, 0.95),
    "w-only": ((1, 0, 0), 0.8, 0.5),
    "r-only": ((0, 1, 0), 0.5, 0.8),
}


# ------------------------------------------------------------------------------------------------
# amaranth side (runs in worker processes)

def _cls(name):
    from amaranth.lib import fifo
    return getattr(fifo, name)


def _build(cls_name, depth, width, exact=False):
    from amaranth.hdl import Module, ClockDomain
    from amaranth.sim import Simulator
    f = _cls(cls_name)(width=width, depth=depth, exact_depth=exact)
    m = Module()
    m.submodules.f = f
    m.domains.read = cdr = ClockDomain()
    m.domains.write = cdw = ClockDomain()
    sim = Simulator(m)      # elaborates
    return f, cdw, cdr, sim


def _obs(ctx, f):
    return [ctx.get(f.w_rdy), ctx.get(f.r_rdy), ctx.get(f.r_data), ctx.get(f.w_level), ctx.get(f.r_level), ctx.get(f.r_rst)]


def _edge(ctx, Cat, cdw, cdr, kind):
    if kind == "W":
        ctx.set(cdw.clk, 1)
        ctx.set(cdw.clk, 0)
    elif kind == "R":
        ctx.set(cdr.clk, 1)
        ctx.set(cdr.clk, 0)
    else:
        ctx.set(Cat(cdw.clk, cdr.clk), 3)
        ctx.set(Cat(cdw.clk, cdr.clk), 0)


def walk_worker(job):
    """job = (cls_name, depth, width, events); events = [(kind, w_en, w_data, r_en)]
    returns {"depth": f.depth, "obs": [obs0, obs1, ...]} or {"error": kind, "msg": ...}"""
    cls_name, depth, width, events = job
    try:
        from amaranth.hdl import Cat
        f, cdw, cdr, sim = _build(cls_name, depth, width)
    except Exception as e:  # noqa: BLE001
        return {"error": common.errkind(e), "msg": str(e)[:200]}
    out = {"depth": f.depth, "obs": []}

    async def tb(ctx):
        out["obs"].append(_obs(ctx, f))
        for kind, w_en, w_data, r_en in events:
            ctx.set(f.w_en, w_en)
            ctx.set(f.w_data, w_data)
            ctx.set(f.r_en, r_en)
            _edge(ctx, Cat, cdw, cdr, kind)
            out["obs"].append(_obs(ctx, f))

    try:
        sim.add_testbench(tb)
        sim.run()
    except Exception as e:  # noqa: BLE001
        return {"error": "sim:" + common.errkind(e), "msg": str(e)[:200]}
    return out


def design_worker(job):
    """several FIFOs in one design.  job = (specs, ndom, events)
    specs = [(cls_name, depth, width, index of the write domain, index of the read domain)]
    events = [(clock indices with an edge in this event, [(w_en, w_data, r_en) or None per FIFO])]; the inputs of a
    FIFO are driven only in the events that contain one of its clocks.
    returns {"depths": [...], "obs": [[obs of every FIFO] before the first and after every event]}"""
    specs, ndom, events = job
    try:
        from amaranth.hdl import Cat, Module, ClockDomain
        from amaranth.sim import Simulator
        m = Module()
        cds = []
        for j in range(ndom):
            cd = ClockDomain(f"clk{j}")
            m.domains += cd
            cds.append(cd)
        fifos = []
        for k, (cls_name, depth, width, wd, rd) in enumerate(specs):
            f = _cls(cls_name)(width=width, depth=depth, w_domain=f"clk{wd}", r_domain=f"clk{rd}")
            m.submodules[f"f{k}"] = f
            fifos.append(f)
        clks = Cat(*[cd.clk for cd in cds])
        sim = Simulator(m)
    except Exception as e:  # noqa: BLE001
        return {"error": common.errkind(e), "msg": str(e)[:200]}
    out = {"depths": [f.depth for f in fifos], "obs": []}

    async def tb(ctx):
        out["obs"].append([_obs(ctx, f) for f in fifos])
        for hit, inputs in events:
            for f, inp in zip(fifos, inputs):
                if inp is not None:
                    ctx.set(f.w_en, inp[0])
                    ctx.set(f.w_data, inp[1])
                    ctx.set(f.r_en, inp[2])
            ctx.set(clks, sum(1 << j for j in hit))
            ctx.set(clks, 0)
            out["obs"].append([_obs(ctx, f) for f in fifos])

    try:
        sim.add_testbench(tb)
        sim.run()
    except Exception as e:  # noqa: BLE001
        return {"error": "sim:" + common.errkind(e), "msg": str(e)[:200]}
    return out


def ctor_worker(job):
    """(cls_name, depth, exact) -> {"ctor": "ok"/errkind, "depth": d, "elab": "ok"/errkind}"""
    cls_name, depth, exact = job
    from amaranth.hdl import Fragment, Module, ClockDomain
    try:
        f = _cls(cls_name)(width=3, depth=depth, exact_depth=exact)
    except Exception as e:  # noqa: BLE001
        return {"ctor": common.errkind(e)}
    res = {"ctor": "ok", "depth": f.depth}
    try:
        m = Module()
        m.submodules.f = f
        m.domains.read = ClockDomain()
        m.domains.write = ClockDomain()
        Fragment.get(m, None).prepare()
        res["elab"] = "ok"
    except Exception as e:  # noqa: BLE001
        res["elab"] = common.errkind(e)
        res["msg"] = str(e)[:120]
    return res


def gray_tables(nmax):
    """the real _gray_encode/_gray_decode evaluated on every n-bit value"""
    from amaranth.hdl import Module, Signal
    from amaranth.sim import Simulator
    from amaranth.lib.fifo import _gray_encode, _gray_decode
    tabs = {}
    sigs = {n: Signal(n, name=f"g{n}") for n in range(1, nmax + 1)}
    sim = Simulator(Module())

    async def tb(ctx):
        for n, s in sigs.items():
            enc, dec = [], []
            for x in range(2 ** n):
                ctx.set(s, x)
                enc.append(ctx.get(_gray_encode(s)))
                dec.append(ctx.get(_gray_decode(s)))
            tabs[n] = (enc, dec)
    sim.add_testbench(tb)
    sim.run()
    return tabs


def _internals(cls_name, f, sim, depth_rows):
    """the registers of the model's state vector, in the order of the driver's encoding"""
    names = {}
    memd = None
    for frag, info in sim._design.fragments.items():
        for sig, name in info.signal_names.items():
            names.setdefault(tuple(info.name[1:]) + (name,), sig)
        if type(frag).__name__ == "MemoryInstance":
            memd = frag._data
    p = ("f",) if cls_name == "AsyncFIFO" else ("f", "unbuffered")
    # two signals of the (inner) AsyncFIFO are called r_rst: the synchroniser output (combinational) and the
    # output register; the register is the one that is not the synchroniser's `o`
    rst_comb = names[p + ("rst_cdc", "r_rst")]
    rst_reg = [s for k, s in names.items() if k[:-1] == p and k[-1].split("$")[0] == "r_rst" and s is not rst_comb]
    assert len(rst_reg) == 1
    inner = [names[p + ("produce_w_bin",)], names[p + ("produce_w_gry",)], names[p + ("consume_r_bin",)],
             names[p + ("consume_r_gry",)], names[p + ("produce_cdc", "stage0")], names[p + ("produce_cdc", "stage1")],
             names[p + ("consume_cdc", "stage0")], names[p + ("consume_cdc", "stage1")], names[p + ("consume_w_bin",)],
             names[p + ("w_level",)], names[p + ("r_port__data",)],
             names[p + ("rst_cdc", "stage0")], names[p + ("rst_cdc", "stage1")], rst_reg[0]]
    rows = [memd[i] for i in range(depth_rows)]
    if cls_name == "AsyncFIFO":
        return inner + rows
    q = ("f", "consume_buffered_cdc")
    outer = [f.r_data, f.r_rdy, f.r_level, f.r_rst, names[q + ("stage0",)], names[q + ("stage1",)], names[q + ("stage2",)],
             names[q + ("stage3",)]]
    return outer + inner + rows


def graph_worker(job):
    """job = (cls_name, depth, width, events, [(state, out, [succ...])]) -> list of mismatches"""
    cls_name, depth, width, events, items = job
    from amaranth.hdl import Cat
    try:
        f, cdw, cdr, sim = _build(cls_name, depth, width)
        inner_rows = f.depth if cls_name == "AsyncFIFO" else f.depth - 1
        regs = _internals(cls_name, f, sim, inner_rows)
    except Exception as e:  # noqa: BLE001
        return {"error": common.errkind(e), "msg": str(e)[:200]}
    bad = []
    n = [0]

    async def tb(ctx):
        def load(st):
            for r, v in zip(regs, st):
                ctx.set(r, v)

        def dump():
            return [ctx.get(r) for r in regs]
        for st, out, succs in items:
            load(st)
            if dump() != st:
                bad.append({"what": "state not loadable", "state": st, "impl": dump()})
                continue
            o = _obs(ctx, f)
            if o != out:
                bad.append({"what": "outputs", "state": st, "impl": o, "model": out})
            for (kind, w_en, w_data, r_en), exp in zip(events, succs):
                load(st)
                ctx.set(f.w_en, w_en)
                ctx.set(f.w_data, w_data)
                ctx.set(f.r_en, r_en)
                _edge(ctx, Cat, cdw, cdr, kind)
                got = dump()
                n[0] += 1
                if got != exp and len(bad) < 20:
                    bad.append({"what": "successor", "state": st, "event": [kind, w_en, w_data, r_en],
                                "impl": got, "model": exp})
    try:
        sim.add_testbench(tb)
        sim.run()
    except Exception as e:  # noqa: BLE001
        return {"error": "sim:" + common.errkind(e), "msg": str(e)[:200]}
    return {"bad": bad, "n": n[0]}


# ------------------------------------------------------------------------------------------------
# generators

def gen_walk(rng, width, steps, depth):
    evs = []
    prof = rng.choice(list(PROFILES))
    left = 0
    profs = []
    while len(evs) < steps:
        if left == 0:
            prof = rng.choice(list(PROFILES))
            left = rng.choice([3, 8, 20, 40, max(4, 2 * depth)])
            profs.append(prof)
        wts, pw, pr = PROFILES[prof]
        kind = rng.choices(KINDS, weights=wts)[0]
        evs.append((kind, int(rng.random() < pw), rng.getrandbits(width) if width else 0, int(rng.random() < pr)))
        left -= 1
    # writing stops: a few arbitrary edges without w_en, then the reader empties the queue
    for _ in range(rng.randint(3, 8)):
        evs.append((rng.choice(KINDS), 0, rng.getrandbits(width) if width else 0, int(rng.random() < 0.3)))
    for _ in range(depth + 4):
        evs.append((rng.choice(("R", "R", "B")), 0, 0, 1))
    return evs, profs


DESIGN_DEPTHS = [1, 2, 3, 4, 5, 8]
DESIGN_SHAPES = {
    # name: (number of FIFOs, sharing of clocks)
    "two FIFOs, four clocks": (2, "none"),
    "two FIFOs, one write clock, two read clocks": (2, "write"),
    "two FIFOs, two write clocks, one read clock": (2, "read"),
    "two FIFOs back to back (read clock of #0 = write clock of #1)": (2, "chain"),
    "three FIFOs, one write clock, three read clocks": (3, "write"),
    "three FIFOs, six clocks": (3, "none"),
}
DESIGN_RATES = ["all running", "read clock of the first-added FIFO stands still", "read clock of the first-added FIFO is slow",
                "read clock of the last-added FIFO stands still", "one random clock stands still"]


def gen_design(rng, built, steps):
    """a design of two or three FIFOs and a schedule over its clocks.  In every segment of the schedule the clocks have
    their own rates (one read clock idle or slow in most of them); writing starts at once."""
    shape = rng.choice(sorted(DESIGN_SHAPES))
    nf, share = DESIGN_SHAPES[shape]
    specs = []
    ndom = 0
    for k in range(nf):
        c = rng.choice(("AsyncFIFO", "AsyncFIFO", "AsyncFIFOBuffered"))
        d = rng.choice(DESIGN_DEPTHS)
        w = rng.choice([1, 4, 4])
        if share == "write" and k:
            wd = specs[0][3]
        elif share == "chain" and k:
            wd = specs[k - 1][4]
        else:
            wd = ndom; ndom += 1
        if share == "read" and k:
            rd = specs[0][4]
        else:
            rd = ndom; ndom += 1
        specs.append((c, d, w, wd, rd))
    events, rates_used = [], []
    left = 0
    while len(events) < steps:
        if left == 0:
            how = rng.choice(DESIGN_RATES) if events else rng.choice(DESIGN_RATES[1:3] + DESIGN_RATES[1:])
            rates_used.append(how)
            rate = [rng.choice([1, 1, 2, 4]) for _ in range(ndom)]
            if how == DESIGN_RATES[1]: rate[specs[0][4]] = 0
            elif how == DESIGN_RATES[2]: rate[specs[0][4]] = 0.1
            elif how == DESIGN_RATES[3]: rate[specs[-1][4]] = 0
            elif how == DESIGN_RATES[4]: rate[rng.randrange(ndom)] = 0
            if share == "read" and how in DESIGN_RATES[1:4] and rng.random() < 0.5:
                rate[specs[0][4]] = 1                        # the only read clock of the design
            pw, pr = rng.choice([(0.9, 0.3), (0.7, 0.7), (0.5, 0.9), (0.95, 0.1)])
            left = rng.choice([8, 20, 40, 60])
        hit = sorted(set(rng.choices(range(ndom), weights=rate, k=1 if rng.random() < 0.75 else rng.randint(2, ndom))))
        events.append((hit, [(int(rng.random() < pw), rng.getrandbits(w), int(rng.random() < pr))
                             if (wd in hit or rd in hit) else None for (_c, _d, w, wd, rd) in specs]))
        left -= 1
    # writing stops; every clock runs; the readers empty the queues
    tail = max(built[(c, d)][0] for c, d, *_ in specs) + 6
    for t in range(2 * tail * nf):
        hit = sorted(set(rng.choices(range(ndom), k=rng.choice([1, 2, ndom]))))
        events.append((hit, [(0, 0, int(t >= 6 or rng.random() < 0.3)) if (wd in hit or rd in hit) else None
                             for (_c, _d, w, wd, rd) in specs]))
    return shape, specs, ndom, events, rates_used


def project_fifo(spec, events, k):
    """the design's events as FIFO k sees them: ([(W|R|B, w_en, w_data, r_en)], [index of the design event])"""
    _c, _d, _w, wd, rd = spec
    evs, idx = [], []
    for j, (hit, inputs) in enumerate(events):
        kind = "B" if (wd in hit and rd in hit) else "W" if wd in hit else "R" if rd in hit else None
        if kind is not None:
            evs.append((kind,) + tuple(inputs[k]))
            idx.append(j)
    return evs, idx


def all_events(width):
    """canonical order of the driver's `allEvents`"""
    return [(k, w_en, d, r_en) for k in KINDS for w_en in (0, 1) for d in range(2 ** width) for r_en in (0, 1)]


def ints(s):
    return [int(x) for x in s.split(",")] if s else []


# ------------------------------------------------------------------------------------------------

def run(chk):
    if not chk.lean():
        chk.not_shown("Lean build of Properties/C13 failed", chk.build_log[-3000:])
        return
    rng = chk.rng
    quick = chk.tier == "quick"
    import time
    t_last = [chk.t0]
    phases = chk.extra.setdefault("phase_wall_s", {})

    def phase(name):
        now = time.time()
        phases[name] = round(now - t_last[0], 2)
        t_last[0] = now
    phase("lean build + audit")
    workers = min(16, os.cpu_count() or 4)
    mism = []           # impl != model with the Spec content: tie broken
    seen_f6 = set()
    pool = cf.ProcessPoolExecutor(workers)
    chk.cov["rule"] = (
        "gray tables: exhaustive n<=7. ctor: depths 0..70 x {AsyncFIFO, AsyncFIFOBuffered} x exact_depth (exhaustive). "
        "walks: per (class, depth in %s, width in %s) seeded event sequences over {W,R,B} x w_en x w_data x r_en drawn from "
        "%d strobe/clock-ratio profiles switched every 3..40 events, followed by a no-write tail and a read-out; distinct = "
        "distinct (class, depth, width, event list); non-trivial = at least one word accepted and one delivered. "
        "designs: 2-3 FIFOs of both classes in one simulated design (depths %s), %d clock-sharing shapes, per-segment clock "
        "rates with one read clock idle or slow, inputs of a FIFO driven in the events of its clocks; distinct / non-trivial "
        "as for walks, per FIFO. "
        "graph: every reachable model state x every event of the finite alphabet, loaded into the real registers."
        % (WALK_DEPTHS, WIDTHS, len(PROFILES), DESIGN_DEPTHS, len(DESIGN_SHAPES)))

    # -- 1. Gray helpers ---------------------------------------------------------------------------
    nmax = 7
    tabs = gray_tables(nmax)
    resp = chk.driver.ask([f"(graytab {n})" for n in range(1, nmax + 1)])
    for n, r in zip(range(1, nmax + 1), resp):
        kv = common.kv(r)
        chk.count(2 * 2 ** n)
        enc, dec = tabs[n]
        if enc != ints(kv["enc"]) or dec != ints(kv["dec"]):
            # spec: decode inverts encode, encode of successive values differs in one bit
            inv = all(dec[enc[x]] == x for x in range(2 ** n))
            onebit = all(bin(enc[x] ^ enc[(x + 1) % 2 ** n]).count("1") == 1 for x in range(2 ** n))
            if not (inv and onebit):
                chk.violation(f"_gray_encode/_gray_decode on {n} bits is not a Gray code / its inverse",
                              {"n": n, "enc": enc, "dec": dec})
            else:
                mism.append({"what": "gray tables", "n": n, "impl": [enc, dec], "model": [kv["enc"], kv["dec"]]})
    phase("gray tables")
    chk.extra.setdefault("exhaustive", {})["gray"] = f"_gray_encode/_gray_decode on all values of widths 1..{nmax}"

    # -- 2. constructor sweep ----------------------------------------------------------------------
    jobs = [(c, d, ex) for c in ("AsyncFIFO", "AsyncFIFOBuffered") for d in range(0, 71) for ex in (False, True)]
    resp = chk.driver.ask([f"(ctor {'async' if c == 'AsyncFIFO' else 'buffered'} {d} {int(ex)})" for c, d, ex in jobs])
    built = {}
    for (c, d, ex), r, im in zip(jobs, resp, pool.map(ctor_worker, jobs, chunksize=8)):
        kv = common.kv(r)
        chk.count()
        chk.distinct(("ctor", c, d, ex))
        chk.hist("ctor", f"{c}:{im['ctor']}:{im.get('elab', '-')}")
        spec = kv["spec"]
        impl_c = "ok," + str(im["depth"]) if im["ctor"] == "ok" else im["ctor"]
        model_c = "ok," + kv["depth"] if kv["model"] == "ok" else kv["model"]
        case = {"class": c, "depth": d, "exact_depth": ex, "impl": im, "model": r}
        if impl_c != spec:
            chk.violation(f"{c}(depth={d}, exact_depth={ex}): constructor gives {impl_c}, rounding rule says {spec}", case)
            continue
        if impl_c != model_c:
            mism.append({"what": "ctor", **case})
        if im["ctor"] != "ok":
            continue
        if not ex:
            built[(c, d)] = (int(kv["depth"]), int(kv["ctr"]))
        if im["elab"] != "ok":
            # spec: every constructible depth elaborates
            f6 = im["elab"] == "IndexError" and kv.get("elab_old") == "IndexError" and kv.get("elab") == "ok"
            if f6:
                seen_f6.add((c, d))
                case["classes"] = ["F6"]
            chk.violation(f"{c}(depth={d}, exact_depth={ex}) constructs (depth {im['depth']}) but does not elaborate: "
                          f"{im['elab']} {im.get('msg', '')}", case)
        elif kv.get("elab") != "ok":
            mism.append({"what": "elaborates but the model says it does not", **case})
    phase("constructor sweep")
    chk.extra["exhaustive"]["ctor"] = "depths 0..70 x 2 classes x exact_depth in {False, True}: error kind, depth attribute, elaboration"

    # -- 3. random walks ---------------------------------------------------------------------------
    per_cfg = 3 if quick else 24
    steps = 300 if quick else 1200
    def do_walks(jobs, meta, search=False, results=None, context=None, tag=""):
        """run the jobs on the real FIFOs (or take the observations `results` made in a larger design, `context[k]` then
        describes that design for the replay), ask the driver, decide; returns number of Spec violations found"""
        found = 0
        if results is None:
            results = list(pool.map(walk_worker, jobs, chunksize=2))
        reqs, idx = [], []
        for k, ((c, d, w, evs), res) in enumerate(zip(jobs, results)):
            mdepth, ctr = built[(c, d)]
            if "error" in res:
                if res["error"] == "IndexError" and (c, d) in seen_f6:
                    chk.hist("walks_skipped_F6", f"{c}:{d}")
                    continue
                found += 1
                chk.violation(f"{c}(depth={d}, width={w}) cannot be simulated: {res['error']} {res['msg']}",
                              {"class": c, "depth": d, "width": w, "error": res})
                continue
            if res["depth"] != mdepth:
                mism.append({"what": "depth attribute", "class": c, "depth": d, "impl": res["depth"], "model": mdepth})
                continue
            kind = "zero" if mdepth == 0 else ("async" if c == "AsyncFIFO" else "buffered")
            bound = 2 if c == "AsyncFIFO" else 3
            obs = res["obs"]
            line = f"(run {kind} {ctr} {w} {bound} ({' '.join(map(str, obs[0]))})" + "".join(
                f" ({e[0]} {e[1]} {e[2]} {e[3]} ({' '.join(map(str, o))}))" for e, o in zip(evs, obs[1:])) + ")"
            reqs.append(line)
            idx.append(k)
        resp = chk.driver.ask(reqs)
        for k, r in zip(idx, resp):
            c, d, w, evs = jobs[k]
            res = results[k]
            kv = common.kv(r)
            if "model" not in kv:
                raise common.Infra(f"driver: {r[:200]}")
            model = [ints(x) for x in kv["model"].split(";")]
            nw, nr = len(ints(kv.get("writes", ""))), len(ints(kv.get("reads", "")))
            chk.count(len(evs))
            chk.distinct((c, d, w, tuple(evs)), nontrivial=nw > 0 and nr > 0)
            chk.hist(tag + "depths", f"{c}:{res['depth']}")
            chk.hist(tag + "widths", w)
            for e in evs:
                chk.hist(tag + "events", e[0])
            for p in meta[k]:
                chk.hist(tag + "profiles", p)
            chk.hist(tag + "full_seen", any(o[0] == 0 for o in res["obs"]))
            chk.hist(tag + "words_per_walk", min(nw // 50 * 50, 500))
            replay = {"class": c, "depth": d, "width": w, "events": evs}
            if context is not None:
                replay["design"] = context[k]
            chk.sample({"class": c, "depth": d, "width": w, "events": evs[:12], "n_events": len(evs), "accepted": nw,
                        "delivered": nr})
            if kv["mspec"] != "ok":
                chk.not_shown("the model's own trace is rejected by the Spec monitor (theorem async_refines_queue2 contradicted?)",
                              {"verdict": kv["mspec"], **replay})
            if kv["spec"] != "ok":
                step, clauses = kv["spec"].split(":")
                step = int(step)
                replay.update({"events": evs[:step], "violated": clauses, "impl_obs": res["obs"][:step + 1][-4:]})
                found += 1
                chk.violation((f"{context[k]['where']}: " if context is not None else "") +
                              f"{c}(depth={d}, width={w}): after {step} clock events the outputs {res['obs'][step]} violate "
                              f"[{clauses}] of the two-sided queue", replay)
                continue
            if model != res["obs"] and not search:
                j = next(i for i, (a, b) in enumerate(zip(model, res["obs"])) if a != b)
                mism.append({"what": "outputs (w_rdy, r_rdy, r_data, w_level, r_level, r_rst)", "after_events": j,
                             "impl": res["obs"][j], "model": model[j], "class": c, "depth": d, "width": w, "events": evs[:j],
                             **({"design": context[k]} if context is not None else {})})
        return found

    jobs, meta = [], []
    for c in ("AsyncFIFO", "AsyncFIFOBuffered"):
        for d in WALK_DEPTHS:
            for w in WIDTHS:
                for _ in range(per_cfg):
                    evs, profs = gen_walk(rng, w, rng.choice([steps // 4, steps, steps]), built[(c, d)][0])
                    jobs.append((c, d, w, evs))
                    meta.append(profs)
    n_viol = do_walks(jobs, meta)

    # DESIGN 3: the tie is broken but no input fails the Spec yet -> search with a larger budget, biased towards the
    # configurations that differ, judged by the Spec alone
    walk_mism = [x for x in mism if "class" in x and "width" in x]
    if walk_mism and not n_viol:
        cfgs = sorted({(x["class"], x["depth"], x["width"]) for x in walk_mism})[:12]
        jobs, meta = [], []
        for c, d, w in cfgs:
            for _ in range(max(4, (4 * per_cfg * 60) // (len(cfgs) * 10))):
                evs, profs = gen_walk(rng, w, 2 * steps, built[(c, d)][0])
                jobs.append((c, d, w, evs))
                meta.append(profs)
        found = do_walks(jobs, meta, search=True)
        chk.extra["search"] = {"configurations": cfgs, "walks": len(jobs), "spec_violations_found": found}

    phase("random walks")

    # -- 3b. several FIFOs in one design -------------------------------------------------------------
    n_designs = int(os.environ.get("VERIF_C13_DESIGNS", "48" if quick else "600"))
    dsteps = 120 if quick else 400
    gens = [gen_design(rng, built, rng.choice([dsteps // 2, dsteps, dsteps])) for _ in range(n_designs)]
    dres = list(pool.map(design_worker, [(specs, ndom, events) for _sh, specs, ndom, events, _r in gens], chunksize=2))
    jobs, meta, results, context = [], [], [], []
    for (shape, specs, ndom, events, rates_used), res in zip(gens, dres):
        chk.hist("design_shape", shape)
        chk.hist("design_classes", " + ".join(sorted(c for c, *_ in specs)))
        chk.hist("design_distinct_read_clocks", len({rd for *_x, rd in specs}))
        for r in rates_used:
            chk.hist("design_clock_rates", r)
        desc = {"fifos": [{"class": c, "depth": d, "width": w, "w_domain": f"clk{wd}", "r_domain": f"clk{rd}"}
                          for c, d, w, wd, rd in specs], "clocks": ndom, "shape": shape}
        if "error" in res:
            if res["error"] == "IndexError" and any((c, d) in seen_f6 for c, d, *_ in specs):
                chk.hist("designs_skipped_F6", shape)
                continue
            chk.violation(f"a design of {len(specs)} asynchronous FIFOs ({shape}) cannot be simulated: {res['error']} {res['msg']}",
                          {"design": desc, "error": res})
            continue
        for k, spec in enumerate(specs):
            c, d, w, wd, rd = spec
            evs, idx = project_fifo(spec, events, k)
            obs = [o[k] for o in res["obs"]]
            part = set(idx)
            where = f"FIFO #{k} of {len(specs)} in one design ({shape})"
            stray = next((j for j in range(len(events)) if j not in part and obs[j + 1] != obs[j]), None)
            chk.hist("design_fifo_position", f"#{k}: {c}")
            if stray is not None:
                chk.count(stray + 1)
                chk.violation(f"{where}: {c}(depth={d}, width={w}) outputs go {obs[stray]} -> {obs[stray + 1]} at design event "
                              f"#{stray + 1} (edges of {['clk%d' % x for x in events[stray][0]]}), which has no edge of its "
                              f"clocks clk{wd} / clk{rd}",
                              {"design": desc, "fifo": k, "design_events": events[:stray + 1],
                               "outputs_of_all_fifos": res["obs"][max(0, stray - 3):stray + 2]})
                continue
            jobs.append((c, d, w, evs))
            meta.append([])
            results.append({"depth": res["depths"][k], "obs": [obs[0]] + [obs[j + 1] for j in idx]})
            context.append(dict(desc, fifo=k, where=where, design_events=events, projection=idx))
    n_viol += do_walks(jobs, meta, results=results, context=context, tag="design_")
    chk.extra["designs"] = {"designs": n_designs, "fifo_runs": len(jobs), "what": (
        "2-3 AsyncFIFO/AsyncFIFOBuffered instances in one simulated design (shapes: %s); each is compared with its own model "
        "and Spec monitor on the projection of the schedule onto its clocks" % "; ".join(sorted(DESIGN_SHAPES)))}

    phase("designs of several FIFOs")

    # -- 4. complete reachable graphs ---------------------------------------------------------------
    graphs = [("AsyncFIFO", 2, 0)] if quick else [("AsyncFIFO", 2, 0), ("AsyncFIFO", 2, 1), ("AsyncFIFOBuffered", 3, 0),
                                                  ("AsyncFIFOBuffered", 3, 1)]
    for c, d in (("AsyncFIFO", 1), ("AsyncFIFOBuffered", 2)):
        if (c, d) not in seen_f6:
            graphs += [(c, d, 0), (c, d, 1)] if not quick else [(c, d, 1)]
    for c, d, w in graphs:
        mdepth, ctr = built[(c, d)]
        kind = "async" if c == "AsyncFIFO" else "buffered"
        r = common.kv(chk.driver.ask([f"(reach {kind} {ctr} {w})"])[0])
        states = [ints(x) for x in r["states"].split(";")]
        sresp = chk.driver.ask([f"(succ {kind} {ctr} {w} ({' '.join(map(str, s))}))" for s in states])
        items = []
        for s, sr in zip(states, sresp):
            kv = common.kv(sr)
            items.append((s, ints(kv["out"]), [ints(x) for x in kv["succ"].split(";")]))
        evs = all_events(w)
        nchunk = max(1, min(workers * 2, len(items) // 50))
        chunks = [items[i::nchunk] for i in range(nchunk)]
        total = 0
        for res in pool.map(graph_worker, [(c, d, w, evs, ch) for ch in chunks]):
            if "error" in res:
                mism.append({"what": f"reachable graph of {c}(depth={d}, width={w}): registers not accessible", "error": res})
                break
            total += res["n"]
            for b in res["bad"]:
                mism.append({"class": c, "depth": d, "width": w, **b})
        chk.count(total)
        chk.distinct(("graph", c, d, w))
        chk.extra["exhaustive"][f"graph {c} depth={d} width={w}"] = (
            f"{len(states)} reachable states x {len(evs)} events = {total} transitions: successor registers+storage and outputs")

    pool.shutdown()
    phase("reachable graphs")

    # -- decision -----------------------------------------------------------------------------------
    if mism:
        chk.not_shown("implementation and model part ways although the Spec accepts the implementation's behaviour "
                      f"({len(mism)} cases)", mism[:10])
    chk.assumptions += [
        "write-domain reset held low; only the power-on transient of the reset synchroniser (r_rst high for two read edges) is exercised",
        "Python simulator semantics of hand-toggled clocks: registers of both domains sample pre-edge values on a coincident edge",
        "metastability is outside the simulator and the model: synchroniser stages are plain registers",
        "graph tier reads/writes internal registers by their names in the elaborated design",
        "designs of several FIFOs: rising-edge domains declared by the top level, no domain is both clocks of one FIFO, "
        "domain resets held low; the property's quantifier is over clock interleavings and strobe/data sequences, not over "
        "domain resets (read-/write-domain reset behaviour of AsyncFIFO is not decided here; FFSynchronizer's reset_less "
        "stages are C17's)",
    ]
