"""C11 - memories behave as arrays of rows under any port configuration.

Correspondence of lean/AmaranthVerif/Model/Memory.lean (+ Spec/MemoryRows.lean) with the real
`amaranth.lib.memory.Memory` in amaranth's Python simulator. Four streams, all against `amodel_c11`:

1. python     Python's `(value & mask) | (old & ~mask)` and `Cat(bit.replicate(g) ...)` against the model's
              `pyMerge` / `replMask` (the two integer primitives the model takes from CPython).
2. ctor       `write_port(granularity=...)` over row shapes x granularities (width of `en`, error kind),
              `MemoryData` depth / init length, `read_port(transparent_for=...)` rejections, asynchronous
              write ports: error kinds against the model of the constructors (the malformed stream); whole
              constructor sequences against `Mem.mkCfg` (what `ctor_wf` / `inv_init` quantify over).
3. walks      real memories (unsigned / signed / struct / array rows, depths 0 1 2 3 5 8, 0-3 read x 0-3 write
              ports, comb / sync, 1-3 hand-driven clock domains with pos/neg edges and none/sync/async resets,
              every transparency subset the constructor allows, granularity over the divisors of the width,
              optionally wrapped in DomainRenamer / ResetInserter / EnableInserter; renamer maps include swaps,
              chains and rotations over the 1-3 clock domains, evaluated by the model's `Cfg.rename`). Random address / data /
              enable sequences, coincident clock edges, reset pulses, testbench row writes
              `ctx.set(mem.data[i], v)` and slice writes interleaved, among them accesses to rows that do
              not exist (`i` = depth, beyond, negative: `IndexError` expected, state untouched — the model's
              `tbSet`). After every operation every read
              port's `data` and **all rows** (`ctx.get(mem.data[i])`) are observed. Every operation is then
              evaluated by the driver *from the state observed before it*: Model (`Mem.step`), Spec
              (`MemRows.step` on `absState`) and the pre-repair model (`Mem.stepOld`, finding F22).
              After every walk the declared initial contents are looked at again: `list(mem.init)`, all rows and read
              ports after `Simulator.reset()`, and (every second walk) the state a second Simulator on the same design
              object starts from - all compared with the declared contents the driver derives from the configuration.
4. graph      small configurations (depth <= 2, width <= 2, <= 2 ports): every state (all row contents x all
              read-register contents; every one is reachable through testbench row writes and captures) x
              every input valuation x every clock event, loaded into the real memory and stepped once.

impl != spec where the Spec is defined (no two ports hit one bit of a row; read in range)  -> chk.violation
   (classes=["F22"] when the observation is exactly what `stepOld` predicts: the domain reset cleared a read port)
impl == spec there, but impl != model somewhere                                           -> chk.not_shown
Rows hit by two write ports of *different* clock domains at coincident edges are not compared (the outcome
depends on the order in which the simulator runs the two domain processes: C08's subject).

F22 (fixed in /repo, a992225): the simulator loaded the initial value into a read port's `data` whenever the domain's
reset was asserted; reproducer prelim/repro/c11_f22_reset_clears_read_port.py. `./check C11 --replay <file>` loads the
recorded state into a real memory, applies the recorded operation and prints implementation / Model / Spec.
"""
import concurrent.futures as cf
import itertools
import os
import time

from .. import common

LEVEL = "proof"
EXE = "amodel_c11"

DEPTHS = (0, 1, 2, 3, 5, 8)
DOM_NAMES = ("a", "b", "c")
EXTRA_NAMES = ("x", "y")          # domain names that exist only below a DomainRenamer


def name_index(cfg, name):
    """domains as numbers for the driver: the clock domains of the design first, then the names only a renamer knows"""
    nd = len(cfg["doms"])
    return DOM_NAMES.index(name) if name in DOM_NAMES[:nd] else nd + EXTRA_NAMES.index(name)


# ------------------------------------------------------------------------------------------------
# abstract configuration -> numbers for the driver (no amaranth involved)

def shape_width(sh):
    k = sh[0]
    if k in ("u", "s"):
        return sh[1]
    if k == "struct":
        return sum(w for _n, w, _s in sh[1])
    if k == "array":
        return sh[1] * sh[2]
    if k == "dstruct":
        return sum(w for _n, w, _s, _d in sh[1])
    if k == "dunion":
        return max(w for _n, w, _s, _d in sh[1])
    if k == "custom":
        return sh[1]
    raise ValueError(sh)


def shape_signed(sh):
    return sh[0] == "s" or (sh[0] == "custom" and sh[2])


def shape_castable(sh):
    """is the row shape a ShapeCastable object (rows missing from `init` then hold `shape.const(None)`)"""
    return sh[0] not in ("u", "s")


def shape_default(sh):
    """The bit pattern (unsigned) of a row that `init` does not mention, from the abstract description alone:
    0 for plain shapes and for layouts (a layout has no field defaults); for a `data.Struct` class every field's
    default (two's complement, field width) at the field's offset = sum of the widths of the fields declared
    before it; for a `data.Union` class the one default at offset 0; for the custom shape-castable its declared
    default. amaranth is not consulted."""
    k = sh[0]
    if k == "dstruct":
        v, off = 0, 0
        for _n, w, _s, d in sh[1]:
            if d is not None:
                v |= (d & ((1 << w) - 1)) << off
            off += w
        return v
    if k == "dunion":
        v = 0
        for _n, w, _s, d in sh[1]:
            if d is not None:
                v |= d & ((1 << w) - 1)
        return v
    if k == "custom":
        return sh[3] & ((1 << sh[1]) - 1)
    return 0


def kind_sexp(sh):
    k = sh[0]
    if k in ("u", "s"):
        return f"(plain {sh[1]} {k})"
    if k == "array":
        return f"(array {sh[1]} {sh[2]})"
    return f"(castable {shape_width(sh)})"


def gran_sexp(g):
    if g is None:
        return "none"
    if isinstance(g, int) and not isinstance(g, bool):
        return str(g)
    return "other"


def norm_row(v, width, signed):
    v &= (1 << width) - 1
    if signed and width and v >> (width - 1):
        v -= 1 << width
    return v


def full_init(cfg):
    """the declared initial contents, one integer per row: the entries of `init` (an explicit `None` is the row
    shape's default), then the default for every row `init` does not reach"""
    w, s = shape_width(cfg["shape"]), shape_signed(cfg["shape"])
    dflt = shape_default(cfg["shape"])
    rows = [norm_row(dflt if v is None else v, w, s) for v in cfg["init"]]
    return rows + [norm_row(dflt, w, s)] * (cfg["depth"] - len(rows))


def rd_init(cfg):
    """initial value of every read port's `data`: a `Signal(shape)`, which starts with the shape's default"""
    w, s = shape_width(cfg["shape"]), shape_signed(cfg["shape"])
    return [norm_row(shape_default(cfg["shape"]), w, s) for _ in cfg["rds"]]


def cfg_sexp(cfg, wr_model):
    """wr_model: [(gran_bits, enw)] as computed by the *model* of the constructor"""
    sh = cfg["shape"]
    doms = " ".join(f"({'p' if d['edge'] == 'pos' else 'n'} {d['rst']})" for d in cfg["doms"])
    ren = ""
    if cfg.get("rename") is not None:
        # under a DomainRenamer the driver gets the domains the ports were *declared* in and the renamer's map (entries
        # in dictionary order); where every port ends up is the model's business (`Cfg.rename`)
        pdom = lambda p: name_index(cfg, p["decl"])
        ren = " (rename " + " ".join(f"({name_index(cfg, a)} {name_index(cfg, b)})" for a, b in cfg["rename"]) + ")"
    else:
        pdom = lambda p: p["dom"]
    rds = " ".join(f"({-1 if r['dom'] is None else pdom(r)} ({' '.join(map(str, r['transp']))}))" for r in cfg["rds"])
    wrs = " ".join(f"({pdom(w)} {g} {n})" for w, (g, n) in zip(cfg["wrs"], wr_model))
    return (f"(cfg {shape_width(sh)} {'s' if shape_signed(sh) else 'u'} {cfg['depth']} ({' '.join(map(str, full_init(cfg)))}) "
            f"(doms {doms}) (rds {rds}) (wrs {wrs}) (rdinit {' '.join(map(str, rd_init(cfg)))}){ren})")


def state_sexp(rows, rd, clk, rst):
    j = lambda xs: " ".join(str(int(x)) for x in xs)
    return f"(state ({j(rows)}) ({j(rd)}) ({j(clk)}) ({j(rst)}))"


def inputs_sexp(wr, rd):
    return ("(wr " + " ".join(f"({a} {d} {e})" for a, d, e in wr) + ") (rd " +
            " ".join(f"({a} {e})" for a, e in rd) + ")")


def effective(cfg, op):
    """EnableInserter maps the port enables: read `en & ce`, write `Mux(ce, en, 0)` (hdl/_xfrm.py)"""
    wr, rd = op["wr"], op["rd"]
    if cfg.get("wrap") != "enable":
        return wr, rd
    ce = op["ce"]
    wr = [(a, d, e if ce[w["dom"]] else 0) for (a, d, e), w in zip(wr, cfg["wrs"])]
    rd = [(a, e if (r["dom"] is None or ce[r["dom"]]) else 0) for (a, e), r in zip(rd, cfg["rds"])]
    return wr, rd


# ------------------------------------------------------------------------------------------------
# amaranth side (runs in worker processes; no randomness in here)

def _mk_shape(sh):
    from amaranth.hdl import unsigned, signed
    from amaranth.lib import data
    k = sh[0]
    if k == "u":
        return unsigned(sh[1])
    if k == "s":
        return signed(sh[1])
    if k == "struct":
        return data.StructLayout({n: (signed(w) if s else unsigned(w)) for n, w, s in sh[1]})
    if k == "array":
        return data.ArrayLayout(unsigned(sh[1]), sh[2])
    if k in ("dstruct", "dunion"):
        # a `data.Struct` / `data.Union` class written the way a user writes it: annotations with default values
        key = repr(sh)
        if key not in _CLASS_CACHE:
            base = "Struct" if k == "dstruct" else "Union"
            body = "".join(f"    {n}: {'signed' if s else 'unsigned'}({w})" + ("" if d is None else f" = {d}") + "\n"
                           for n, w, s, d in sh[1])
            ns = {"data": data, "signed": signed, "unsigned": unsigned}
            exec(f"class Row(data.{base}):\n{body}", ns)
            _CLASS_CACHE[key] = ns["Row"]
        return _CLASS_CACHE[key]
    if k == "custom":
        return _custom_cls()(sh[1], sh[2], sh[3])
    raise ValueError(sh)


_CLASS_CACHE = {}


def _custom_cls():
    """a user-defined shape-castable whose `const(None)` is a declared default (no layout involved)"""
    if "custom" not in _CLASS_CACHE:
        from amaranth.hdl import Shape, Const, Format
        from amaranth.hdl._ast import ShapeCastable

        class CustomRow(ShapeCastable):
            def __init__(self, width, signed, default):
                self.width, self.signed, self.default = width, signed, default

            def as_shape(self):
                return Shape(self.width, self.signed)

            def const(self, init):
                if isinstance(init, Const):
                    init = init.value
                return Const(self.default if init is None else init, self.as_shape())

            def from_bits(self, bits):
                return Const(bits, self.as_shape())

            def __call__(self, target):
                return target

            def format(self, value, spec):
                return Format("{}", value)
        _CLASS_CACHE["custom"] = CustomRow
    return _CLASS_CACHE["custom"]


def _build(cfg):
    from amaranth.hdl import Module, ClockDomain, Signal, Value, DomainRenamer, ResetInserter, EnableInserter
    from amaranth.hdl._ast import ShapeCastable
    from amaranth.lib.memory import Memory
    shape = _mk_shape(cfg["shape"])
    castable = isinstance(shape, ShapeCastable)
    init = ([None if v is None else shape.from_bits(v & ((1 << shape_width(cfg["shape"])) - 1)) for v in cfg["init"]]
            if castable else list(cfg["init"]))
    mem = Memory(shape=shape, depth=cfg["depth"], init=init)
    wrap = cfg.get("wrap")
    # under a DomainRenamer every port is created in the domain it is *declared* in
    pname = (lambda p: p["decl"]) if wrap == "rename" else (lambda p: DOM_NAMES[p["dom"]])
    wps = [mem.write_port(domain=pname(w), granularity=w["gran"]) for w in cfg["wrs"]]
    rps = [mem.read_port(domain="comb" if r["dom"] is None else pname(r),
                         transparent_for=[wps[i] for i in r["transp"]]) for r in cfg["rds"]]
    m = Module()
    cds = []
    for k, d in enumerate(cfg["doms"]):
        cd = ClockDomain(DOM_NAMES[k], clk_edge=d["edge"], reset_less=d["rst"] == "none", async_reset=d["rst"] == "async")
        m.domains += cd
        cds.append(cd)
    ctl = [Signal(name=f"ctl_{DOM_NAMES[k]}") for k in range(len(cds))]
    top = mem
    if wrap == "rename":
        top = DomainRenamer({a: b for a, b in cfg["rename"]})(mem)
    elif wrap == "reset":
        top = ResetInserter({DOM_NAMES[k]: ctl[k] for k in range(len(cds))})(mem)
    elif wrap == "enable":
        top = EnableInserter({DOM_NAMES[k]: ctl[k] for k in range(len(cds))})(mem)
    m.submodules.mem = top
    return m, mem, wps, rps, cds, ctl, castable


def _row_int(x):
    from amaranth.hdl import Const
    return x if isinstance(x, int) else Const.cast(x).value


class _Tb:
    """drives one real memory; remembers what it last wrote to every input so that only changes are set"""

    def __init__(self, cfg):
        from amaranth.hdl import Value, Cat
        from amaranth.sim import Simulator
        self.cfg = cfg
        self.m, self.mem, self.wps, self.rps, self.cds, self.ctl, self.castable = _build(cfg)
        self.Cat = Cat
        self.V = Value.cast
        self.sim = Simulator(self.m)
        self.depth = cfg["depth"]
        self.width = shape_width(cfg["shape"])
        self.clk = [0] * len(self.cds)
        self.rst = [0] * len(self.cds)
        self.cur = {}
        self.shape = self.mem.shape

    def observe(self, ctx):
        rows = [_row_int(ctx.get(self.mem.data[i])) for i in range(self.depth)]
        rd = [ctx.get(self.V(rp.data)) for rp in self.rps]
        return rows, rd

    def _set(self, ctx, key, sig, val):
        if self.cur.get(key) != val:
            ctx.set(sig, val)
            self.cur[key] = val

    def inputs(self, ctx, op):
        for k, (wp, (a, d, e)) in enumerate(zip(self.wps, op["wr"])):
            self._set(ctx, ("wa", k), wp.addr, a)
            self._set(ctx, ("wd", k), self.V(wp.data), d)
            self._set(ctx, ("we", k), wp.en, e)
        for k, (rp, (a, e)) in enumerate(zip(self.rps, op["rd"])):
            self._set(ctx, ("ra", k), rp.addr, a)
            if rp.domain != "comb":
                self._set(ctx, ("re", k), rp.en, e)
        if "ce" in op:
            for k, v in enumerate(op["ce"]):
                self._set(ctx, ("ce", k), self.ctl[k], v)

    def event(self, ctx, clk, rst):
        sigs, bits = [], 0
        for k, cd in enumerate(self.cds):
            if clk[k] != self.clk[k]:
                bits |= clk[k] << len(sigs)
                sigs.append(cd.clk)
            if cd.rst is not None and rst[k] != self.rst[k]:
                bits |= rst[k] << len(sigs)
                sigs.append(cd.rst)
        if sigs:
            ctx.set(self.Cat(*sigs), bits)      # all changes in one delta: coincident edges
        self.clk, self.rst = list(clk), list(rst)

    def tbw(self, ctx, op):
        i, start, stop, v = op["i"], op["start"], op["stop"], op["v"]
        row = self.mem.data[i]
        if op["whole"]:
            ctx.set(row, self.shape.from_bits(v) if self.castable else v)
        else:
            ctx.set(self.V(row)[start:stop], v)

    def load(self, ctx, rows, rd):
        for i, v in enumerate(rows):
            ctx.set(self.V(self.mem.data[i]), v)
        for rp, r, v in zip(self.rps, self.cfg["rds"], rd):
            if r["dom"] is not None:
                ctx.set(self.V(rp.data), v)


def walk_worker(job):
    """job = (cfg, ops[, second]) -> {"enw": [...], "obs": [(rows, rd), ...]} | {"error": kind}
    With the third element present, the declared initial contents are looked at again after the walk ("after"):
    `list(mem.init)`, every row and read port after `sim.reset()`, and (if `second`) the state a second Simulator built on
    the same design object starts from."""
    cfg, ops, *more = job
    try:
        t = _Tb(cfg)
    except Exception as e:  # noqa: BLE001
        return {"error": "build:" + common.errkind(e), "msg": str(e)[:200]}
    out = {"enw": [len(wp.en) for wp in t.wps], "abits": [len(p.addr) for p in t.wps + t.rps], "obs": []}
    again = [False]

    async def tb(ctx):
        if again[0]:            # the run after Simulator.reset(): only look
            out["after"]["reset"] = t.observe(ctx)
            return
        out["obs"].append(t.observe(ctx))
        for op in ops:
            t.inputs(ctx, op)
            if op["op"] == "ev":
                t.event(ctx, op["clk"], op["rst"])
            else:
                try:
                    t.tbw(ctx, op)
                    out["tberr"].append(None)
                except Exception as e:  # noqa: BLE001     (a row that does not exist: IndexError expected)
                    out["tberr"].append(common.errkind(e))
            out["obs"].append(t.observe(ctx))
    out["tberr"] = []
    try:
        t.sim.add_testbench(tb)
        t.sim.run()
    except Exception as e:  # noqa: BLE001
        return {"error": "sim:" + common.errkind(e), "msg": str(e)[:200], **out}
    if more:
        out["after"] = after = {}
        try:
            # a row of a shape-castable memory that `init` never mentioned reads as None (= the row shape's default)
            after["init"] = [None if x is None else _row_int(x) for x in list(t.mem.init)]
        except Exception as e:  # noqa: BLE001
            after["init_error"] = common.errkind(e) + ": " + str(e)[:200]
        try:
            again[0] = True
            t.sim.reset()
            t.sim.run()
        except Exception as e:  # noqa: BLE001
            after["reset_error"] = common.errkind(e) + ": " + str(e)[:200]
        if more[0]:
            from amaranth.sim import Simulator
            try:
                sim2 = Simulator(t.m)

                async def tb2(ctx):
                    after["second"] = t.observe(ctx)
                sim2.add_testbench(tb2)
                sim2.run()
            except Exception as e:  # noqa: BLE001
                after["second_error"] = common.errkind(e) + ": " + str(e)[:200]
    return out


def graph_worker(job):
    """job = (cfg, states, inputs, events); every state x input x event from clk=rst=0.
    -> {"post": [[(rows, rd) per event] per input] per state}"""
    cfg, states, inputs, events = job
    try:
        t = _Tb(cfg)
    except Exception as e:  # noqa: BLE001
        return {"error": "build:" + common.errkind(e), "msg": str(e)[:200]}
    nd = len(cfg["doms"])
    idle = [0 if d["edge"] == "pos" else 1 for d in cfg["doms"]]
    post = []

    async def tb(ctx):
        t.event(ctx, idle, [0] * nd)
        for rows, rd in states:
            ps = []
            for inp in inputs:
                t.inputs(ctx, inp)
                pe = []
                for clk in events:
                    t.load(ctx, rows, rd)
                    t.event(ctx, clk, [0] * nd)
                    pe.append(t.observe(ctx))
                    t.event(ctx, idle, [0] * nd)        # inactive edge
                ps.append(pe)
            post.append(ps)
    try:
        t.sim.add_testbench(tb)
        t.sim.run()
    except Exception as e:  # noqa: BLE001
        return {"error": "sim:" + common.errkind(e), "msg": str(e)[:200]}
    return {"post": post, "enw": [len(wp.en) for wp in t.wps]}


def ctor_worker(job):
    """constructor probes; returns an error kind or 'ok…'"""
    what = job[0]
    from amaranth.lib.memory import Memory
    from amaranth.hdl import MemoryData
    try:
        if what == "enw":
            _w, sh, gran = job
            mem = Memory(shape=_mk_shape(sh), depth=4, init=[])
            wp = mem.write_port(granularity=gran)
            from amaranth.hdl import Fragment
            inst = mem.elaborate(None)
            return f"ok enw={len(wp.en)} gran={inst._write_ports[0]._granularity}"
        if what == "initchk":
            _w, depth, n = job
            MemoryData(shape=4, depth=depth, init=[0] * n)
            return "ok"
        if what == "wrchk":
            _w, dom = job
            Memory(shape=4, depth=2, init=[]).write_port(domain="comb" if dom < 0 else DOM_NAMES[dom])
            return "ok"
        if what == "rdchk":
            _w, dom, items = job
            mem, other = Memory(shape=4, depth=2, init=[]), Memory(shape=4, depth=2, init=[])
            tf = []
            for it in items:
                if it == "x":
                    tf.append(object())
                else:
                    same, d = it
                    tf.append((mem if same else other).write_port(domain=DOM_NAMES[d]))
            mem.read_port(domain="comb" if dom < 0 else DOM_NAMES[dom], transparent_for=tf)
            return "ok"
        if what == "mkcfg":
            # the whole constructor sequence: Memory(...), write_port(...)..., read_port(...)...
            _w, sh, depth, ninit, wrs, rds = job
            mem = Memory(shape=_mk_shape(sh), depth=depth, init=[_mk_shape(sh).from_bits(0) if shape_castable(sh) else 0] * ninit)
            other = Memory(shape=_mk_shape(sh), depth=depth, init=[])
            wps = [mem.write_port(domain="comb" if d < 0 else DOM_NAMES[d], granularity=g) for d, g in wrs]
            stray = {}
            for d, tr in rds:
                tf = []
                for j in tr:
                    if j < len(wps):
                        tf.append(wps[j])
                    else:       # not a write port of this memory
                        tf.append(stray.setdefault(j, other.write_port(domain=DOM_NAMES[0])))
                mem.read_port(domain="comb" if d < 0 else DOM_NAMES[d], transparent_for=tf)
            inst = mem.elaborate(None)
            ws = ",".join(f"{DOM_NAMES.index(p._domain)}:{p._granularity}:{len(p._en)}" for p in inst._write_ports)
            return f"ok wrs={ws} rows={len(list(mem.data.init))} rd={len(inst._read_ports)}"
        if what == "abits":
            _w, depth = job
            mem = Memory(shape=1, depth=depth, init=[])
            return str(len(mem.read_port().addr))
    except Exception as e:  # noqa: BLE001
        return common.errkind(e)
    return "?"


# ------------------------------------------------------------------------------------------------
# generators

def divisors(n):
    return [g for g in range(1, n + 1) if n % g == 0]


def gen_field_default(rng, w, signed):
    lo, hi = (-(1 << (w - 1)), (1 << (w - 1)) - 1) if signed else (0, (1 << w) - 1)
    r = rng.random()
    return hi if r < 0.3 else (lo if r < 0.45 else rng.randint(lo, hi))


def gen_shape(rng):
    r = rng.random()
    if r < 0.40:
        return ("u", rng.choice([0, 1, 2, 3, 4, 6, 8, 12]))
    if r < 0.57:
        return ("s", rng.choice([1, 2, 3, 4, 8]))
    if r < 0.69:
        n = rng.randint(1, 3)
        return ("struct", tuple((f"f{i}", rng.choice([1, 2, 3, 4]), rng.random() < 0.4) for i in range(n)))
    if r < 0.84:
        return ("array", rng.choice([0, 1, 2, 3]), rng.choice([0, 1, 2, 4, 6]))
    # shape-castables whose default constant need not be zero: rows that `init` leaves out start with it
    if r < 0.94:
        n = rng.randint(1, 4)
        fields = []
        for i in range(n):
            w, sg = rng.choice([1, 2, 3, 4, 5]), rng.random() < 0.35
            fields.append((f"f{i}", w, sg, gen_field_default(rng, w, sg) if rng.random() < 0.7 else None))
        return ("dstruct", tuple(fields))
    if r < 0.97:
        n = rng.randint(1, 3)
        which = rng.randrange(n + 1)            # at most one member of a union may have a default
        fields = []
        for i in range(n):
            w, sg = rng.choice([1, 2, 3, 4, 6]), rng.random() < 0.35
            fields.append((f"f{i}", w, sg, gen_field_default(rng, w, sg) if i == which else None))
        return ("dunion", tuple(fields))
    w, sg = rng.choice([1, 2, 3, 4, 8]), rng.random() < 0.4
    return ("custom", w, sg, gen_field_default(rng, w, sg))


def gran_options(sh):
    """granularities the constructor accepts for this row shape (None always)"""
    k = sh[0]
    if k == "u":
        return [None] + (divisors(sh[1]) if sh[1] else [0, 1, 3])
    if k == "array":
        return [None] + (divisors(sh[2]) if sh[2] else [0, 2])
    return [None]


def gen_cfg(rng, depth=None, max_ports=3):
    sh = gen_shape(rng)
    depth = rng.choice(DEPTHS) if depth is None else depth
    w = shape_width(sh)
    nd = rng.choice([1, 1, 2, 2, 2, 3])
    doms = [{"edge": rng.choice(["pos", "pos", "neg"]), "rst": rng.choice(["sync", "sync", "none", "async"])} for _ in range(nd)]
    nw = rng.choice([0, 1, 1, 2, 2, 3][:2 * max_ports])
    nr = rng.choice([0, 1, 1, 2, 2, 3][:2 * max_ports])
    wrs = [{"dom": rng.randrange(nd), "gran": rng.choice(gran_options(sh))} for _ in range(nw)]
    rds = []
    for _ in range(nr):
        dom = None if rng.random() < 0.3 else rng.randrange(nd)
        cand = [i for i, x in enumerate(wrs) if dom is not None and x["dom"] == dom]
        # every subset of the same-domain write ports, in a random order (the constructor keeps the order)
        sub = [i for i in cand if rng.random() < 0.6]
        rng.shuffle(sub)
        rds.append({"dom": dom, "transp": sub})
    ninit = rng.choice([0, depth, rng.randint(0, depth)])
    init = [rng.getrandbits(w) if w else 0 for _ in range(ninit)]
    if shape_signed(sh):
        init = [norm_row(v, w, True) for v in init]
    if shape_castable(sh):
        # an explicit `None` in `init` asks for the shape's default as well
        init = [None if rng.random() < 0.15 else v for v in init]
    wrap = rng.choice([None, None, None, None, "rename", "rename", "reset", "enable"])
    cfg = {"shape": sh, "depth": depth, "init": init, "doms": doms, "wrs": wrs, "rds": rds, "wrap": wrap}
    if wrap == "rename":
        gen_rename(rng, cfg)
    return cfg


RENAME_SHAPES = {
    # shape -> entries in dictionary order; a, b, c: clock domains of the design (a random permutation), x, y: names that
    # exist only below the renamer. "overlap": some target is also a source listed later in the dictionary - renaming the
    # ports one entry after the other instead of all at once would move a port twice
    1: [("fresh", [("x", "a")]), ("fresh", [("x", "a"), ("y", "a")]), ("identity", [("a", "a"), ("x", "a")])],
    2: [("fresh", [("x", "a"), ("y", "b")]), ("swap", [("a", "b"), ("b", "a")]), ("swap", [("a", "b"), ("b", "a")]),
        ("chain:source-first", [("x", "a"), ("a", "b")]), ("chain:source-first", [("y", "b"), ("x", "y"), ("b", "a")]),
        ("chain:target-first", [("a", "b"), ("x", "a")]), ("swap+fresh", [("x", "b"), ("a", "b"), ("b", "a")]),
        ("merge", [("a", "b"), ("x", "b")]), ("rotation:through-fresh", [("x", "a"), ("a", "b"), ("b", "a")])],
    3: [("swap", [("a", "b"), ("b", "a")]), ("chain:source-first", [("a", "b"), ("b", "c")]),
        ("chain:source-first", [("x", "a"), ("a", "b"), ("b", "c")]), ("chain:target-first", [("b", "c"), ("a", "b")]),
        ("rotation", [("a", "b"), ("b", "c"), ("c", "a")]), ("rotation", [("a", "b"), ("b", "c"), ("c", "a")]),
        ("rotation:listed-backwards", [("c", "a"), ("b", "c"), ("a", "b")]), ("fresh", [("x", "a"), ("y", "c")]),
        ("swap+move", [("a", "b"), ("b", "a"), ("c", "a")])],
}


def gen_rename(rng, cfg):
    """put the memory under a DomainRenamer: choose the map, declare every port in a domain name that the map (read as
    Python reads a dictionary: one lookup per port) sends to a clock domain of the design, keep transparency lists
    within one declared domain (the constructor's rule). `dom` of a port is the harness' own bookkeeping of where the
    port ends up (which events are interesting, EnableInserter-free); the expected behaviour comes from the driver,
    which gets the declared domains and the map, and whose answer must agree with this bookkeeping."""
    nd = len(cfg["doms"])
    shape, entries = rng.choice(RENAME_SHAPES[nd])
    perm = rng.sample(DOM_NAMES[:nd], nd)
    sub = dict(zip("abc", perm))
    entries = [(sub.get(a, a), sub.get(b, b)) for a, b in entries]
    mp = dict(entries)
    real = DOM_NAMES[:nd]
    declarable = [n for n in list(mp) + [r for r in real if r not in mp] if mp.get(n, n) in real]
    for w in cfg["wrs"]:
        w["decl"] = rng.choice(declarable)
        w["dom"] = real.index(mp.get(w["decl"], w["decl"]))
    for r in cfg["rds"]:
        if r["dom"] is None:
            continue
        r["decl"] = rng.choice(declarable)
        r["dom"] = real.index(mp.get(r["decl"], r["decl"]))
        cand = [i for i, x in enumerate(cfg["wrs"]) if x["decl"] == r["decl"]]
        sub_t = [i for i in cand if rng.random() < 0.6]
        rng.shuffle(sub_t)
        r["transp"] = sub_t
    cfg["rename"] = [list(e) for e in entries]
    cfg["rename_shape"] = shape


def en_width_guess(cfg, w):
    """number of enable bits the *generator* draws for a write port; the real width is checked against the model"""
    sh = cfg["shape"]
    g = w["gran"]
    if g is None:
        return 1
    if sh[0] == "u":
        return sh[1] // g if sh[1] else 0
    if sh[0] == "array":
        return sh[2] // g if sh[2] else 0
    return 1


def gen_ops(rng, cfg, n):
    depth, w = cfg["depth"], shape_width(cfg["shape"])
    abits = (depth - 1).bit_length() if depth else 0
    nd = len(cfg["doms"])
    clk, rst = [0] * nd, [0] * nd
    hot = [rng.randrange(1 << abits) for _ in range(2)]
    style = rng.choice(["random", "hot", "hot", "same"])
    ops = []
    wr = [(0, 0, 0)] * len(cfg["wrs"])
    rd = [(0, 1)] * len(cfg["rds"])
    ce = [1] * nd

    def addr():
        if style == "random" or rng.random() < 0.2:
            return rng.randrange(1 << abits)
        if style == "same":
            return hot[0]
        return rng.choice(hot)

    for _ in range(n):
        if rng.random() < 0.85:
            wr = []
            for x in cfg["wrs"]:
                ew = en_width_guess(cfg, x)
                r = rng.random()
                en = (1 << ew) - 1 if r < 0.4 else (0 if r < 0.5 else rng.getrandbits(ew) if ew else 0)
                wr.append((addr(), rng.getrandbits(w) if w else 0, en))
            rd = [(addr(), 1 if r["dom"] is None else int(rng.random() < 0.7)) for r in cfg["rds"]]
        if cfg.get("wrap") in ("reset", "enable") and rng.random() < 0.3:
            ce = [rng.getrandbits(1) for _ in range(nd)]
        op = {"wr": list(wr), "rd": list(rd)}
        if cfg.get("wrap") in ("reset", "enable"):
            op["ce"] = list(ce)
        r = rng.random()
        if r < 0.015:
            # a row that does not exist (also for depth 0): `mem.data[i]` must raise IndexError and nothing may change
            i = rng.choice([depth, depth + 1, depth + rng.randint(2, 9), (1 << abits), -1, -depth, -depth - 1, -rng.randint(2, 9)])
            if 0 <= i < depth:
                i = depth
            whole = rng.random() < 0.5 or w == 0
            start, stop = (0, w) if whole else (0, rng.randint(0, w))
            op.update({"op": "tbw", "i": i, "start": start, "stop": stop, "v": rng.getrandbits(max(stop - start, 1)),
                       "whole": whole, "oob": True})
        elif r < 0.12 and depth:
            i = rng.randrange(depth)
            whole = rng.random() < 0.6 or w == 0
            if whole:
                start, stop = 0, w
                v = rng.getrandbits(w) if w else 0
                if cfg["shape"][0] in ("u", "s") and rng.random() < 0.3:
                    v = rng.randint(-(1 << w) - 3, (2 << w) + 3)       # out-of-range values are truncated
            else:
                start = rng.randrange(w)
                stop = rng.randint(start, w)
                v = rng.randint(-3, (1 << (stop - start + 1)) + 1)
            op.update({"op": "tbw", "i": i, "start": start, "stop": stop, "v": v, "whole": whole})
        else:
            r2 = rng.random()
            tog = [k for k in range(nd) if rng.random() < (0.75 if r2 < 0.8 else 0.0)]
            if r2 < 0.8 and not tog:
                tog = [rng.randrange(nd)]
            clk = [c ^ (k in tog) for k, c in enumerate(clk)]
            for k in range(nd):
                if cfg["doms"][k]["rst"] != "none" and rng.random() < (0.5 if rst[k] else 0.08):
                    rst[k] ^= 1
            op.update({"op": "ev", "clk": list(clk), "rst": list(rst)})
        ops.append(op)
    return ops


def op_sexp(cfg, op, post):
    wr, rd = effective(cfg, op)
    ins = inputs_sexp(wr, rd)
    if op["op"] == "ev":
        return f"(ev {ins} (clk {' '.join(map(str, op['clk']))}) (rst {' '.join(map(str, op['rst']))}) {post})"
    return f"(tbw {ins} {op['i']} {op['start']} {op['stop']} {op['v']} {post})"


def parse_item(it):
    kv = common.kv(it)

    def st(x):
        rows, rd = x.split("|")
        f = lambda s: [int(v) for v in s.split(",")] if s else []
        return f(rows), f(rd)
    return st(kv["m"]), st(kv["s"]), st(kv["o"]), kv.get("rs", ""), kv.get("ds", "")


def item_error(it):
    """the exception kind the model (`Mem.tbSet`) predicts for a testbench row access, or None"""
    return common.kv(it).get("e")


# ------------------------------------------------------------------------------------------------

class Judge:
    """compares one observed post-state with the driver's Model / Spec / old-Model values"""

    def __init__(self, chk):
        self.chk = chk
        self.mism = []
        self.f22 = 0
        self.xdom_skipped = 0
        self.contradiction = []

    def xdom_rows(self, cfg, op, pre_clk):
        """addresses written at this event by ports of two different domains that both have an active edge"""
        if op["op"] != "ev":
            return set()
        act = []
        for k, d in enumerate(cfg["doms"]):
            lvl = 1 if d["edge"] == "pos" else 0
            act.append(op["clk"][k] != pre_clk[k] and op["clk"][k] == lvl)
        wr, _rd = effective(cfg, op)
        by = {}
        for (a, _d, e), w in zip(wr, cfg["wrs"]):
            if act[w["dom"]] and e:
                by.setdefault(a, set()).add(w["dom"])
        return {a for a, ds in by.items() if len(ds) > 1}

    def judge(self, cfg, op, pre_clk, impl, item, replay):
        """returns True if a Spec violation was reported"""
        chk = self.chk
        (m_rows, m_rd), (s_rows, s_rd), (o_rows, o_rd), rs, ds = parse_item(item)
        i_rows, i_rd = impl
        skip = self.xdom_rows(cfg, op, pre_clk)
        spec_bad, tie_bad, contra = [], [], []
        only_old = True         # every observable that contradicts the Spec is a read port showing what `stepOld` predicts
        for a, v in enumerate(i_rows):
            specified = rs[a] == "1"
            if a in skip and not specified:
                self.xdom_skipped += 1
                continue
            if specified and v != s_rows[a]:
                spec_bad.append(f"row {a}: impl {v}, spec {s_rows[a]}")
                only_old = False
            if v != m_rows[a]:
                tie_bad.append(f"row {a}: impl {v}, model {m_rows[a]}")
            if specified and m_rows[a] != s_rows[a]:
                contra.append(f"row {a}: model {m_rows[a]}, spec {s_rows[a]}")
        _wr_eff, rd_eff = effective(cfg, op)
        for k, v in enumerate(i_rd):
            specified = ds[k] == "1"
            if cfg["rds"][k]["dom"] is None and rd_eff[k][0] in skip and not specified:
                self.xdom_skipped += 1      # an asynchronous port showing such a row
                continue
            if specified and v != s_rd[k]:
                spec_bad.append(f"read port {k}: impl {v}, spec {s_rd[k]}")
                if v != o_rd[k] or o_rd[k] == m_rd[k]:
                    only_old = False
            if v != m_rd[k]:
                tie_bad.append(f"read port {k}: impl {v}, model {m_rd[k]}")
            if specified and m_rd[k] != s_rd[k]:
                contra.append(f"read port {k}: model {m_rd[k]}, spec {s_rd[k]}")
        if contra:
            self.contradiction.append({"what": contra, **replay})
        if spec_bad:
            r = dict(replay)
            r["differs"] = spec_bad
            old = only_old
            if old:
                r["classes"] = ["F22"]
                self.f22 += 1
                if self.f22 > 3:
                    chk.hist("F22_more", "suppressed")
                    return True
            chk.violation(("[F22: the domain reset cleared a read port] " if old else "") +
                          f"memory {describe(cfg)}: after {describe_op(op)}: " + "; ".join(spec_bad[:3]), r)
            return True
        if tie_bad:
            self.mism.append({"differs": tie_bad, **replay})
        return False


def judge_after(chk, cfg, ops, obs, after, declared, seen):
    """"holding its declared initial contents": what a walk did to the rows must not reach the declaration. After the walk
    `list(mem.init)`, every row and every read port after `Simulator.reset()`, and the state a second Simulator on the same
    design object starts from are compared with the declared contents (`declared` = rows / read data the driver derives
    from the abstract configuration, the same values the state before the first operation is compared with)."""
    d_rows, d_rd = declared
    w, sg = shape_width(cfg["shape"]), shape_signed(cfg["shape"])
    dflt = shape_default(cfg["shape"])        # `mem.init[i]` is None for a row that holds the row shape's default
    changed = list(obs[-1][0]) != list(d_rows)
    chk.hist("init_preserved", "walks looked at again (mem.init, Simulator.reset())")
    if changed:
        chk.hist("init_preserved", "walks whose rows differ from the declared contents at the end")
    found = []
    if "init_error" in after:
        found.append(("list(mem.init) after the walk", after["init_error"], d_rows))
    elif [norm_row(dflt if v is None else v, w, sg) for v in after["init"]] != list(d_rows):
        found.append(("list(mem.init) after the walk", after["init"], d_rows))
    if "reset_error" in after or "reset" not in after:
        found.append(("Simulator.reset() and run", after.get("reset_error", "the testbench was not restarted"), [d_rows, d_rd]))
    elif (list(after["reset"][0]), list(after["reset"][1])) != (list(d_rows), list(d_rd)):
        found.append(("rows / read data after Simulator.reset()", after["reset"], [d_rows, d_rd]))
    if "second_error" in after:
        found.append(("a second Simulator on the same design", after["second_error"], [d_rows, d_rd]))
    elif "second" in after:
        chk.hist("init_preserved", "walks followed by a second Simulator on the same design")
        if changed:
            chk.hist("init_preserved", "second Simulator after rows were changed")
        if (list(after["second"][0]), list(after["second"][1])) != (list(d_rows), list(d_rd)):
            found.append(("rows / read data a second Simulator on the same design starts from", after["second"], [d_rows, d_rd]))
    chk.count(len([k for k in ("init", "reset", "second") if k in after]))
    if found:
        seen["violations"] += 1
        if seen["violations"] > 5:
            chk.hist("init_preserved", "further violations (not listed)")
            return
        what, impl, want = found[0]
        chk.violation(f"memory {describe(cfg)}: after a walk of {len(ops)} operations (rows at its end {obs[-1][0]}): {what}: "
                      f"{impl}, declared initial contents {want}",
                      {"kind": "init-preserved", "cfg": cfg, "ops": ops if len(ops) <= 60 else "see seed",
                       "rows_at_end_of_walk": obs[-1][0], "declared": [d_rows, d_rd],
                       "differs": [{"what": a, "impl": b, "declared": c} for a, b, c in found]})


def describe(cfg):
    return (f"shape={cfg['shape']} depth={cfg['depth']} doms={[(d['edge'], d['rst']) for d in cfg['doms']]} "
            f"wr={[(w['dom'], w['gran']) for w in cfg['wrs']]} rd={[(r['dom'], r['transp']) for r in cfg['rds']]}"
            + (f" wrap={cfg['wrap']}" if cfg.get("wrap") else "")
            + (f" DomainRenamer({dict(map(tuple, cfg['rename']))}) ports declared in wr={[w['decl'] for w in cfg['wrs']]} "
               f"rd={[r.get('decl', 'comb') for r in cfg['rds']]} (domain {list(DOM_NAMES[:len(cfg['doms'])])} = index 0..)"
               if cfg.get("rename") is not None else ""))


def describe_op(op):
    if op["op"] == "ev":
        return f"event clk={op['clk']} rst={op['rst']} with wr(addr,data,en)={op['wr']} rd(addr,en)={op['rd']}" + (
            f" ctl={op['ce']}" if "ce" in op else "")
    return f"ctx.set(mem[{op['i']}]" + ("" if op["whole"] else f"[{op['start']}:{op['stop']}]") + f", {op['v']})"


def ask_par(chk, reqs, workers=8):
    """chk.driver.ask on several driver processes at once (the driver is stateless between lines)"""
    if len(reqs) < 64:
        return chk.driver.ask(reqs)
    n = (len(reqs) + workers - 1) // workers
    chunks = [reqs[i:i + n] for i in range(0, len(reqs), n)]
    with cf.ThreadPoolExecutor(len(chunks)) as tp:
        parts = list(tp.map(chk.driver.ask, chunks))
    return [r for part in parts for r in part]


def model_ports(chk, cfgs):
    """ask the model of the constructor for (gran bits, en width) of every write port; None if it rejects"""
    reqs, idx = [], []
    for ci, cfg in enumerate(cfgs):
        for w in cfg["wrs"]:
            reqs.append(f"(enw {kind_sexp(cfg['shape'])} {gran_sexp(w['gran'])})")
            idx.append(ci)
    resp = chk.driver.ask(reqs)
    out = [[] for _ in cfgs]
    for ci, r in zip(idx, resp):
        if r.startswith("ok"):
            kv = common.kv(r)
            out[ci].append((int(kv["gran"]), int(kv["enw"])))
        else:
            out[ci].append(None)
    return out


def run(chk):
    if not chk.lean():
        chk.not_shown("Lean build of Properties/C11 failed", chk.build_log[-3000:])
        return
    rng = chk.rng
    quick = chk.tier == "quick"
    t_last = [time.time()]
    phases = chk.extra.setdefault("phase_wall_s", {})

    def phase(name):
        now = time.time()
        phases[name] = round(now - t_last[0], 2)
        t_last[0] = now
    workers = min(16, os.cpu_count() or 4)
    pool = cf.ProcessPoolExecutor(workers)
    judge = Judge(chk)
    chk.assumptions += [
        "the clause 'the simulator and the emitted RTLIL agree wherever the RTLIL is defined' is decided by C04's check, whose "
        "design generator includes memories (all port kinds, transparency, granularity); C11 decides the simulator against the array of rows",
        "every operation is evaluated from the state observed before it (rows through ctx.get(mem.data[i]), read registers through "
        "ctx.get(port.data)); the clock and reset levels are the ones the testbench itself drove",
        "rows written at coincident edges by write ports of two different clock domains with overlapping enabled granules are not "
        "compared: the property excludes them and the simulator's result depends on process order (C08)",
        "EnableInserter is covered by mapping the port enables (read en & ce, write Mux(ce, en, 0)) before they reach the model; "
        "the wrappers themselves are C03's subject",
    ]
    chk.cov["rule"] = (
        "walks: configuration = row shape (unsigned 0..12 / signed 1..8 / StructLayout / ArrayLayout incl. zero-width / data.Struct and "
        "data.Union classes with field defaults / a user-defined shape-castable with a declared default: 16 % of the memories have a "
        "row shape whose default constant is not 0) x depth in "
        f"{list(DEPTHS)} x 1-3 domains (pos/neg edge, reset none/sync/async) x 0-3 write ports (domain, granularity over the divisors "
        "of the width or array length, or None) x 0-3 read ports (comb or sync, transparency = random subset of the same-domain write "
        "ports in random order) x initial rows (none/partial/full; for shape-castable rows 15 % of the entries are an explicit None; "
        "the expected contents of rows that init leaves out are computed by the harness from the field defaults and offsets - "
        "shape_default - and compared with every row and every read port before the first operation) x wrapper (none/DomainRenamer/ResetInserter/EnableInserter; "
        "a DomainRenamer's map is drawn from: fresh names only, swap, chain listed source-first / target-first, rotation (3 domains, or "
        "through a fresh name), merge, identity entries, swap+move - over a random permutation of the 1-3 clock domains; every port is "
        "declared in a name the map sends to a clock domain; the driver gets the declared domains and the map and applies the "
        "simultaneous renaming itself, Cfg.rename); "
        "operations = seeded inputs (addresses random / two hot addresses / one address; enables all-ones, zero or random bits) followed by "
        "a clock event (each domain's clock toggles with p=.75, resets pulse) or a testbench row / row-slice write (1.5 % of the "
        "operations name a row that does not exist - index = depth, beyond it, or negative - and must raise IndexError). distinct = distinct "
        "(configuration, operation list); non-trivial = at least one enabled in-range write and one enabled sync capture or comb read. "
        "After each walk: list(mem.init), rows / read data after Simulator.reset(), and (every second walk) the initial state of a "
        "second Simulator on the same design object, against the declared initial contents. "
        "graph: all states x all input valuations x all clock events of the listed small configurations.")

    # -- 1. Python integer primitives --------------------------------------------------------------
    reqs, exp = [], []
    for _ in range(400 if quick else 4000):
        w = rng.choice([1, 2, 3, 8, 16, 70])
        v, o = rng.randint(-(1 << w), 1 << w), rng.randint(-(1 << w), 1 << w)
        mk = rng.getrandbits(w)
        reqs.append(f"(merge {v} {mk} {o})")
        exp.append((v & mk) | (o & ~mk))
        g, n = rng.randint(0, 5), rng.randint(0, 6)
        en = rng.getrandbits(n) if n else 0
        reqs.append(f"(repl {g} {n} {en})")
        val = 0
        for k in range(n):
            if (en >> k) & 1:
                val |= ((1 << g) - 1) << (k * g)
        exp.append(val)
    for q, r, e in zip(reqs, chk.driver.ask(reqs), exp):
        chk.count()
        if r != str(e):
            chk.not_shown("model's Python integer primitive differs from CPython", {"request": q, "model": r, "python": e})
            break
    phase("python primitives")

    # -- 1b. the write queue of the simulator's memory state, at unit level ---------------------------
    # scripts of `_PyMemoryState.write(addr, value, mask)` calls followed by one `commit()` on the real class, against
    # `Mem.runOps` (Model/MemQueue.lean; theorems queued_row, writes_to_distinct_rows_commute, commit_reports_change)
    from amaranth.hdl import MemoryData, unsigned, signed
    from amaranth.sim.pysim import _PyMemoryState
    reqs, exp, descr = [], [], []
    for _ in range(600 if quick else 12000):
        w = rng.choice([0, 1, 2, 3, 4, 8, 8, 13])
        sg = w > 0 and rng.random() < 0.5
        depth = rng.choice([1, 1, 2, 3, 5])
        lo, hi = (-(1 << (w - 1)), (1 << (w - 1)) - 1) if sg else (0, (1 << w) - 1)
        init = [rng.randint(lo, hi) for _i in range(depth)]
        hot = rng.randrange(depth)
        ops = []
        for _k in range(rng.choice([1, 2, 2, 3, 4, 6])):
            a = hot if rng.random() < 0.6 else rng.choice([rng.randrange(depth), depth, depth + 3])
            r = rng.random()
            if r < 0.25:
                v = init[a] if a < depth else 0                  # the row's own value: nothing changes
            else:
                v = rng.randint(lo, hi)
            mk = None if rng.random() < 0.35 else rng.choice([0, (1 << w) - 1, rng.getrandbits(w) if w else 0,
                                                             ((1 << w) - 1) & 0x0f0f, ((1 << w) - 1) & ~0x0f0f])
            ops.append((a, v, mk))
        md = MemoryData(shape=signed(w) if sg else unsigned(w), depth=depth, init=init)
        st = _PyMemoryState(md, set())
        try:
            for a, v, mk in ops:
                st.write(a, v, mk)
            changed = st.commit() if st.write_queue else False
            got = ("ok", list(st.data), bool(changed), len(st.write_queue))
        except Exception as e:
            got = ("raise:" + common.errkind(e), [], False, 0)
        reqs.append(f"(mq {w} {'s' if sg else 'u'} ({' '.join(map(str, init))}) " +
                    " ".join(f"(op {a} {v} {'none' if mk is None else mk})" for a, v, mk in ops) + ")")
        exp.append(got)
        descr.append({"width": w, "signed": sg, "init": init, "ops": ops})
    for q, r, g, dsc in zip(reqs, chk.driver.ask(reqs), exp, descr):
        chk.count()
        chk.hist("write_queue_script", f"{len(dsc['ops'])} writes")
        if not r.startswith("mq "):
            chk.not_shown("driver could not evaluate a write-queue script", {"request": q, "response": r[:200]})
            break
        d = common.kv(r)
        mrows = [int(x) for x in d["rows"].split(",")] if d["rows"] else []
        if g[0] != "ok":
            chk.violation(f"_PyMemoryState.write/commit raises {g[0]}", dict(dsc, kind="write-queue-raises", request=q, classes=[]))
            break
        # array semantics computed here, independent of both: per row, writes in order, masked bits over the row so far
        rows = list(dsc["init"])
        wmask = (1 << dsc["width"]) - 1
        for a, v, mk in dsc["ops"]:
            if a < len(rows):
                nv = v if mk is None else (v & mk) | (rows[a] & ~mk)
                if dsc["signed"]:
                    nv &= wmask
                    if dsc["width"] and nv >> (dsc["width"] - 1):
                        nv -= 1 << dsc["width"]
                rows[a] = nv
        want_changed = rows != dsc["init"]
        chk.hist("write_queue_changed", want_changed)
        if g[1] != rows or g[2] != want_changed or g[3] != 0:
            chk.violation(f"write queue of the simulator's memory: after {len(dsc['ops'])} writes and commit() the rows are {g[1]} (changed={g[2]}, "
                          f"{g[3]} entries left queued); writes applied in order to an array of rows give {rows} (changed={want_changed})",
                          dict(dsc, kind="write-queue", impl=list(g), spec=[rows, want_changed], model=r, request=q, classes=[]))
            break
        if mrows != rows or d["changed"] != str(int(want_changed)):
            chk.not_shown("impl = array of rows, but Model/MemQueue.lean runOps differs", dict(dsc, request=q, model=r, impl=list(g)))
            break
        chk.distinct(q, len(dsc["ops"]) >= 2)
    phase("write queue (unit level)")

    # -- 2. constructors (the malformed stream) -----------------------------------------------------
    shapes = [("u", 0), ("u", 1), ("u", 4), ("u", 6), ("u", 8), ("s", 1), ("s", 4), ("s", 8),
              ("struct", (("a", 2, False), ("b", 2, True))), ("array", 2, 4), ("array", 3, 6), ("array", 0, 3),
              ("array", 2, 0), ("array", 1, 1),
              ("dstruct", (("a", 2, False, 3), ("b", 2, True, -1))), ("dunion", (("a", 2, False, None), ("b", 3, True, -2))),
              ("custom", 4, False, 9)]
    grans = [None, -1, 0, 1, 2, 3, 4, 5, 6, 8, 9, 12, "x", 1.5]
    jobs, reqs = [], []
    for sh in shapes:
        for g in grans:
            jobs.append(("enw", sh, g))
            reqs.append(f"(enw {kind_sexp(sh)} {gran_sexp(g)})")
    for depth in [-1, 0, 1, 3, "x", 1.5]:
        for n in [0, 1, 3, 4]:
            jobs.append(("initchk", depth, n))
            reqs.append(f"(initchk {depth if isinstance(depth, int) else 'none'} {n})")
    for dom in (-1, 0, 1):
        jobs.append(("wrchk", dom))
        reqs.append(f"(wrchk {dom})")
    items_pool = ["x", (True, 0), (True, 1), (False, 0), (False, 1)]
    for dom in (-1, 0, 1):
        for n in range(0, 3):
            for items in itertools.product(items_pool, repeat=n):
                jobs.append(("rdchk", dom, list(items)))
                reqs.append(f"(rdchk {dom} (" + " ".join("x" if it == "x" else f"(p {int(it[0])} {it[1]})" for it in items) + "))")
    for depth in list(range(0, 20)) + [31, 32, 33, 255, 256, 257]:
        jobs.append(("abits", depth))
        reqs.append(f"(abits {depth})")
    # whole constructor sequences (Mem.mkCfg): mostly valid, with single and combined faults - a transparency list naming a
    # write port of another domain / of another memory, a transparency list on an asynchronous port, an asynchronous
    # write port, a granularity the row shape does not allow, more initial rows than the depth
    n_mk = 300 if quick else 2500
    for _ in range(n_mk):
        sh = rng.choice(shapes)
        depth = rng.choice(DEPTHS)
        ninit = rng.choice([0, depth, rng.randint(0, depth), depth + 1 if rng.random() < 0.15 else 0])
        nw, nr = rng.randint(0, 3), rng.randint(0, 3)
        wrs = []
        for _k in range(nw):
            g = rng.choice(gran_options(sh)) if rng.random() < 0.85 else rng.choice([0, 1, 2, 3, 5, -1])
            wrs.append((rng.choice([0, 0, 1, 1, -1]) if rng.random() < 0.15 else rng.randrange(2), g))
        rds = []
        for _k in range(nr):
            d = -1 if rng.random() < 0.25 else rng.randrange(2)
            r = rng.random()
            if r < 0.7:         # what the constructor allows
                tr = [j for j, (wd, _g) in enumerate(wrs) if wd == d and d >= 0 and rng.random() < 0.6]
            elif r < 0.9:       # any existing write port, whatever its domain
                tr = [j for j in range(nw) if rng.random() < 0.6]
            else:               # an index that is not a write port of this memory
                tr = [rng.randrange(nw + 2) for _j in range(rng.randint(1, 2))]
            rng.shuffle(tr)
            rds.append((d, tr))
        jobs.append(("mkcfg", sh, depth, ninit, wrs, rds))
        reqs.append(f"(mkcfg {kind_sexp(sh)} {depth} {ninit} (wrs " + " ".join(f"({d} {gran_sexp(g)})" for d, g in wrs) +
                    ") (rds " + " ".join(f"({d} ({' '.join(map(str, tr))}))" for d, tr in rds) + "))")
    resp = chk.driver.ask(reqs)
    for job, r, im in zip(jobs, resp, pool.map(ctor_worker, jobs, chunksize=16)):
        chk.count()
        chk.distinct(("ctor",) + tuple(map(str, job)))
        chk.hist("ctor", f"{job[0]}:{im.split(' ')[0]}")
        if im != r:
            # the constructors' rules are part of the property's quantifier (which configurations exist), not of its
            # statement: a difference means the model of the constructor no longer describes the code
            judge.mism.append({"what": "constructor", "job": [str(x) for x in job], "impl": im, "model": r})
    chk.extra.setdefault("exhaustive", {})["ctor"] = (
        f"{len(shapes)} row shapes x {len(grans)} granularities; MemoryData depth/init-length grid; write_port('comb'); "
        "read_port transparency lists of length <= 2 over {not a port, same/other memory x domain a/b} x port domain; "
        "address width for depths 0..19, 31..33, 255..257; plus (sampled) " + str(n_mk) + " whole constructor sequences "
        "Memory / write_port* / read_port* against Mem.mkCfg, a third of them with faults (cross-domain or foreign transparency entries, "
        "transparency on a comb port, comb write port, inadmissible granularity, too many initial rows)")
    phase("constructors")

    # -- 3. random walks ------------------------------------------------------------------------------
    n_walks = 4000 if quick else 24000
    n_ops = 45 if quick else 110
    cfgs = []
    for k in range(n_walks):
        depth = DEPTHS[(k // 3) % len(DEPTHS)] if k % 3 == 0 else None
        cfgs.append(gen_cfg(rng, depth=depth))
    ports = model_ports(chk, cfgs)
    jobs = []
    for cfg, mp in zip(cfgs, ports):
        if any(p is None for p in mp):
            raise common.Infra(f"generator produced a granularity the model rejects: {describe(cfg)}")
        jobs.append((cfg, gen_ops(rng, cfg, rng.choice([n_ops // 3, n_ops, n_ops]))))
    # after every walk the declared initial contents are looked at again (mem.init, Simulator.reset(), and - for every
    # second walk - a second Simulator on the same design object)
    results = list(pool.map(walk_worker, [(cfg, ops, k % 2 == 0) for k, (cfg, ops) in enumerate(jobs)],
                            chunksize=max(1, len(jobs) // (workers * 8))))
    phase("walks: amaranth side")
    reqs, idx = [], []
    for k, ((cfg, ops), mp, res) in enumerate(zip(jobs, ports, results)):
        if "error" in res and "obs" not in res or ("error" in res and len(res["obs"]) <= 1):
            chk.count()
            chk.violation(f"memory {describe(cfg)} cannot be built or simulated: {res['error']} {res.get('msg', '')}",
                          {"cfg": cfg, "error": res["error"], "msg": res.get("msg")})
            continue
        if res["enw"] != [n for _g, n in mp]:
            judge.mism.append({"what": "width of en", "cfg": cfg, "impl": res["enw"], "model": [n for _g, n in mp]})
            continue
        obs = res["obs"]
        nd = len(cfg["doms"])
        clk, rst = [0] * nd, [0] * nd      # a row write keeps the clock / reset levels
        parts = [f"(walk {cfg_sexp(cfg, mp)} {state_sexp(obs[0][0], obs[0][1], clk, rst)}"]
        for op, post in zip(ops, obs[1:]):
            if op["op"] == "ev":
                clk, rst = op["clk"], op["rst"]
            parts.append(op_sexp(cfg, op, state_sexp(post[0], post[1], clk, rst)))
        reqs.append(" ".join(parts) + ")")
        idx.append(k)
    resp = ask_par(chk, reqs)
    phase("walks: driver")
    after_seen = {"violations": 0}
    for k, r in zip(idx, resp):
        cfg, ops = jobs[k]
        res = results[k]
        obs = res["obs"]
        items = r.split(";")
        if not items[0].startswith("init="):
            raise common.Infra(f"driver: {r[:300]} for {reqs[idx.index(k)][:300]}")
        irows, ird, *final = items[0][5:].split("|")
        f = lambda s: [int(v) for v in s.split(",")] if s else []
        if cfg.get("rename") is not None:
            # where the model's simultaneous renaming puts every port must be what the harness assumed when it chose the events
            mine = [[w["dom"] for w in cfg["wrs"]], [-1 if rr["dom"] is None else rr["dom"] for rr in cfg["rds"]]]
            if [f(x) for x in final] != mine:
                raise common.Infra(f"renamed port domains: model {final}, harness {mine} for {describe(cfg)}")
        chk.count(len(obs) - 1)
        if (f(irows), f(ird)) != (obs[0][0], obs[0][1]):
            chk.violation(f"memory {describe(cfg)}: initial rows / read data {obs[0]} differ from the declared ones {f(irows)}",
                          {"cfg": cfg, "impl": obs[0], "declared": [f(irows), f(ird)]})
            continue
        nd = len(cfg["doms"])
        pre_clk, pre_rst = [0] * nd, [0] * nd
        n_wr = n_rd = 0
        for j, (op, post, it) in enumerate(zip(ops, obs[1:], items[1:])):
            replay = {"cfg": cfg, "state_before": obs[j], "clk_before": list(pre_clk), "rst_before": list(pre_rst),
                      "op": op, "impl_after": post,
                      "driver": it, "ops_from_reset": ops[:j + 1] if j < 40 else "see seed"}
            if op["op"] == "tbw":
                n_tbw = sum(1 for o in ops[:j] if o["op"] == "tbw")
                impl_err = res["tberr"][n_tbw] if n_tbw < len(res.get("tberr", [])) else None
                model_err = item_error(it)
                if impl_err != model_err:
                    # the Spec has no row `i` outside 0..depth-1: accessing one must be refused, accessing an existing one must not
                    chk.violation(f"memory {describe(cfg)}: {describe_op(op)}: implementation "
                                  f"{'raised ' + impl_err if impl_err else 'accepted it'}, rows 0..{cfg['depth'] - 1} exist "
                                  f"(model/spec: {model_err or 'accepted'})", {**replay, "impl_error": impl_err, "model_error": model_err})
                    continue
            judge.judge(cfg, op, pre_clk, post, it, replay)
            if op["op"] == "ev":
                wr, rd = effective(cfg, op)
                edges = [op["clk"][d] != pre_clk[d] and op["clk"][d] == (1 if cfg["doms"][d]["edge"] == "pos" else 0) for d in range(nd)]
                n_wr += sum(1 for (a, _d, e), w in zip(wr, cfg["wrs"]) if edges[w["dom"]] and e and a < cfg["depth"])
                n_rd += sum(1 for (a, e), rr in zip(rd, cfg["rds"]) if rr["dom"] is None or (edges[rr["dom"]] and e))
                chk.hist("events", "coincident" if sum(edges) > 1 else ("edge" if any(edges) else "no-active-edge"))
                if any(op["rst"]):
                    chk.hist("events", "reset-high")
                pre_clk, pre_rst = op["clk"], op["rst"]
            else:
                chk.hist("events", "tb-row-out-of-range(IndexError)" if op.get("oob") else
                         ("tb-row-write" if op["whole"] else "tb-slice-write"))
        if len(obs) - 1 < len(ops):
            chk.violation(f"memory {describe(cfg)}: simulation stopped after {len(obs) - 1} operations: {res.get('error')} {res.get('msg')}",
                          {"cfg": cfg, "ops": ops[:len(obs)], "error": res.get("error")})
        elif "after" in res:
            judge_after(chk, cfg, ops, obs, res["after"], (f(irows), f(ird)), after_seen)
        chk.distinct((repr(cfg), repr(ops)), nontrivial=n_wr > 0 and n_rd > 0)
        chk.hist("depths", cfg["depth"])
        chk.hist("shapes", cfg["shape"][0] + str(shape_width(cfg["shape"])))
        chk.hist("ports", f"r{len(cfg['rds'])}w{len(cfg['wrs'])}")
        chk.hist("domains", "+".join(sorted(d["edge"] + "/" + d["rst"] for d in cfg["doms"])))
        chk.hist("wrap", cfg.get("wrap"))
        if cfg.get("rename") is not None:
            chk.hist("rename_map", cfg["rename_shape"])
            srcs = [a for a, _b in cfg["rename"]]
            twice = [p for p in cfg["wrs"] + [rr for rr in cfg["rds"] if rr["dom"] is not None]
                     if p["decl"] in srcs and dict(map(tuple, cfg["rename"]))[p["decl"]] in srcs[srcs.index(p["decl"]) + 1:]]
            chk.hist("rename_ports", "declared in a source whose target is a later source (entry-by-entry renaming would move it twice)", len(twice))
            chk.hist("rename_ports", "all renamed-memory ports", len(cfg["wrs"]) + sum(1 for rr in cfg["rds"] if rr["dom"] is not None))
        # how the initial contents were declared, and how many rows rely on the row shape's default constant
        sh = cfg["shape"]
        dcls = "plain" if not shape_castable(sh) else ("castable,default!=0" if shape_default(sh) else "castable,default=0")
        n_exp_none = sum(1 for v in cfg["init"] if v is None)
        n_missing = cfg["depth"] - len(cfg["init"])
        chk.hist("init_rows", dcls + ":" + ("depth0" if cfg["depth"] == 0 else "empty" if not cfg["init"] else
                                            "partial" if n_missing else "full") + (",explicit-None" if n_exp_none else ""))
        if dcls == "castable,default!=0":
            chk.hist("nonzero_default", "memories")
            chk.hist("nonzero_default", "memories with rows missing from init", 1 if n_missing else 0)
            chk.hist("nonzero_default", "rows missing from init (implicit default)", n_missing)
            chk.hist("nonzero_default", "rows explicitly None", n_exp_none)
            chk.hist("nonzero_default", "sync read ports (data starts at the default)", sum(1 for rr in cfg["rds"] if rr["dom"] is not None))
            chk.hist("nonzero_default_kind", sh[0])
        for w in cfg["wrs"]:
            chk.hist("granularity", "None" if w["gran"] is None else ("full" if w["gran"] == shape_width(cfg["shape"]) else "partial"))
        for rr in cfg["rds"]:
            chk.hist("read_ports", "comb" if rr["dom"] is None else f"sync,transparent_for={len(rr['transp'])}")
        chk.sample({"cfg": describe(cfg), "ops": [describe_op(o) for o in ops[:4]], "n_ops": len(ops),
                    "after_first_op": obs[1] if len(obs) > 1 else None})
    phase("walks: compare")

    # -- 4. complete small graphs ---------------------------------------------------------------------
    gcfgs = small_configs()
    if quick:
        gcfgs = [c for c in gcfgs if graph_size(c) <= 3000]
        gcfgs = rng.sample(gcfgs, min(len(gcfgs), 40))
    else:
        big = [c for c in gcfgs if graph_size(c) > 20000]
        small = [c for c in gcfgs if graph_size(c) <= 20000]
        gcfgs = rng.sample(small, min(len(small), 420)) + rng.sample(big, min(len(big), 24))
    gports = model_ports(chk, gcfgs)
    gjobs = []
    for cfg, mp in zip(gcfgs, gports):
        states, inputs, events = graph_domain(cfg, mp)
        # split the state list so that the pool is kept busy
        chunk = max(1, len(states) // 4)
        for s0 in range(0, len(states), chunk):
            gjobs.append((cfg, states[s0:s0 + chunk], inputs, events))
    gres = list(pool.map(graph_worker, gjobs, chunksize=1))
    phase("graph: amaranth side")
    reqs, meta = [], []
    gmp = {id(c): mp for c, mp in zip(gcfgs, gports)}
    for (cfg, states, inputs, events), res in zip(gjobs, gres):
        if "error" in res:
            chk.violation(f"memory {describe(cfg)} cannot be built or simulated: {res['error']} {res.get('msg', '')}",
                          {"cfg": cfg, "error": res["error"]})
            continue
        mp = gmp[id(cfg)]
        nd = len(cfg["doms"])
        idle = [0 if d["edge"] == "pos" else 1 for d in cfg["doms"]]
        parts = [f"(walk {cfg_sexp(cfg, mp)} {state_sexp(states[0][0], states[0][1], idle, [0] * nd)}"]
        m = []
        for (rows, rd), ps in zip(states, res["post"]):
            pre = state_sexp(rows, rd, idle, [0] * nd)
            for inp, pe in zip(inputs, ps):
                for clk, post in zip(events, pe):
                    op = {"op": "ev", "wr": inp["wr"], "rd": inp["rd"], "clk": clk, "rst": [0] * nd}
                    parts.append(f"(set {pre})")
                    # comb read ports show the row addressed *now*: the loaded `rd` entries of comb ports are not state
                    parts.append(op_sexp(cfg, op, state_sexp(post[0], post[1], clk, [0] * nd)))
                    m.append((op, (rows, rd), post))
        reqs.append(" ".join(parts) + ")")
        meta.append((cfg, idle, m))
    resp = ask_par(chk, reqs)
    phase("graph: driver")
    n_graph = 0
    for (cfg, idle, m), r in zip(meta, resp):
        items = [x for x in r.split(";")[1:] if x != "-"]
        if len(items) != len(m):
            raise common.Infra(f"driver: graph response has {len(items)} items for {len(m)} steps: {r[:200]}")
        for (op, pre, post), it in zip(m, items):
            n_graph += 1
            judge.judge(cfg, op, idle, post, it, {"cfg": cfg, "state_before": pre, "clk_before": idle,
                                                  "rst_before": [0] * len(idle), "op": op,
                                                  "impl_after": post, "driver": it, "stream": "graph"})
        chk.distinct(("graph", repr(cfg)))
        chk.hist("graph_configs", f"r{len(cfg['rds'])}w{len(cfg['wrs'])}d{cfg['depth']}{cfg['shape'][0]}{shape_width(cfg['shape'])}")
    chk.count(n_graph)
    chk.extra["exhaustive"]["graph"] = (
        f"{len(gcfgs)} configurations with depth <= 2, width <= 2, <= 2 ports (of {len(small_configs())} enumerated; "
        f"the quick tier takes those with <= 3000 transitions): all row contents x all sync read-register contents x all "
        f"(addr, data, en) valuations of every port x every non-empty set of domains having an active edge; {n_graph} transitions")
    phase("graph: compare")

    # -- verdicts --------------------------------------------------------------------------------------
    if judge.f22:
        chk.extra["F22_events"] = judge.f22
    chk.extra["cross_domain_collisions_not_compared"] = judge.xdom_skipped
    for c in judge.contradiction[:3]:
        chk.not_shown("Model and Spec disagree where the Spec is defined (theorem model_refines_rows contradicted?)", c)
    if judge.mism and not chk.violations:
        for mm in judge.mism[:5]:
            chk.not_shown("the real memory and the model differ, but no observation contradicts the array-of-rows Spec", mm)
    elif judge.mism:
        chk.extra["tie_mismatches_beside_violations"] = len(judge.mism)
    pool.shutdown()


# ------------------------------------------------------------------------------------------------
# the small configurations of the graph tier

def small_configs():
    out = []
    shapes = [("u", 1), ("u", 2), ("s", 1), ("s", 2), ("struct", (("a", 1, False), ("b", 1, False))), ("array", 1, 2)]
    for sh in shapes:
        for depth in (1, 2):
            for nd in (1, 2):
                doms = [{"edge": "pos", "rst": "sync"}, {"edge": "neg", "rst": "none"}][:nd]
                wr_opts = [{"dom": d, "gran": g} for d in range(nd) for g in gran_options(sh)]
                for nw in (0, 1, 2):
                    for wrs in itertools.combinations_with_replacement(wr_opts, nw):
                        for nr in range(0, 3 - nw):
                            rd_opts = [{"dom": None, "transp": []}]
                            for d in range(nd):
                                cand = [i for i, w in enumerate(wrs) if w["dom"] == d]
                                for k in range(len(cand) + 1):
                                    for sub in itertools.permutations(cand, k):
                                        rd_opts.append({"dom": d, "transp": list(sub)})
                            for rds in itertools.combinations_with_replacement(rd_opts, nr):
                                if nw + nr == 0:
                                    continue
                                if nd == 2 and not ({w["dom"] for w in wrs} | {r["dom"] for r in rds}) >= {0, 1}:
                                    continue        # second domain unused: same as the one-domain configuration
                                out.append({"shape": sh, "depth": depth, "init": [], "doms": doms,
                                            "wrs": [dict(w) for w in wrs], "rds": [dict(r) for r in rds], "wrap": None})
    return out


def graph_domain(cfg, mp):
    w, signed, depth = shape_width(cfg["shape"]), shape_signed(cfg["shape"]), cfg["depth"]
    vals = [norm_row(v, w, signed) for v in range(1 << w)]
    abits = (depth - 1).bit_length() if depth else 0
    sync = [r["dom"] is not None for r in cfg["rds"]]
    states = []
    for rows in itertools.product(vals, repeat=depth):
        for rd in itertools.product(*[(vals if s else [0]) for s in sync]):
            states.append((list(rows), list(rd)))
    wr_alpha = [[(a, d, e) for a in range(1 << abits) for d in range(1 << w) for e in range(1 << n)] for _g, n in mp]
    rd_alpha = [[(a, e) for a in range(1 << abits) for e in ((0, 1) if s else (1,))] for s in sync]
    inputs = [{"wr": list(x[:len(wr_alpha)]), "rd": list(x[len(wr_alpha):])} for x in itertools.product(*(wr_alpha + rd_alpha))]
    nd = len(cfg["doms"])
    idle = [0 if d["edge"] == "pos" else 1 for d in cfg["doms"]]
    events = []
    for sub in range(1, 1 << nd):
        events.append([idle[k] ^ ((sub >> k) & 1) for k in range(nd)])
    return states, inputs, events


def graph_size(cfg):
    w, depth = shape_width(cfg["shape"]), cfg["depth"]
    abits = (depth - 1).bit_length() if depth else 0
    n = (1 << w) ** depth
    for r in cfg["rds"]:
        n *= ((1 << w) * 2 if r["dom"] is not None else 1) * (1 << abits)
    for x in cfg["wrs"]:
        n *= (1 << abits) * (1 << w) * (1 << en_width_guess(cfg, x))
    return n * ((1 << len(cfg["doms"])) - 1)


# ------------------------------------------------------------------------------------------------

def replay_worker(job):
    cfg, pre, clk0, rst0, op = job
    t = _Tb(cfg)
    out = {}

    async def tb(ctx):
        t.event(ctx, clk0, rst0)
        t.inputs(ctx, op)
        t.load(ctx, pre[0], pre[1])
        out["pre"] = t.observe(ctx)
        if op["op"] == "ev":
            t.event(ctx, op["clk"], op["rst"])
        else:
            try:
                t.tbw(ctx, op)
            except Exception as e:  # noqa: BLE001
                out["tberr"] = common.errkind(e)
        out["post"] = t.observe(ctx)
    t.sim.add_testbench(tb)
    t.sim.run()
    return out


def _tuplify(x):
    return tuple(_tuplify(y) for y in x) if isinstance(x, list) else x


def replay(chk, path):
    """re-run one recorded operation: load the recorded state into a real memory, apply the operation, and print
    what the implementation, the model and the Spec say"""
    import json
    rep = json.load(open(path))["replay"]
    cfg = rep["cfg"]
    cfg["shape"] = _tuplify(cfg["shape"])
    if rep.get("kind") == "init-preserved":
        # the declared contents after a walk: run the recorded walk again and look at mem.init / reset / second Simulator
        if not isinstance(rep["ops"], list):
            print("the walk is too long to be recorded: re-run the check with the same seed")
            return common.EXIT_INFRA if hasattr(common, "EXIT_INFRA") else common.EXIT_VIOLATION
        for o in rep["ops"]:
            o["wr"] = [tuple(x) for x in o["wr"]]
            o["rd"] = [tuple(x) for x in o["rd"]]
        res = walk_worker((cfg, rep["ops"], True))
        after = res.get("after", {})
        d_rows, d_rd = rep["declared"]
        w, sg = shape_width(cfg["shape"]), shape_signed(cfg["shape"])
        print("memory     :", describe(cfg))
        print("declared   :", [d_rows, d_rd])
        print("rows at the end of the walk :", res["obs"][-1][0] if res.get("obs") else res.get("error"))
        print("list(mem.init) afterwards   :", after.get("init", after.get("init_error")))
        print("after Simulator.reset()     :", after.get("reset", after.get("reset_error")))
        print("second Simulator starts from:", after.get("second", after.get("second_error")))
        dflt = shape_default(cfg["shape"])
        same = ("init" in after and [norm_row(dflt if v is None else v, w, sg) for v in after["init"]] == d_rows and
                all(k in after and [list(after[k][0]), list(after[k][1])] == [d_rows, d_rd] for k in ("reset", "second")))
        print("verdict    :", "agrees" if same else "the declared initial contents were not kept")
        return common.EXIT_OK if same else common.EXIT_VIOLATION
    if "op" not in rep:
        # a report about the initial contents: build the memory again and show its rows next to the declared ones
        res = walk_worker((cfg, []))
        declared = [full_init(cfg), [v if r["dom"] is not None else full_init(cfg)[0] if cfg["depth"] else 0
                                     for v, r in zip(rd_init(cfg), cfg["rds"])]]
        print("memory     :", describe(cfg))
        print("init       :", cfg["init"], "(row default from the field defaults:", shape_default(cfg["shape"]), ")")
        print("impl rows / read data :", res.get("obs", [res.get("error")])[0])
        print("declared              :", declared)
        same = "obs" in res and [list(res["obs"][0][0]), list(res["obs"][0][1])] == declared
        print("verdict    :", "agrees" if same else "initial contents differ from the declared ones")
        return common.EXIT_OK if same else common.EXIT_VIOLATION
    op = rep["op"]
    op["wr"] = [tuple(x) for x in op["wr"]]
    op["rd"] = [tuple(x) for x in op["rd"]]
    chk.driver = common.Driver(EXE)
    mp = model_ports(chk, [cfg])[0]
    pre = rep["state_before"]
    clk0, rst0 = rep["clk_before"], rep.get("rst_before", [0] * len(cfg["doms"]))
    res = replay_worker((cfg, pre, clk0, rst0, op))
    post = res["post"]
    clk, rst = (op["clk"], op["rst"]) if op["op"] == "ev" else (clk0, rst0)
    line = (f"(walk {cfg_sexp(cfg, mp)} {state_sexp(pre[0], pre[1], clk0, rst0)} "
            f"{op_sexp(cfg, op, state_sexp(post[0], post[1], clk, rst))})")
    item = chk.driver.ask([line])[0].split(";")[1]
    print("memory     :", describe(cfg))
    print("state      :", pre, "clk", clk0, "rst", rst0)
    print("operation  :", describe_op(op))
    print("impl after :", post)
    print("driver     :", item)
    judge = Judge(chk)
    if op["op"] == "tbw" and res.get("tberr") != item_error(item):
        print("verdict    : row access: implementation", res.get("tberr") or "accepted", "- model/spec", item_error(item) or "accepted")
        return common.EXIT_VIOLATION
    bad = judge.judge(cfg, op, clk0, post, item, {"cfg": cfg, "op": op})
    print("verdict    :", "Spec violated" if bad else ("impl != model" if judge.mism else "agrees with Model and Spec"))
    chk.violations.clear()
    return common.EXIT_VIOLATION if bad or judge.mism else common.EXIT_OK
