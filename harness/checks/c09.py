"""C09 - elaboration and simulation are reproducible.

Level: the theorems (Properties/C09.lean) cover the order-freeness of the modelled functions
(`_create_missing_domains`, the created ports, `BuildPlan.digest`/`archive`), the completeness of
`Simulator.reset()` and the exactness of `BuildPlan.extract`.  The headline claim itself - byte-identical
RTLIL across interpreters with different PYTHONHASHSEEDs - is *exploration* (stream `diff`).

Streams (all from chk.rng):
  sort    random (unicode) name lists: Python `sorted` = model `sortNames` = spec `ascending`.
  frag    random fragment trees built with the raw `Fragment`/`Instance` API (scoped domain definitions,
          statement domains, ClockSignal/ResetSignal references, instance ports) x random `missing_domain`
          callbacks (ClockDomain with/without reset, wrong name, None, an elaboratable) x the iteration
          order this interpreter gives the set: `Fragment._propagate_domains` is compared with the Model
          (whole tree: per-fragment domain order, added `cd_*` subfragments, new domains, error) and the
          ports `Fragment.prepare` appends with the Spec.  A result equal to the *old* model but not to the
          repaired one is F3 seen in-process; it becomes a violation only through `diff`.
  diff    generated designs (>= 2 implicitly created clock domains in most; name clashes; anonymous
          submodules; memories; instances; DomainRenamer / ResetInserter / EnableInserter; Components converted
          with ports=None) are rebuilt from a seed and converted in fresh interpreters under 6 (quick) /
          48 (thorough) PYTHONHASHSEED values, twice in each interpreter; every text (or exception) must
          have the same digest.  On a difference the texts are fetched and the first differing line is
          reported; a difference that only permutes / renumbers the ports of implicitly created domains is
          classified F3.  The domain extraction of the same designs is also sent through `frag`.
  refrag  designs that own `Fragment` objects living across elaborations - built by hand (`Fragment()` +
          add_statements / add_subfragment / add_domains) or obtained once by `Fragment.get(elaboratable, None)` - used
          as submodule directly, inside a Module wrapped by ResetInserter / EnableInserter / DomainRenamer (chains of
          1-2, dict controls over several domains), with the transformer applied to the Fragment itself (once at
          build time, or again in every `elaborate()`), as the top-level object, or returned by an Elaboratable's
          `elaborate()`.  In fresh interpreters under 2 (quick) / 6 hash seeds the same objects are converted three
          times and a design rebuilt from the seed once; all texts (or exceptions, addresses masked) must be one.
          This stream found F36 (a stored Fragment kept the ClockDomain an earlier elaboration created for an implicit
          domain) and F37 (`origins` of a Fragment returned by an Elaboratable grew: DuplicateElaboratable), both fixed
          in /repo; a difference of either shape is labelled with its class in the replay, and the two minimal
          witnesses (one per finding) are converted on every run.
  sim     generated designs (incl. reset-less state: Signal(reset_less=True) registers and chains, FFSynchronizer,
          AsyncFIFO pointers; optionally the domain's own reset asserted during the run)
          + testbenches (set/get/tick/delay/memory access, background testbench, process,
          clocks): run (fully, `run_until`, or k x `advance`) -> dump the engine's object graph -> `reset()`
          -> dump; compared with a freshly constructed simulator and with the Model's `reset` / `initial`;
          then the rerun's observation trace and per-`advance()` progress are compared with the fresh
          simulator's (F21: `_active_triggers` / `_delta_cycles` survive `reset()`).
  poke    the primitive operations of the Model's step function are applied to a real engine
          (`_PySignalState.update`, `_PyMemoryState.write`, `commit`, `_PyTimeline.set_waker/advance`,
          `PyClockProcess.run`) and the object graph is compared after every operation, then after reset.
  plan    `platform.build(..., do_build=False)` of one abstract design 4 (quick) / 6 times in one interpreter on iCE40
          (IceStorm) / ECP5 (Trellis) / Gowin (Apicula) / Nexus (Oxide) and on a plain TemplatedPlatform that carries the
          `.sdc` templates of the Gowin / Diamond / Radiant / iCEcube2 toolchains: every time a NEW platform object, the
          design rebuilt from its seed (new Signal objects) or the same design object again.  The designs constrain
          internal clock nets with `platform.add_clock_constraint()` from inside `elaborate()` - nets of the top module
          or the output of a clock generator submodule (named / anonymous, up to three levels deep), signals held by the
          design object or made by every `elaborate()`, clashing names, a constraint repeated, a constrained signal the
          design never uses - so that the constraint files print hierarchical net paths (the `hierarchy` template
          filter, a closure over the platform object).  All plans of a case must have equal files, script, digest
          and archive bytes and none may raise; the first is compared with the Model / Spec.  The same plans are
          prepared again in fresh interpreters under the hash seeds of `diff`, one after the other in each (digest, file
          order, archive bytes; an exception there where the harness got a plan is a violation).  Synthetic plans with random
          file names (nested, unicode, names that `pathlib` normalises to the same path, file/directory
          conflicts, `..`, absolute) added in two orders: `files`, `digest()` (= BLAKE2b of the Model's digest
          input = of the Spec's identity), `archive` to BytesIO twice (bytes equal; members read back =
          Model = Spec), `extract` into `tempfile.mkdtemp()` (tree = Model = Spec), removed afterwards.
"""
import hashlib
import io
import json
import os
import random
import re
import shutil
import subprocess
import sys
import tempfile
import time
import zipfile
from concurrent.futures import ProcessPoolExecutor, ThreadPoolExecutor

from .. import common

LEVEL = "proof"
EXE = "amodel_c09"

F3 = "F3"
F21 = "F21"

DOMAIN_POOL = ["alpha", "beta", "gamma", "delta", "eps", "pix", "aux", "fast", "slow", "d0", "d1", "d2", "Z", "_x",
               "sync2", "usb", "ddr"]
SIG_NAMES = ["a", "b", "x", "y", "s", "t", "q", "r"]


def q(s):
    return '"' + s.replace("\\", "\\\\").replace('"', '\\"').replace("\n", "\\n") + '"'


# ================================================================================================
# designs for the subprocess differential (rebuilt from a seed in every interpreter)

def _retarget(items, dom):
    out = []
    for it in items:
        if it[0] == "assign":
            _, d, t, rhs = it
            out.append(("assign", dom if d == "sync" else "comb", t, rhs))
        elif it[0] == "if":
            _, branches, els = it
            out.append(("if", [(c, _retarget(b, dom)) for c, b in branches],
                        _retarget(els, dom) if els is not None else None))
        elif it[0] == "switch":
            _, test, cases = it
            out.append(("switch", test, [(p, _retarget(b, dom)) for p, b in cases]))
        # any other kind of item the shared generator may produce (FSMs) is not used here
    return out


def _only(items, dom):
    """the items that assign in `dom` only (so that a comb target is not driven from two generator calls)"""
    out = []
    for it in items:
        if it[0] == "assign":
            if it[1] == dom:
                out.append(it)
        elif it[0] == "if":
            _, branches, els = it
            out.append(("if", [(c, _only(b, dom)) for c, b in branches], _only(els, dom) if els is not None else None))
        elif it[0] == "switch":
            _, test, cases = it
            out.append(("switch", test, [(p, _only(b, dom)) for p, b in cases]))
    return out


class _Fresh:
    def __init__(self, tg):
        self.tg = tg

    def target(self, d):
        self.tg.used = set()
        return self.tg.target(d)


def build_design(seed):
    """returns (top, convert kwargs, meta).  Deterministic in `seed` alone."""
    from amaranth.hdl import (Signal, Module, ClockDomain, ClockSignal, ResetSignal, Instance, DomainRenamer,
                              ResetInserter, EnableInserter, Elaboratable, unsigned, signed, Const)
    from amaranth.lib import wiring, memory
    from amaranth.lib.wiring import In, Out
    from .. import gen_expr, gen_prog
    rng = random.Random(seed)
    meta = {"seed": seed}
    r = rng.random()
    n_imp = 0 if r < 0.04 else 1 if r < 0.10 else rng.randint(2, 6)
    implicit = rng.sample(DOMAIN_POOL + ["sync"], n_imp)
    declared_top = [d for d in rng.sample(DOMAIN_POOL, rng.randint(0, 2)) if d not in implicit]
    meta["implicit"] = sorted(implicit)
    meta["declared_top"] = declared_top
    hist = {}
    counter = [0]

    def fresh_name(clash=0.3):
        if rng.random() < clash:
            return rng.choice(SIG_NAMES)
        counter[0] += 1
        return f"n{counter[0]}"

    inputs = [Signal(gen_expr.rand_shape(rng, 5), name=fresh_name(0.2)) for _ in range(rng.randint(2, 4))]
    offs = [Signal(unsigned(rng.randint(1, 3)), name=fresh_name(0.2)) for _ in range(rng.randint(1, 2))]
    outputs = []
    all_inputs = inputs + offs
    input_ids = {id(x) for x in all_inputs}

    def is_input(x):
        return id(x) in input_ids

    def mk_sig():
        sh = gen_expr.rand_shape(rng, 6)
        return Signal(sh, name=fresh_name(), init=gen_expr.rand_value(rng, sh))

    def fill_module(m, domains, readable, depth):
        """statements of one module: per domain its own target signals"""
        combT = [mk_sig() for _ in range(rng.randint(1, 2))]
        per_dom = {d: [mk_sig() for _ in range(rng.randint(1, 2))] for d in domains}
        regs = [s for ss in per_dom.values() for s in ss]
        offcands = [s for s in readable if not s.shape().signed and 1 <= len(s) <= 3] or offs
        g_comb = gen_expr.Gen(rng, readable + regs, maxw=6)
        g_sync = gen_expr.Gen(rng, readable + regs + combT, maxw=6)
        tg_comb = gen_expr.TargetGen(rng, combT, offcands, alias=False, hist=hist)
        first = True
        for d in domains or [None]:
            tg_sync = gen_expr.TargetGen(rng, per_dom.get(d, []), offcands, alias=False, hist=hist)
            try:
                items = gen_prog.gen_items(rng, g_comb, g_sync, _Fresh(tg_comb), _Fresh(tg_sync), depth, hist,
                                           allow_fsm=False, n=rng.randint(1, 3))
            except Exception:   # noqa: BLE001  (generator dead end; deterministic in the seed)
                items = []
            if d is None:
                items = _only(items, "comb")
            elif not first:
                items = _only(items, "sync")
            gen_prog.build(m, _retarget(items, d))
            if d is not None and rng.random() < 0.7:        # make sure the domain is really used
                m.d[d] += per_dom[d][0].eq(per_dom[d][0] + 1)
            first = False
        # named signals with attributes aliasing the same nets (their attributes are merged on one wire's nets)
        if rng.random() < 0.35 and readable:
            src = rng.choice(readable)
            chain = []
            for j in range(rng.randint(2, 3)):
                attrs = {rng.choice(["mark", "keep", "syn_keep", "mark" + str(j)]): rng.choice(["yes", 1, "x" * j])}
                chain.append(Signal(src.shape(), name=fresh_name(), attrs=attrs))
            m.d.comb += chain[0].eq(src + 1 if rng.random() < 0.6 else src)
            for a, b in zip(chain, chain[1:]):
                m.d.comb += b.eq(a)
            combT.extend(chain)
            hist["attr_alias_chain"] = hist.get("attr_alias_chain", 0) + 1
        # references to clock and reset signals of domains
        for d in domains:
            if rng.random() < 0.25:
                y = Signal(name=fresh_name())
                m.d.comb += y.eq(ClockSignal(d) ^ (ResetSignal(d, allow_reset_less=True) if rng.random() < 0.5 else 0))
                combT.append(y)
        return combT + regs

    def make_module(level, visible_domains, readable):
        m = Module()
        k = rng.randint(0, min(3, len(visible_domains)))
        doms = rng.sample(visible_domains, k) if visible_domains else []
        if level == 0 and visible_domains:
            doms = list(dict.fromkeys(doms + rng.sample(visible_domains, min(2, len(visible_domains)))))
        # a domain declared here (visible below, not above)
        local_decl = []
        if level > 0 and rng.random() < 0.25:
            nm = rng.choice(DOMAIN_POOL)
            m.domains += ClockDomain(nm, reset_less=rng.random() < 0.4, local=rng.random() < 0.5)
            local_decl = [nm]
            doms = list(dict.fromkeys(doms + [nm]))
        driven = fill_module(m, doms, readable, rng.randint(1, 2))
        # memory
        if rng.random() < 0.3:
            depth = rng.choice([2, 3, 4, 8])
            mem = memory.Memory(shape=rng.choice([unsigned(4), signed(5), unsigned(1)]), depth=depth,
                                init=[rng.randint(0, 1) for _ in range(rng.randint(0, depth))])
            if rng.random() < 0.5:
                m.submodules += mem
            else:
                m.submodules[rng.choice(["mem", "a", "x"]) + str(counter[0])] = mem
            counter[0] += 1
            rd_dom = rng.choice((doms or ["comb"]) + ["comb"])
            rp = mem.read_port(domain=rd_dom)
            m.d.comb += rp.addr.eq(rng.choice(readable)[:len(rp.addr)])
            out = Signal(len(rp.data), name=fresh_name())
            m.d.comb += out.eq(rp.data)
            driven.append(out)
            if doms:
                wp = mem.write_port(domain=rng.choice(doms))
                m.d.comb += [wp.addr.eq(rng.choice(readable)[:len(wp.addr)]), wp.data.eq(rng.choice(readable)[:len(wp.data)]),
                             wp.en.eq(rng.choice(readable)[:1])]
        # instance
        if rng.random() < 0.3:
            y = Signal(rng.randint(1, 4), name=fresh_name())
            args = dict(p_WIDTH=len(y), a_keep=1, i_a=rng.choice(readable), o_y=y)
            if visible_domains and rng.random() < 0.7:
                args["i_clk"] = ClockSignal(rng.choice(visible_domains))
            inst = Instance(rng.choice(["prim", "cell_a", "a"]), **args)
            if rng.random() < 0.5:
                m.submodules += inst
            else:
                m.submodules[rng.choice(["u", "a", "y"]) + str(counter[0])] = inst
            counter[0] += 1
            driven.append(y)
        # children
        if level < 2:
            for _ in range(rng.choice([0, 0, 1, 1, 2, 3]) if level == 0 else rng.choice([0, 0, 1])):
                sub, sub_driven = make_module(level + 1, visible_domains + local_decl, readable + driven[:2])
                wrap = rng.random()
                if wrap < 0.15 and visible_domains:
                    sub = DomainRenamer({rng.choice(visible_domains): rng.choice(visible_domains + DOMAIN_POOL[:3])})(sub)
                elif wrap < 0.25 and visible_domains:
                    ctl = Signal(name=fresh_name())
                    readable.append(ctl)
                    sub = (ResetInserter if rng.random() < 0.5 else EnableInserter)({rng.choice(visible_domains): ctl})(sub)
                nm = rng.random()
                if nm < 0.45:
                    m.submodules += sub                      # anonymous
                elif nm < 0.7:
                    m.submodules[rng.choice(SIG_NAMES)] = sub   # may clash with a signal name (never twice: see below)
                else:
                    counter[0] += 1
                    m.submodules[f"sub{counter[0]}"] = sub
                driven += sub_driven[:2]
        return m, driven

    top_doms = implicit + declared_top
    # Module.submodules refuses a duplicate name: retry the whole construction with a derived seed
    try:
        m, driven = make_module(0, top_doms, list(all_inputs))
    except NameError:
        return build_design(seed * 7919 + 13)
    for d in declared_top:
        m.domains += ClockDomain(d, reset_less=rng.random() < 0.3)
    style = rng.choice(["list", "list", "dict", "empty", "component", "tuple-named"])
    kwargs = {"emit_src": rng.random() < 0.3}
    outs = [s for s in driven if len(s) > 0][:rng.randint(1, 4)]
    # top-level ports must have distinct names unless named explicitly
    seen = set()
    seen_ids = set()
    ports_sigs = []
    for s in all_inputs + outs:
        if s.name not in seen and id(s) not in seen_ids:
            seen.add(s.name)
            seen_ids.add(id(s))
            ports_sigs.append(s)
    top = m
    if style == "list":
        kwargs["ports"] = ports_sigs
    elif style == "dict":
        from amaranth.hdl._ir import PortDirection
        kwargs["ports"] = {f"p{i}": (s, rng.choice([None, PortDirection.Input if is_input(s) else PortDirection.Output]))
                           for i, s in enumerate(all_inputs + outs)}
    elif style == "tuple-named":
        kwargs["ports"] = [(f"port_{i}", s, None) if rng.random() < 0.5 and True else s for i, s in enumerate(ports_sigs)]
    elif style == "empty":
        kwargs["ports"] = ()
    else:
        sig = {}
        members = {}
        for i, s in enumerate(ports_sigs[:4]):
            members[f"m{i}"] = (In if is_input(s) else Out)(s.shape())

        class Top(wiring.Component):
            def __init__(self):
                super().__init__(members)

            def elaborate(self, platform):
                mm = Module()
                mm.submodules.inner = m
                for i, s in enumerate(ports_sigs[:4]):
                    if is_input(s):
                        mm.d.comb += s.eq(getattr(self, f"m{i}"))
                    else:
                        mm.d.comb += getattr(self, f"m{i}").eq(s)
                # the wrapper uses the implicit domains too, so that they are created at the top
                for d in implicit[:3]:
                    t = Signal(name=f"tick_{d}")
                    mm.d[d] += t.eq(~t)
                return mm
        top = Top()
        kwargs["ports"] = None
    meta["style"] = style
    meta["emit_src"] = kwargs["emit_src"]
    return top, kwargs, meta


def convert_once(seed):
    """build the design of `seed` and convert it; returns (kind, text)"""
    import warnings
    warnings.simplefilter("ignore")
    from amaranth.back import rtlil
    try:
        top, kwargs, _meta = build_design(seed)
    except Exception as e:  # noqa: BLE001
        return "build-error", f"{common.errkind(e)}: {e}"
    try:
        return "ok", rtlil.convert(top, **kwargs)
    except Exception as e:  # noqa: BLE001
        return "error", f"{common.errkind(e)}: {e}"


def convert_same_twice(seed):
    """build the design of `seed` once and convert that same object twice"""
    import warnings
    warnings.simplefilter("ignore")
    from amaranth.back import rtlil
    try:
        top, kwargs, _meta = build_design(seed)
    except Exception as e:  # noqa: BLE001
        r = ("build-error", f"{common.errkind(e)}: {e}")
        return r, r
    out = []
    for _ in range(2):
        try:
            out.append(("ok", rtlil.convert(top, **kwargs)))
        except Exception as e:  # noqa: BLE001
            out.append(("error", f"{common.errkind(e)}: {e}"))
    return out[0], out[1]


# ================================================================================================
# designs that OWN `Fragment` objects (stream `refrag`)
#
# `Module.elaborate()` makes its fragments afresh on every elaboration, so a transformer or a later pass that
# writes into the fragment it is given stays invisible in the designs above.  The designs here keep `Fragment`
# objects alive across elaborations: built by hand (`Fragment()` + add_statements / add_subfragment /
# add_domains) or obtained once with `Fragment.get(elaboratable, None)`, then used as a submodule (directly,
# inside a Module that is wrapped by ResetInserter / EnableInserter / DomainRenamer, or with the transformer
# applied to the Fragment itself - once when the design is built, or again in every `elaborate()`), as the
# top-level object, or returned by an Elaboratable's `elaborate()`.  The same objects are converted three
# times and a design rebuilt from the seed once: the four texts must be byte-identical.

# both findings are fixed in /repo (bfe88ac, 2dffbb9; reproducers prelim/repro/c09_reused_fragment_*.py): the classes only label
# a replay, a difference of either shape is a violation like any other
F37 = "F37"     # an Elaboratable whose elaborate() returns a stored Fragment: Fragment.get prepended it to the Fragment's
                # `origins` on every elaboration, the second conversion raised DuplicateElaboratable
F36 = "F36"     # a stored Fragment kept the ClockDomain objects propagated into it (or created in it) by the first
                # elaboration: F32's mechanism on plain Fragments (the repair of F32 covered Instance/IOBufferInstance)

REFRAG_DOMS = ["sync", "pix", "aux", "fast"]
REFRAG_WITNESSES = {-1: "witness-origins", -2: "witness-stale-domain"}


def build_refrag(seed):
    """returns (top, convert kwargs, meta).  Deterministic in `seed` alone; elaborating the result does not draw
    random numbers (everything random is decided here)."""
    from amaranth.hdl import (Signal, Module, ClockDomain, DomainRenamer, ResetInserter, EnableInserter, Elaboratable,
                              Fragment, Mux, Cat, Const)
    if seed in REFRAG_WITNESSES:
        a, o = Signal(4, name="a"), Signal(4, name="o")
        fr = Fragment()
        if seed == -1:
            fr.add_statements("comb", o.eq(a + 1))

            class W(Elaboratable):
                def elaborate(self, platform):
                    return fr
            top = W()
            meta = {"seed": seed, "top": "witness", "mode": "declared", "implicit": [], "returns_stored": True}
        else:
            fr.add_statements("sync", o.eq(a + 1))
            top = Module()
            top.submodules += fr
            meta = {"seed": seed, "top": "witness", "mode": "implicit", "implicit": ["sync"], "returns_stored": False}
        meta.update({"features": [REFRAG_WITNESSES[seed]], "transforms": [], "reset_over_stored": False, "frags": ["hand"]})
        return top, {"ports": [a, o], "emit_src": False}, meta

    rng = random.Random(f"refrag-{seed}")
    doms = rng.sample(REFRAG_DOMS, rng.choice([1, 1, 2, 2, 3]))
    r = rng.random()
    mode = "implicit" if r < 0.10 else "declared"
    returns_stored = rng.random() < 0.07
    top_kind = rng.choice(["module", "module", "elab", "elab", "elab", "fragtop", "gettop"])
    used = set(doms)                   # every domain name some statement ends up in (after renaming)
    features = set()
    xforms = []
    counter = [0]
    ins = [Signal(rng.randint(1, 6), name=f"i{k}") for k in range(rng.randint(2, 3))]
    ctls = []
    outs = []

    def nm(prefix):
        counter[0] += 1
        return f"{prefix}{counter[0]}"

    def reg():
        w = rng.randint(1, 6)
        s = Signal(w, name=nm("r"), init=rng.randint(0 if rng.random() < 0.2 else 1, (1 << w) - 1),
                   reset_less=rng.random() < 0.1)
        outs.append(s)
        return s

    def ctl():
        c = Signal(name=nm("c"))
        ctls.append(c)
        return c

    def expr(pool):
        a, b = rng.choice(pool), rng.choice(pool)
        k = rng.randint(0, 6)
        if k == 0:
            return a + b
        if k == 1:
            return a ^ b
        if k == 2:
            return Mux(rng.choice(ins)[0], a, b - 1)
        if k == 3:
            return ~a
        if k == 4:
            return Cat(a[:rng.randint(0, len(a))], b)
        if k == 5:
            return (a == b) | (a[0] & b[-1])
        return a + Const(rng.randint(0, 7), 3)

    def hand_frag(depth, my_doms):
        f = Fragment()
        regs = []
        for d in my_doms:
            for _ in range(rng.randint(1, 2)):
                x = reg()
                regs.append(x)
                f.add_statements(d, x.eq(expr(ins + regs)))
        if rng.random() < 0.6:
            y = Signal(rng.randint(1, 6), name=nm("y"))
            outs.append(y)
            f.add_statements("comb", y.eq(expr(ins + regs)))
        if rng.random() < 0.15:                          # a domain the fragment defines itself
            f.add_domains(ClockDomain("loc", reset_less=rng.random() < 0.5))
            x = reg()
            f.add_statements("loc", x.eq(x + 1))
            features.add("own-domain")
        if depth > 0 and rng.random() < 0.4:
            child = (hand_frag if rng.random() < 0.6 else got_frag)(depth - 1, my_doms)
            f.add_subfragment(child, rng.choice([None, "c", "core"]))
            features.add("nested")
        return f

    def got_frag(depth, my_doms):
        m = Module()
        regs = []
        for d in my_doms:
            x, y = reg(), reg()
            regs += [x, y]
            with m.If(rng.choice(ins)[0]):
                m.d[d] += x.eq(expr(ins + regs))
            with m.Else():
                m.d[d] += [x.eq(x - 1), y.eq(expr(ins + regs))]
            if rng.random() < 0.5:
                z = reg()
                with m.Switch(rng.choice(ins)):
                    with m.Case(0):
                        m.d[d] += z.eq(expr(ins + regs))
                    with m.Default():
                        m.d.comb += Signal(name=nm("y")).eq(z[0])
        if depth > 0 and rng.random() < 0.3:
            m.submodules[rng.choice(["leaf", "core"])] = hand_frag(depth - 1, my_doms)
            features.add("nested")
        if rng.random() < 0.5:
            class Leaf(Elaboratable):
                def elaborate(self, platform):
                    return m
            return Fragment.get(Leaf(), None)
        return Fragment.get(m, None)

    def transform(cur):
        """a chain of 1-2 transformers aimed (mostly) at the domains `cur`; returns (function, domains afterwards)"""
        chain = []
        cur = list(cur)
        for _ in range(rng.choice([1, 1, 1, 2])):
            k = rng.choice(["reset", "reset", "enable", "rename"])
            if k == "rename":
                src = rng.choice(cur)
                dst = rng.choice([d for d in REFRAG_DOMS if d != src])
                if dst in cur:
                    continue
                chain.append(DomainRenamer({src: dst}) if rng.random() < 0.7 or src != "sync" else DomainRenamer(dst))
                cur[cur.index(src)] = dst
                used.add(dst)
            else:
                tg = [d for d in cur if rng.random() < 0.8] or [rng.choice(cur)]
                if rng.random() < 0.1:
                    tg.append(rng.choice(REFRAG_DOMS))      # a domain that may not occur below
                ctrl = {d: ctl() for d in dict.fromkeys(tg)}
                cls = ResetInserter if k == "reset" else EnableInserter
                chain.append(cls(ctrl["sync"]) if list(ctrl) == ["sync"] and rng.random() < 0.5 else cls(ctrl))
            xforms.append(k)

        def apply(obj):
            for t in chain:
                obj = t(obj)
            return obj
        return apply, cur, [type(t).__name__ for t in chain]

    # the stored fragments and where they go
    places = []                       # (submodule name or None, function returning the submodule)
    frag_kinds = []
    reset_over_stored = False
    for _ in range(rng.randint(1, 3)):
        my = rng.sample(doms, rng.randint(1, min(2, len(doms))))
        kind = rng.choice(["hand", "hand", "got"])
        frag_kinds.append(kind)
        f = (hand_frag if kind == "hand" else got_frag)(rng.randint(0, 1), my)
        name = rng.choice([None, None, nm("u"), nm("core")])
        if returns_stored and not any(p[2] == "returns-stored" for p in places):
            class W(Elaboratable):
                def __init__(self, f):
                    self.f = f

                def elaborate(self, platform):
                    return self.f
            w = W(f)
            if rng.random() < 0.4:
                ap, _cur, names = transform(my)
                w = ap(w)
            places.append((name, (lambda w=w: w), "returns-stored"))
            continue
        how = rng.choice(["direct", "xf-build", "xf-elab", "xf-elab", "inner-xf", "inner-xf", "inner-xf-stored"])
        if how == "direct":
            places.append((name, (lambda f=f: f), how))
            continue
        ap, cur, names = transform(my)
        reset_over_stored = reset_over_stored or "ResetInserter" in names
        if how == "xf-build":
            g = ap(f)
            places.append((name, (lambda g=g: g), how))
        elif how == "xf-elab":
            places.append((name, (lambda f=f, ap=ap: ap(f)), how))
        else:
            acc = reg()
            d0 = my[0]
            st = acc.eq(acc + outs[0][0])
            inner_name = rng.choice([None, "core", "blk"])

            def mk_inner(f=f, ap=ap, d0=d0, st=st, inner_name=inner_name):
                inner = Module()
                if inner_name is None:
                    inner.submodules += f
                else:
                    inner.submodules[inner_name] = f
                inner.d[d0] += st
                return ap(inner)
            if how == "inner-xf-stored":
                g = mk_inner()
                places.append((name, (lambda g=g: g), how))
            else:
                places.append((name, mk_inner, how))
    for _n, _mk, how in places:
        features.add(how)

    # the clock domains the design owns (the same ClockDomain objects in every elaboration)
    declared = sorted(used)
    implicit = []
    if mode == "implicit":
        implicit = sorted(rng.sample(declared, rng.randint(1, len(declared))))
        declared = [d for d in declared if d not in implicit]
    cds = [ClockDomain(d, reset_less=rng.random() < 0.25, async_reset=rng.random() < 0.2) for d in declared]
    top_regs = []
    top_stmts = []
    for d in rng.sample(doms, rng.randint(0, len(doms))):
        x = reg()
        top_regs.append(x)
        top_stmts.append((d, x.eq(expr(ins + outs))))

    def construct():
        m = Module()
        for cd in cds:
            m.domains += cd
        for d, st in top_stmts:
            m.d[d] += st
        for name, mk, _how in places:
            if name is None:
                m.submodules += mk()
            else:
                m.submodules[name] = mk()
        return m

    class Top(Elaboratable):
        def elaborate(self, platform):
            return construct()

    if top_kind == "module":
        top = construct()
    elif top_kind == "elab":
        top = Top()
    elif top_kind == "gettop":
        top = Fragment.get(Top(), None)
    else:
        top = Fragment()
        top.add_domains(cds)
        for d, st in top_stmts:
            top.add_statements(d, st)
        for name, mk, _how in places:
            top.add_subfragment(Fragment.get(mk(), None), name)
    ports = list(ins) + list(ctls) + [s for s in outs if rng.random() < 0.4]
    for cd in cds:
        if rng.random() < 0.5:
            ports.append(cd.clk)
            if cd.rst is not None and rng.random() < 0.5:
                ports.append(cd.rst)
    meta = {"seed": seed, "top": top_kind, "mode": mode, "implicit": implicit, "declared": declared,
            "returns_stored": any(p[2] == "returns-stored" for p in places), "features": sorted(features),
            "transforms": xforms, "reset_over_stored": reset_over_stored, "frags": frag_kinds}
    return top, {"ports": ports, "emit_src": rng.random() < 0.2}, meta


def convert_refrag(seed, n_same=3):
    """build the design of `seed` once, convert the same objects `n_same` times, then rebuild it and convert once
    more; returns a list of (kind, text)"""
    import warnings
    warnings.simplefilter("ignore")
    from amaranth.back import rtlil
    out = []
    for rebuilt in (False, True):
        try:
            top, kwargs, _meta = build_refrag(seed)
        except Exception as e:  # noqa: BLE001
            out += [("build-error", f"{common.errkind(e)}: {e}")] * (1 if rebuilt else n_same)
            continue
        for _ in range(1 if rebuilt else n_same):
            try:
                out.append(("ok", rtlil.convert(top, **kwargs)))
            except Exception as e:  # noqa: BLE001
                out.append(("error", re.sub(r" at 0x[0-9a-fA-F]+", " at 0x?", f"{common.errkind(e)}: {e}")))
    return out


def classify_refrag(meta, kinds, texts):
    """classes of a design whose conversions differ.  Both classes demand that the first conversion equals the
    rebuilt design's (so the difference is an effect of the earlier elaboration on the stored objects).
    F37: the design has an Elaboratable returning a stored Fragment, and every later conversion of the same objects
    raises DuplicateElaboratable.  F36: a stored Fragment uses an implicitly created domain, every conversion succeeds,
    and the texts are equal line for line (as multisets, port numbers aside) once the clock and reset of such domains read
    as constant 0 - what a stale ClockDomain gives - and the lines declaring / connecting those wires are left out."""
    import re
    import collections
    if kinds[0] != kinds[-1] or texts[0] != texts[-1]:
        return []
    same = list(zip(kinds[1:-1], texts[1:-1]))
    if meta.get("returns_stored") and kinds[0] == "ok" and same and \
            all(k == "error" and "DuplicateElaboratable:" in t[:40] and "is included twice" in t for k, t in same):
        return [F37]
    imp = meta.get("implicit") or []
    if imp and all(k == "ok" for k in kinds):
        dom_sigs = set()
        for d in imp:
            dom_sigs |= {"clk", "rst"} if d == "sync" else {f"{d}_clk", f"{d}_rst"}
        pat = re.compile(r"\\(" + "|".join(sorted(dom_sigs)) + r")(\$\d+)? \[0\]")

        def view(t):
            out = collections.Counter()
            for l in t.splitlines():
                l = pat.sub("1'0", _norm_line(l))
                if not l.strip() or l.strip().startswith("attribute \\src ") or \
                        set(x.split("$")[0] for x in re.findall(r"\\([A-Za-z0-9_$]+)", l)) & dom_sigs:
                    continue
                out[l] += 1
            return out
        base = view(texts[0])
        if any(view(t) != base for _k, t in same):
            return []
        return [F36]
    return []


def child_main():
    """runs in a fresh interpreter: argv = mode, design seeds...; prints one JSON line"""
    mode = sys.argv[1]
    seeds = [int(x) for x in sys.argv[2:]]
    out = []
    if mode in ("refrag", "refrag-text"):
        for s in seeds:
            res = convert_refrag(s)
            rec = {"seed": s, "kind": [k for k, _t in res], "sha": [hashlib.sha256(t.encode()).hexdigest() for _k, t in res],
                   "lines": res[0][1].count("\n")}
            if mode == "refrag-text":
                rec["text"] = [t for _k, t in res]
            out.append(rec)
        sys.stdout.write(json.dumps({"hashseed": os.environ.get("PYTHONHASHSEED"), "results": out}) + "\n")
        return
    if mode == "plan":
        import warnings
        warnings.simplefilter("ignore")
        for s in seeds:
            for kind in PLATFORM_KINDS:      # every plan: a new platform object and the design built anew
                try:
                    plan = make_platform(kind).build(platform_design(s), do_build=False)
                    files = {n: hashlib.sha256(c.encode("utf-8") if isinstance(c, str) else bytes(c)).hexdigest()
                             for n, c in plan.files.items()}
                    out.append({"seed": s, "kind": kind, "digest": plan.digest().hex(), "files": files,
                                "order": list(plan.files), "archive": hashlib.sha256(archive_bytes(plan)).hexdigest()})
                except Exception as e:  # noqa: BLE001
                    out.append({"seed": s, "kind": kind, "error": f"{common.errkind(e)}: {e}"[:300]})
        sys.stdout.write(json.dumps({"hashseed": os.environ.get("PYTHONHASHSEED"), "results": out}) + "\n")
        return
    for s in seeds:
        # the design object converted twice (conversion must not change the design), then rebuilt and converted
        (k1, t1), (k2, t2) = convert_same_twice(s)
        k3, t3 = convert_once(s)
        rec = {"seed": s, "kind": [k1, k2, k3],
               "sha": [hashlib.sha256(t.encode()).hexdigest() for t in (t1, t2, t3)],
               "lines": t1.count("\n")}
        if mode == "text":
            rec["text"] = [t1, t2, t3]
        out.append(rec)
    sys.stdout.write(json.dumps({"hashseed": os.environ.get("PYTHONHASHSEED"), "results": out}) + "\n")


def run_child(hashseed, seeds, mode="sha"):
    env = dict(os.environ)
    env["PYTHONHASHSEED"] = str(hashseed)
    env["PYTHONPATH"] = common.REPO
    env["VERIF_REPO"] = common.REPO
    code = "import sys; sys.path.insert(0, %r); from harness.checks import c09; c09.child_main()" % common.VERIF
    p = subprocess.run(["/venv/bin/python", "-c", code, mode] + [str(s) for s in seeds], capture_output=True, text=True,
                       env=env, cwd=common.VERIF, timeout=1800)
    lines = [l for l in p.stdout.splitlines() if l.startswith("{")]
    if p.returncode != 0 or not lines:
        raise common.Infra(f"C09 child (PYTHONHASHSEED={hashseed}) failed rc={p.returncode}: {p.stderr[-800:]}")
    return json.loads(lines[-1])


# ================================================================================================
# the subprocess differential

def _norm_line(l):
    import re
    return re.sub(r"\b(input|output|inout) \d+\b", r"\1 #", l)


def classify_text_diff(meta, ta, tb):
    """(first differing line number, line a, line b, classes).  F3: the two texts have the same lines up to
    order and port numbering, and every line that differs in place names the clock or reset signal of an
    implicitly created domain."""
    import re
    la, lb = ta.splitlines(), tb.splitlines()
    first = next((i for i, (x, y) in enumerate(zip(la, lb)) if x != y), min(len(la), len(lb)))
    xa = la[first] if first < len(la) else "<end of text>"
    xb = lb[first] if first < len(lb) else "<end of text>"
    classes = []
    imp = meta.get("implicit", [])
    if len(imp) >= 2 and len(la) == len(lb):
        na, nb = [_norm_line(l) for l in la], [_norm_line(l) for l in lb]
        if sorted(na) == sorted(nb):
            dom_sigs = set()
            for d in imp:
                dom_sigs |= {"clk", "rst"} if d == "sync" else {f"{d}_clk", f"{d}_rst"}
            ok = True
            for x, y in zip(la, lb):
                if x != y:
                    names = set(re.findall(r"\\([A-Za-z0-9_]+)", x + " " + y))
                    if not (names & dom_sigs):
                        ok = False
                        break
            if ok:
                classes = [F3]
    return first + 1, xa, xb, classes


def stream_diff(chk, n_designs, hashseeds, chunk):
    rng = chk.rng
    seeds = [rng.getrandbits(40) for _ in range(n_designs)]
    chunks = [seeds[i:i + chunk] for i in range(0, len(seeds), chunk)]
    jobs = [(h, c) for c in chunks for h in hashseeds]
    table = {}                      # design seed -> {hashseed: (kind, sha) pairs}
    with ThreadPoolExecutor(max_workers=min(16, os.cpu_count() or 4)) as ex:
        for (h, c), res in zip(jobs, ex.map(lambda j: run_child(j[0], j[1]), jobs)):
            for r in res["results"]:
                table.setdefault(r["seed"], {})[h] = r
    n_diff = 0
    differing = []
    for s in seeds:
        per = table[s]
        try:
            _top, _kw, meta = build_design(s)
        except Exception as e:  # noqa: BLE001
            meta = {"seed": s, "implicit": [], "style": "build-error:" + common.errkind(e)}
        chk.count(3 * len(per))
        chk.hist("diff: implicit domains", len(meta.get("implicit", [])))
        chk.hist("diff: port style", meta.get("style"))
        chk.hist("diff: outcome", per[hashseeds[0]]["kind"][0])
        chk.distinct(("diff", s), nontrivial=len(meta.get("implicit", [])) >= 2)
        shas = {}
        for h in hashseeds:
            for k in range(len(per[h]["sha"])):
                shas.setdefault(per[h]["sha"][k], []).append((h, k))
        if len(shas) == 1:
            chk.sample({"stream": "diff", "design_seed": s, "implicit": meta.get("implicit"), "style": meta.get("style"),
                        "rtlil_lines": per[hashseeds[0]]["lines"], "sha256": next(iter(shas))[:16],
                        "hashseeds": len(hashseeds)}, limit=3)
            continue
        n_diff += 1
        groups = sorted(shas.values(), key=lambda g: (-len(g), g))
        same_interp = any(len(set(per[h]["sha"])) > 1 for h in hashseeds)
        differing.append((s, meta, groups[0][0], groups[1][0], len(shas), same_interp))
    # fetch the texts of the differing designs (one child per hash seed, in parallel)
    want = {}
    for s, _meta, (ha, _ka), (hb, _kb), _n, _si in differing:
        want.setdefault(ha, set()).add(s)
        want.setdefault(hb, set()).add(s)
    fetch = [(h, sorted(ss)[i:i + 8]) for h, ss in sorted(want.items()) for i in range(0, len(ss), 8)]
    texts = {}
    with ThreadPoolExecutor(max_workers=min(16, os.cpu_count() or 4)) as ex:
        for (h, _c), res in zip(fetch, ex.map(lambda j: run_child(j[0], j[1], mode="text"), fetch)):
            for r in res["results"]:
                texts[(h, r["seed"])] = r["text"]
    for s, meta, (ha, ka), (hb, kb), n_texts, same_interp in differing:
        ta, tb = texts[(ha, s)][ka], texts[(hb, s)][kb]
        if ta == tb:          # not reproduced when run again: a difference between two runs under one hash seed
            line, xa, xb, classes = 0, "", "", []
            same_interp = True
        else:
            line, xa, xb, classes = classify_text_diff(meta, ta, tb)
        if same_interp:
            classes = []
        chk.hist("diff: differing designs", ",".join(classes) or "unclassified")
        report(chk,
               f"rtlil.convert of design seed {s} differs between PYTHONHASHSEED={ha} (run {ka + 1}) and {hb} (run {kb + 1}): "
               f"{n_texts} distinct texts over {len(hashseeds)} seeds x 3 conversions (1, 2: the same object; 3: rebuilt); first difference at line {line}: {xa.strip()!r} / {xb.strip()!r}",
               {"stream": "diff", "design_seed": s, "meta": meta, "hashseed_a": ha, "hashseed_b": hb, "line": line,
                "line_a": xa, "line_b": xb, "distinct_texts": n_texts, "differs_within_one_interpreter": same_interp,
                "replay": f"PYTHONHASHSEED={ha} vs {hb}: cd /verif && /venv/bin/python -c \"from harness.checks import c09; "
                          f"print(c09.convert_once({s})[1])\"",
                "classes": classes})
    chk.extra.setdefault("diff", {}).update({"designs": n_designs, "hashseeds": list(hashseeds), "differing": n_diff})
    return seeds


def stream_refrag(chk, n_designs, hashseeds, chunk):
    """designs owning Fragment objects: the same objects converted three times + once rebuilt, in fresh
    interpreters under `hashseeds`; all texts (or exceptions) of a design must be one"""
    rng = chk.rng
    seeds = sorted(REFRAG_WITNESSES) + [rng.getrandbits(40) for _ in range(n_designs)]
    chunks = [seeds[i:i + chunk] for i in range(0, len(seeds), chunk)]
    jobs = [(h, c) for c in chunks for h in hashseeds]
    table = {}
    with ThreadPoolExecutor(max_workers=min(16, os.cpu_count() or 4)) as ex:
        for (h, _c), res in zip(jobs, ex.map(lambda j: run_child(j[0], j[1], mode="refrag"), jobs)):
            for r in res["results"]:
                table.setdefault(r["seed"], {})[h] = r
    import warnings
    warnings.simplefilter("ignore")
    differing = []
    for s in seeds:
        per = table[s]
        try:
            _top, _kw, meta = build_refrag(s)
        except Exception as e:  # noqa: BLE001
            meta = {"seed": s, "top": "build-error:" + common.errkind(e), "features": [], "transforms": [], "frags": []}
        first = per[hashseeds[0]]
        chk.count(sum(len(per[h]["sha"]) for h in hashseeds))
        chk.hist("refrag: top object", meta.get("top"))
        chk.hist("refrag: domains", meta.get("mode"))
        chk.hist("refrag: outcome of the first conversion", first["kind"][0] if first["kind"][0] != "error" else "error")
        for f in meta.get("features", []):
            chk.hist("refrag: placement of a stored Fragment", f)
        for f in meta.get("frags", []):
            chk.hist("refrag: stored Fragment made by", {"hand": "Fragment() + add_*", "got": "Fragment.get once"}.get(f, f))
        for t in meta.get("transforms", []) or ["none"]:
            chk.hist("refrag: transformer over a stored Fragment", t)
        chk.hist("refrag: ResetInserter covers a stored Fragment", bool(meta.get("reset_over_stored")))
        chk.distinct(("refrag", s), nontrivial=bool(meta.get("transforms")) and first["kind"][0] == "ok")
        shas = {}
        for h in hashseeds:
            for k, x in enumerate(per[h]["sha"]):
                shas.setdefault(x, []).append((h, k))
        if len(shas) == 1:
            chk.sample({"stream": "refrag", "design_seed": s, "top": meta.get("top"), "features": meta.get("features"),
                        "transforms": meta.get("transforms"), "rtlil_lines": first["lines"], "sha256": next(iter(shas))[:16],
                        "conversions": "3 of the same objects + 1 rebuilt, x %d hash seeds" % len(hashseeds)}, limit=8)
            continue
        # the interpreter in which to look: one whose own conversions differ, else the two of different texts
        h_in = next((h for h in hashseeds if len(set(per[h]["sha"])) > 1), None)
        differing.append((s, meta, h_in, len(shas)))
    fetch = {}
    for s, _meta, h_in, _n in differing:
        for h in ([h_in] if h_in is not None else hashseeds):
            fetch.setdefault(h, []).append(s)
    texts = {}
    fjobs = [(h, ss[i:i + 8]) for h, ss in sorted(fetch.items()) for i in range(0, len(ss), 8)]
    with ThreadPoolExecutor(max_workers=min(16, os.cpu_count() or 4)) as ex:
        for (h, _c), res in zip(fjobs, ex.map(lambda j: run_child(j[0], j[1], mode="refrag-text"), fjobs)):
            for r in res["results"]:
                texts[(h, r["seed"])] = r
    label = ["conversion 1", "conversion 2 of the same objects", "conversion 3 of the same objects", "the rebuilt design"]
    for s, meta, h_in, n_texts in differing:
        replay_cmd = (f"cd /verif && PYTHONHASHSEED=<h> /venv/bin/python -c \"from harness.checks import c09; "
                      f"print(c09.convert_refrag({s}))\"")
        if h_in is None:
            ha = hashseeds[0]
            hb = next(h for h in hashseeds if texts[(h, s)]["text"] != texts[(ha, s)]["text"]) \
                if any(texts[(h, s)]["text"] != texts[(ha, s)]["text"] for h in hashseeds) else None
            chk.hist("refrag: differing designs", "between interpreters")
            if hb is None:
                report(chk, f"rtlil.convert of refrag design {s} differed between interpreters (not reproduced when run again)",
                       {"stream": "refrag", "design_seed": s, "meta": meta, "replay": replay_cmd, "classes": []})
                continue
            line, xa, xb, _cl = classify_text_diff({}, texts[(ha, s)]["text"][0], texts[(hb, s)]["text"][0])
            report(chk, f"rtlil.convert of refrag design {s} (a design owning Fragment objects) differs between PYTHONHASHSEED={ha} "
                        f"and {hb}; first difference at line {line}: {xa.strip()!r} / {xb.strip()!r}",
                   {"stream": "refrag", "design_seed": s, "meta": meta, "hashseed_a": ha, "hashseed_b": hb, "line": line,
                    "line_a": xa, "line_b": xb, "replay": replay_cmd, "classes": []})
            continue
        r = texts[(h_in, s)]
        kinds, tx = r["kind"], r["text"]
        k = next((i for i in range(1, len(tx)) if tx[i] != tx[0] or kinds[i] != kinds[0]), None)
        if k is None:
            chk.hist("refrag: differing designs", "not reproduced")
            report(chk, f"rtlil.convert of refrag design {s} differed within one interpreter (not reproduced when run again)",
                   {"stream": "refrag", "design_seed": s, "meta": meta, "replay": replay_cmd, "classes": []})
            continue
        classes = classify_refrag(meta, kinds, tx)
        chk.hist("refrag: differing designs", ",".join(classes) or "unclassified")
        if kinds[0] == "ok" and kinds[k] == "ok":
            line, xa, xb, _cl = classify_text_diff({}, tx[0], tx[k])
            what = f"first difference at line {line}: {xa.strip()!r} / {xb.strip()!r}"
        else:
            line, xa, xb = 0, tx[0][:200] if kinds[0] != "ok" else "<text>", tx[k][:200] if kinds[k] != "ok" else "<text>"
            what = f"outcomes {kinds[0]} / {kinds[k]}: {xb if kinds[k] != 'ok' else xa}"
        report(chk,
               f"rtlil.convert of refrag design {s} (top: {meta.get('top')}; stored Fragment placed {'/'.join(meta.get('features', []))}; "
               f"transformers {meta.get('transforms')}): {label[k]} differs from conversion 1 in the same interpreter "
               f"(PYTHONHASHSEED={h_in}; {n_texts} distinct texts in all): {what}",
               {"stream": "refrag", "design_seed": s, "meta": meta, "hashseed": h_in, "kinds": kinds, "differs": label[k],
                "line": line, "line_a": xa, "line_b": xb, "text_lines": [t.count("\n") for t in tx],
                "replay": replay_cmd.replace("<h>", str(h_in)), "classes": classes})
    chk.extra.setdefault("refrag", {}).update({"designs": len(seeds), "hashseeds": list(hashseeds), "differing": len(differing),
                                               "witnesses": sorted(REFRAG_WITNESSES.values())})


# ================================================================================================
# fragment trees and domain propagation (in-process tie of the model)

def gen_tree(rng, depth, pool, top=True):
    """abstract fragment: {name, kind, doms [(name, has_rst)], stmts [(domain, [refs])], pre [names], subs}"""
    if not top and rng.random() < 0.25:
        return {"name": rng.choice([None, "u", "inst"]), "kind": "inst", "doms": [], "stmts": [],
                "pre": [rng.choice(pool) for _ in range(rng.randint(0, 3))], "subs": []}
    doms = []
    for n in rng.sample(pool, rng.randint(0, 2) if not top else rng.choice([0, 0, 1, 2])):
        doms.append((n, rng.random() < 0.7))
    stmts = []
    for _ in range(rng.randint(0, 4)):
        d = rng.choice(pool + ["comb", "comb"])
        stmts.append((d, [rng.choice(pool) for _ in range(rng.choice([0, 0, 1, 2]))]))
    subs = []
    if depth > 0:
        for _ in range(rng.choice([0, 1, 1, 2, 3])):
            subs.append(gen_tree(rng, depth - 1, pool, top=False))
    return {"name": None if top else rng.choice([None, None, "a", "b", "cd_x"]), "kind": "frag", "doms": doms,
            "stmts": stmts, "pre": [], "subs": subs}


def tree_uses(t):
    """statement domains in first-insertion order, each followed by the references inside its statements"""
    order = []
    for d, _refs in t["stmts"]:
        if d not in order:
            order.append(d)
    uses = []
    for d in order:
        uses.append(d)
        for dd, refs in t["stmts"]:
            if dd == d:
                uses += refs
    return uses


def ser_tree(t):
    doms = " ".join(f"({q(n)} {1 if r else 0})" for n, r in t["doms"])
    pre = " ".join(q(n) for n in t["pre"])
    uses = " ".join(q(n) for n in (t["uses"] if "uses" in t else tree_uses(t)))
    subs = "".join(" " + ser_tree(s) for s in t["subs"])
    return f"(f {q(t['name']) if t['name'] is not None else '-'} (doms {doms}) (pre {pre}) (uses {uses}){subs})"


def build_tree(t):
    from amaranth.hdl import Signal, ClockDomain, ClockSignal, ResetSignal, Fragment, Instance
    if t["kind"] == "inst":
        args = []
        for k, n in enumerate(t["pre"]):
            args.append(("i", f"p{k}", ClockSignal(n) if k % 2 == 0 else ResetSignal(n, allow_reset_less=True)))
        f = Instance("prim", *args)
    else:
        f = Fragment()
        for d, refs in t["stmts"]:
            rhs = 0
            for k, n in enumerate(refs):
                rhs = rhs ^ (ClockSignal(n) if k % 2 == 0 else ResetSignal(n, allow_reset_less=True))
            f.add_statements(d, Signal(name="t").eq(rhs))
    for n, r in t["doms"]:
        f.add_domains(ClockDomain(n, reset_less=not r))
    for s in t["subs"]:
        f.add_subfragment(build_tree(s), s["name"])
    return f


def gen_callback(rng, names):
    """abstract callback: default kind + table name -> answer"""
    r = rng.random()
    default = "rst" if r < 0.6 else "norst" if r < 0.85 else "none"
    table = {}
    for n in names:
        x = rng.random()
        if x < 0.12:
            table[n] = ("none",)
        elif x < 0.24:
            table[n] = ("dom", n, rng.random() < 0.5)
        elif x < 0.30:
            table[n] = ("dom", rng.choice(names + ["other"]), True)        # a domain of another name
        elif x < 0.45:
            own = [(n, rng.random() < 0.5)] if rng.random() < 0.85 else []
            extra = [(rng.choice(["ex", "ey", n + "2"]), True)] if rng.random() < 0.5 else []
            doms = own + [e for e in extra if e[0] not in [o[0] for o in own]]
            table[n] = ("frag", {"name": None, "kind": "frag", "doms": doms,
                                 "stmts": [(rng.choice(["comb", n]), [])] if rng.random() < 0.5 else [], "pre": [], "subs": []})
    return {"default": default, "table": table}


def ser_callback(cb):
    ents = []
    for n, a in cb["table"].items():
        if a[0] == "none":
            ents.append(f"({q(n)} none)")
        elif a[0] == "dom":
            ents.append(f"({q(n)} (dom {q(a[1])} {1 if a[2] else 0}))")
        else:
            ents.append(f"({q(n)} (frag {ser_tree(a[1])}))")
    return f"(cb (default {cb['default']}) {' '.join(ents)})"


def real_callback(cb):
    from amaranth.hdl import ClockDomain

    def missing(name):
        a = cb["table"].get(name)
        if a is None:
            if cb["default"] == "none":
                return None
            return ClockDomain(name, reset_less=cb["default"] == "norst")
        if a[0] == "none":
            return None
        if a[0] == "dom":
            return ClockDomain(a[1], reset_less=not a[2])
        return build_tree(a[1])
    return missing


def walk_domains(frag, name=None):
    return {"name": name, "domains": [[n, cd.rst is not None] for n, cd in frag.domains.items()],
            "subs": [walk_domains(s, nm) for s, nm, _loc in frag.subfragments]}


def real_propagate(frag, missing):
    """(iteration order of the set in this interpreter, observation of Fragment._propagate_domains)"""
    import re
    from amaranth.hdl._xfrm import DomainCollector
    frag._propagate_domains_down()
    c = DomainCollector()
    c(frag)
    order = list(c.used_domains - c.defined_domains)
    try:
        new = frag._propagate_domains(missing)
    except Exception as e:  # noqa: BLE001
        m = re.search(r"'([^']*)'", str(e))
        return order, {"err": common.errkind(e), "name": m.group(1) if m else None, "msg": str(e)[:200]}
    return order, {"new": [[d.name, d.rst is not None] for d in new], "tree": walk_domains(frag)}


def real_ports(frag, missing, n_user):
    """the ports of Fragment.prepare as (domain, clk|rst) / ("u<k>", clk)"""
    from amaranth.hdl import Signal
    users = [Signal(name=f"user{k}") for k in range(n_user)]
    try:
        design = frag.prepare(ports=users, missing_domain=missing)
    except Exception as e:  # noqa: BLE001
        return {"err": common.errkind(e), "msg": str(e)[:200]}
    by_id = {id(u): [f"u{k}", "clk"] for k, u in enumerate(users)}
    for n, cd in frag.domains.items():
        by_id[id(cd.clk)] = [cd.name, "clk"]
        if cd.rst is not None:
            by_id[id(cd.rst)] = [cd.name, "rst"]
    return {"ports": [by_id.get(id(sig), ["?", getattr(sig, "name", "?")]) for _n, sig, _d in design.ports]}


def model_view(m):
    if "err" in m:                  # a bare `assert` carries no name
        return {"err": m["err"], "name": m["name"] if m["err"] == "DomainError" else None}
    return {"new": m["new"], "tree": m["tree"]}


def impl_view(r):
    if "err" in r:
        return {"err": r["err"], "name": r["name"] if r["err"] == "DomainError" else None}
    return {"new": r["new"], "tree": r["tree"]}


def extract_tree(frag, name=None):
    """the abstract view of a real fragment (for designs built through Module): what DomainCollector reads"""
    from amaranth.hdl import _ast as A
    from amaranth.hdl._ir import Instance, IOBufferInstance, RequirePosedge
    from amaranth.hdl._mem import MemoryInstance

    def val(v, out):
        if isinstance(v, (A.ClockSignal, A.ResetSignal)):
            out.append(v.domain)
        elif isinstance(v, A.Operator):
            for o in v.operands:
                val(o, out)
        elif isinstance(v, A.Slice):
            val(v.value, out)
        elif isinstance(v, A.Part):
            val(v.value, out)
            val(v.offset, out)
        elif isinstance(v, A.Concat):
            for p in v.parts:
                val(p, out)
        elif isinstance(v, A.SwitchValue):
            val(v.test, out)
            for _p, x in v.cases:
                val(x, out)

    def fmt(f, out):
        for ch in f._chunks:
            if not isinstance(ch, str):
                val(ch[0], out)

    def stmt(s, out):
        if isinstance(s, A.Assign):
            val(s.lhs, out)
            val(s.rhs, out)
        elif isinstance(s, A.Switch):
            val(s.test, out)
            for _p, body, _l in s.cases:
                for x in body:
                    stmt(x, out)
        elif isinstance(s, A.Print):
            fmt(s.message, out)
        elif isinstance(s, A.Property):
            val(s.test, out)
            if s.message is not None:
                fmt(s.message, out)

    pre = []
    if isinstance(frag, MemoryInstance):
        for port in list(frag._read_ports) + list(frag._write_ports):
            val(port._addr, pre)
            val(port._data, pre)
            val(port._en, pre)
            pre.append(port._domain)
    if isinstance(frag, RequirePosedge):
        pre.append(frag._domain)
    if isinstance(frag, Instance):
        for _n, (v, _d) in frag.ports.items():
            if not isinstance(v, A.IOValue):
                val(v, pre)
    if isinstance(frag, IOBufferInstance):
        if frag.o is not None:
            val(frag.o, pre)
            val(frag.oe, pre)
        if frag.i is not None:
            val(frag.i, pre)
    uses = []
    for d, stmts in frag.statements.items():
        uses.append(d)
        for s in stmts:
            stmt(s, uses)
    return {"name": name, "kind": "real", "doms": [(n, cd.rst is not None) for n, cd in frag.domains.items()],
            "pre": pre, "uses": uses, "stmts": [],
            "subs": [extract_tree(s, nm) for s, nm, _l in frag.subfragments]}


_PENDING = []


def report(chk, summary, replay):
    cl = ",".join(replay.get("classes", []))
    chk.hist("violation classes", cl or "unclassified")
    _PENDING.append((0 if not cl else 1, len(_PENDING), summary, replay))


def flush_reports(chk):
    """unclassified violations first; then the classified ones round-robin over their classes, so that every
    class is among the stored replays (the store is capped)"""
    unclassified = [x for x in _PENDING if x[0] == 0]
    by_class = {}
    for x in _PENDING:
        if x[0] == 1:
            by_class.setdefault(",".join(x[3]["classes"]), []).append(x)
    rr = []
    k = 0
    while any(len(v) > k for v in by_class.values()):
        for c in sorted(by_class):
            if len(by_class[c]) > k:
                rr.append(by_class[c][k])
        k += 1
    for _p, _n, summary, replay in unclassified + rr:
        chk.violation(summary, replay)
    del _PENDING[:]


def judge_frag(chk, tag, t, cb, order, real, ports, m, n_user, state):
    """compare one propagation case with the driver's answer `m`"""
    base = {"stream": tag, "tree": ser_tree(t), "callback": ser_callback(cb), "order": order}
    chk.count(1)
    if "error" in m:
        chk.not_shown("driver could not evaluate a fragment tree", dict(base, response=m))
        return
    names = sorted(set(order))
    nontrivial = len(names) >= 2
    chk.distinct((tag, base["tree"], base["callback"]), nontrivial)
    chk.hist(f"{tag}: missing domains", len(names))
    chk.hist(f"{tag}: outcome", real.get("err", "ok"))
    if not m["order_is_enumeration"] or sorted(m["used"]) != names:
        chk.not_shown("DomainCollector: the model's used set differs from the implementation's",
                      dict(base, impl=names, model=sorted(m["used"])))
        return
    if sorted(order) != m["sorted"]:
        chk.not_shown("sorted(): the model's sortNames differs from Python's sorted", dict(base, impl=sorted(order), model=m["sorted"]))
        return
    iv, mv, ov = impl_view(real), model_view(m["model"]), model_view(m["old"])
    if iv != mv:
        if iv == ov:
            state["f3_inprocess"] += 1
            state["f3_example"] = state.get("f3_example") or dict(base, impl=iv, model=mv)
        else:
            chk.not_shown("Fragment._propagate_domains differs from the model (and from the model of the unrepaired code)",
                          dict(base, impl=iv, model=mv, old=ov))
        return
    if ports is not None and "ports" in m["model"]:
        want = [[f"u{k}", "clk"] for k in range(n_user)] + m["model"]["ports"]
        if "err" in ports and m["spec_ports"] is None:
            # a callback that answers with a domain of another name leaves the requested one undefined:
            # DomainLowerer fails later (outside the modelled part)
            chk.hist(f"{tag}: prepare fails after propagation (callback did not define the requested name)", ports["err"])
        elif "err" in ports:
            chk.not_shown("Fragment.prepare raised where the model gives ports", dict(base, impl=ports, model=want))
        elif ports["ports"] != want:
            chk.not_shown("the ports appended by Fragment.prepare differ from the model", dict(base, impl=ports["ports"], model=want))
        elif m["spec_ports"] is not None and ports["ports"] != [[f"u{k}", "clk"] for k in range(n_user)] + m["spec_ports"]:
            report(chk, "the ports of the created domains are not in ascending domain order",
                   dict(base, kind="ports", impl=ports["ports"], spec=m["spec_ports"], classes=[]))
        elif m["spec_ports"] is not None:
            state["spec_checked"] += 1
    if nontrivial:
        chk.sample({"stream": tag, "order_in_this_interpreter": order, "new_domains": real.get("new"), "error": real.get("err")}, limit=5)


def stream_frag(chk, n_cases, design_seeds):
    rng = chk.rng
    state = {"f3_inprocess": 0, "spec_checked": 0}
    cases, reqs = [], []
    for _ in range(n_cases):
        pool = rng.sample(DOMAIN_POOL + ["sync", "comb2", "é", "Ω", "a b"], rng.randint(2, 6))
        t = gen_tree(rng, rng.randint(0, 3), pool)
        cb = gen_callback(rng, pool) if rng.random() < 0.5 else {"default": rng.choice(["rst", "rst", "norst"]), "table": {}}
        n_user = rng.randint(0, 2)
        order, real = real_propagate(build_tree(t), real_callback(cb))
        ports = real_ports(build_tree(t), real_callback(cb), n_user) if "err" not in real else None
        user = " ".join(f"({q('u' + str(k))} clk)" for k in range(0))
        reqs.append(f"(missing (order {' '.join(q(n) for n in order)}) {ser_callback(cb)} {ser_tree(t)} (user {user}))")
        cases.append(("frag", t, cb, order, real, ports, n_user))
    # the designs of the differential, seen through the same model
    from amaranth.hdl import Fragment
    import warnings
    warnings.simplefilter("ignore")
    for s in design_seeds:
        try:
            top, _kw, _meta = build_design(s)
            frag = Fragment.get(top, None)
            t = extract_tree(frag)
        except Exception as e:  # noqa: BLE001
            chk.hist("frag: design extraction error", common.errkind(e))
            continue
        cb = {"default": "rst", "table": {}}
        order, real = real_propagate(frag, real_callback(cb))
        reqs.append(f"(missing (order {' '.join(q(n) for n in order)}) {ser_callback(cb)} {ser_tree(t)} (user ))")
        cases.append(("frag-design", t, cb, order, real, None, 0))
    resps = chk.driver.ask(reqs)
    for (tag, t, cb, order, real, ports, n_user), r in zip(cases, resps):
        judge_frag(chk, tag, t, cb, order, real, ports, json.loads(r), n_user, state)
    chk.extra["frag"] = {"cases": len(cases), "impl_equals_unrepaired_model_only": state["f3_inprocess"],
                         "ports_checked_against_spec": state["spec_checked"]}
    return state


# ================================================================================================
# simulation: run -> reset -> run, and the engine's object graph

def gen_sim_case(rng):
    """abstract scenario (plain data: it is rebuilt into real objects as often as needed)"""
    two = rng.random() < 0.4
    case = {"design_seed": rng.getrandbits(40), "two_clocks": two,
            "period": rng.choice([10, 20, 24, 50]), "phase": rng.choice([None, 0, 3, 7]),
            "period2": rng.choice([6, 14, 30]), "phase2": rng.choice([None, 1, 5]),
            "memory": rng.random() < 0.6, "process": rng.random() < 0.5, "background": rng.random() < 0.5}
    doms = ["sync"] + (["pix"] if two else [])

    def prog(n, may_crit):
        out = []
        for _ in range(n):
            r = rng.random()
            if r < 0.25:
                out.append(["set", rng.randint(0, 2), rng.randint(0, 15)])
            elif r < 0.50:
                out.append(["get", rng.randint(0, 7)])
            elif r < 0.68:
                out.append(["tick", rng.choice(doms)])
            elif r < 0.84:
                out.append(["delay", rng.choice([1, 3, 7, 10, 25, 100])])
            elif r < 0.90 and case["memory"]:
                out.append(["memset", rng.randint(0, 3), rng.randint(0, 15)])
            elif r < 0.96 and case["memory"]:
                out.append(["memget", rng.randint(0, 3)])
            elif may_crit:
                out.append(["crit", rng.choice(doms)])
            else:
                out.append(["get", rng.randint(0, 7)])
        return out
    case["tb"] = [prog(rng.randint(2, 14), False) for _ in range(rng.randint(1, 2))]
    case["bg"] = prog(rng.randint(2, 8), True) if case["background"] else None
    r = rng.random()
    case["stop"] = ["full"] if r < 0.25 else ["until", None] if r < 0.65 else ["advance", rng.randint(1, 12)]
    case["stop_pick"] = rng.random()
    case["stop_at_expiry"] = rng.random() < 0.6
    case["n_progress"] = rng.randint(3, 10)
    return case


def f21_witness_case():
    return {"design_seed": 1, "two_clocks": False, "period": 1000, "phase": None, "period2": 6, "phase2": None,
            "memory": False, "process": False, "background": False,
            "tb": [[["delay", 10], ["get", 0], ["set", 0, 3], ["delay", 7], ["get", 1], ["delay", 100], ["get", 1]]],
            "bg": None, "stop": ["until", 17], "stop_pick": 0.0, "stop_at_expiry": True, "n_progress": 6, "witness": True}


def build_sim(case):
    """real objects of a scenario: (sim, trace list)"""
    import warnings
    warnings.simplefilter("ignore")
    from amaranth.hdl import Signal, Module, ClockDomain, unsigned, signed
    from amaranth.lib import memory
    from amaranth.sim import Simulator, Period
    from .. import gen_expr, gen_prog
    rng = random.Random(case["design_seed"])
    m = Module()
    inputs = [Signal(unsigned(4), name=f"i{k}") for k in range(3)]
    hist = {}
    combT = [Signal(gen_expr.rand_shape(rng, 5, allow_zero=False), name=f"c{k}") for k in range(2)]
    regs = {"sync": [Signal(sh := gen_expr.rand_shape(rng, 5, allow_zero=False), name=f"r{k}", init=gen_expr.rand_value(rng, sh))
                     for k in range(2)]}
    if case["two_clocks"]:
        m.domains.pix = ClockDomain()
        regs["pix"] = [Signal(sh := gen_expr.rand_shape(rng, 4, allow_zero=False), name="p0", init=gen_expr.rand_value(rng, sh))]
    allregs = [s for ss in regs.values() for s in ss]
    g_comb = gen_expr.Gen(rng, inputs + allregs, maxw=6)
    g_sync = gen_expr.Gen(rng, inputs + allregs + combT, maxw=6)
    tg_comb = gen_expr.TargetGen(rng, combT, inputs[:1], alias=False, hist=hist)
    first = True
    for d, rs in regs.items():
        tg = gen_expr.TargetGen(rng, rs, inputs[:1], alias=False, hist=hist)
        try:
            items = gen_prog.gen_items(rng, g_comb, g_sync, _Fresh(tg_comb), _Fresh(tg), 2, hist, allow_fsm=False, n=rng.randint(1, 3))
        except Exception:  # noqa: BLE001
            items = []
        if not first:
            items = _only(items, "sync")
        gen_prog.build(m, _retarget(items, d))
        m.d[d] += rs[0].eq(rs[0] + inputs[0])
        first = False
    mem = None
    mr = Signal(4, name="mr")
    if case["memory"]:
        mem = memory.Memory(shape=unsigned(4), depth=4, init=[rng.randint(0, 15) for _ in range(rng.randint(0, 4))])
        m.submodules.mem = mem
        wp = mem.write_port(domain="sync")
        rp = mem.read_port(domain=rng.choice(["comb", "sync"]))
        m.d.comb += [wp.addr.eq(inputs[1][:2]), wp.data.eq(inputs[2]), wp.en.eq(inputs[0][0]),
                     rp.addr.eq(inputs[1][2:]), mr.eq(rp.data)]
    py = Signal(4, name="py")           # written by the process only
    watch = inputs + combT + allregs + [mr, py]
    # reset-less state (decided from the design seed by a generator of its own, so that everything above is what it
    # was before this part existed): registers with reset_less=True, FFSynchronizer chains (reset-less by default),
    # AsyncFIFO pointers; optionally the domain's own reset is asserted while the design runs.  `Simulator.reset()`
    # must bring all of them back to their initial values.
    extra, rl_prog, rl_meta = [], None, {}
    rl = random.Random(f"resetless-{case['design_seed']}")
    if not case.get("witness") and rl.random() < 0.8:
        from amaranth.lib.cdc import FFSynchronizer
        from amaranth.lib.fifo import AsyncFIFO
        doms = list(regs)
        cds = {}
        want_rst = rl.random() < 0.5
        if want_rst:
            m.domains.sync = cds["sync"] = ClockDomain("sync", async_reset=rl.random() < 0.25)
        for d in doms:
            n = rl.randint(1, 2)
            chain = [Signal(4, name=f"rl_{d}{k}", reset_less=True, init=rl.randint(0, 15)) for k in range(n)]
            m.d[d] += chain[0].eq(chain[0] + 1 + (inputs[0] if rl.random() < 0.5 else 0))
            for a, b in zip(chain, chain[1:]):
                m.d[d] += b.eq(a ^ regs[d][0][:1])
            extra += chain
        rl_meta["registers"] = len(extra)
        if rl.random() < 0.5:
            so = Signal(len(allregs[0]) if not allregs[0].shape().signed else 2, name="ffs_o")
            src = allregs[0] if not allregs[0].shape().signed else inputs[1][:2]
            m.submodules.ffs = FFSynchronizer(src, so, o_domain=rl.choice(doms), init=rl.randint(0, (1 << len(so)) - 1),
                                              stages=rl.randint(2, 3))
            extra.append(so)
            rl_meta["ffsynchronizer"] = True
        if rl.random() < 0.3:
            fifo = AsyncFIFO(width=4, depth=rl.choice([2, 4, 8]), w_domain="sync", r_domain=doms[-1])
            m.submodules.afifo = fifo
            m.d.comb += [fifo.w_data.eq(inputs[2]), fifo.w_en.eq(inputs[0][0] | ~inputs[1][1]), fifo.r_en.eq(inputs[1][0])]
            extra += [fifo.r_data, fifo.r_rdy, fifo.w_rdy, fifo.r_level, fifo.w_level]
            rl_meta["asyncfifo"] = True
        rl_prog = []
        for _ in range(rl.randint(3, 9)):
            r = rl.random()
            if r < 0.45:
                rl_prog.append(("tick", rl.choice(doms)))
            elif r < 0.8:
                rl_prog.append(("obs",))
            elif want_rst:
                rl_prog.append(("rst", rl.randint(0, 1)))
            else:
                rl_prog.append(("set", rl.randint(0, 2), rl.randint(0, 15)))
        rl_prog += [("tick", "sync"), ("obs",)]
        rl_meta["domain_reset_asserted"] = bool(want_rst and any(op == ("rst", 1) for op in rl_prog))
    sim = Simulator(m)
    sim._verif_resetless = rl_meta
    sim.add_clock(Period(fs=case["period"]), phase=None if case["phase"] is None else Period(fs=case["phase"]))
    if case["two_clocks"]:
        sim.add_clock(Period(fs=case["period2"]), phase=None if case["phase2"] is None else Period(fs=case["phase2"]),
                      domain="pix")
    trace = []

    def make_tb(k, prog):
        async def tb(ctx):
            for idx, c in enumerate(prog):
                op = c[0]
                if op == "set":
                    ctx.set(inputs[c[1]], c[2])
                elif op == "get":
                    trace.append((k, idx, ctx.elapsed_time().femtoseconds, ctx.get(watch[c[1] % len(watch)])))
                elif op == "tick":
                    await ctx.tick(c[1])
                    trace.append((k, idx, ctx.elapsed_time().femtoseconds, "tick"))
                elif op == "delay":
                    await ctx.delay(Period(fs=c[1]))
                    trace.append((k, idx, ctx.elapsed_time().femtoseconds, "delay"))
                elif op == "memset" and mem is not None:
                    ctx.set(mem.data[c[1]], c[2])
                elif op == "memget" and mem is not None:
                    trace.append((k, idx, ctx.elapsed_time().femtoseconds, ctx.get(mem.data[c[1]])))
                elif op == "crit":
                    with ctx.critical():
                        await ctx.tick(c[1])
                        trace.append((k, idx, ctx.elapsed_time().femtoseconds, "crit"))
        return tb
    for k, prog in enumerate(case["tb"]):
        sim.add_testbench(make_tb(k, prog))
    if rl_prog is not None:
        async def tb_rl(ctx):
            for idx, op in enumerate(rl_prog):
                if op[0] == "tick":
                    await ctx.tick(op[1])
                elif op[0] == "obs":
                    trace.append((200, idx, ctx.elapsed_time().femtoseconds, [int(ctx.get(x)) for x in extra]))
                elif op[0] == "rst":
                    ctx.set(cds["sync"].rst, op[1])
                else:
                    ctx.set(inputs[op[1]], op[2])
        sim.add_testbench(tb_rl)
    if case["bg"] is not None:
        prog = case["bg"]

        async def bg(ctx):
            while True:
                await make_tb(100, prog)(ctx)
                await ctx.tick("sync")
        sim.add_testbench(bg, background=True)
    if case["process"]:
        async def proc(ctx):
            async for _clk, rst, v in ctx.tick("sync").sample(allregs[0]):
                ctx.set(py, (v ^ 5) & 15)
        sim.add_process(proc)
    return sim, trace


class _Ids:
    """stable small numbers for objects (wakers, trigger states)"""

    def __init__(self):
        self.map = {}
        self.keep = []

    def __call__(self, o):
        if id(o) not in self.map:
            self.map[id(o)] = len(self.map) + 1
            self.keep.append(o)
        return self.map[id(o)]


def dump_engine(sim, ids, proc_order=None):
    """the part of the engine's object graph that reset() is responsible for, as plain data"""
    import inspect
    from amaranth.sim.pysim import _PySignalState, _PyMemoryState
    from amaranth.sim._pyrtl import PyRTLProcess
    from amaranth.sim._pyclock import PyClockProcess
    from amaranth.sim._async import AsyncProcess, TestbenchContext
    eng = sim._engine
    st = eng._state
    slot_idx = {id(s): i for i, s in enumerate(st.slots)}
    slots = []
    for s in st.slots:
        if isinstance(s, _PySignalState):
            slots.append(["sig", int(s.signal.init), int(s.curr), int(s.next)])
        elif isinstance(s, _PyMemoryState):
            slots.append(["mem", [int(x) for x in s.memory._init._raw], [int(x) for x in s.data],
                          [[int(a), int(v)] for a, v in s.write_queue.items()]])
        else:
            slots.append(["?", type(s).__name__])

    def proc(p):
        if isinstance(p, PyRTLProcess):
            return ["rtl", int(bool(p.is_comb)), int(bool(p.runnable)), int(bool(p.critical))]
        if isinstance(p, PyClockProcess):
            return ["clock", int(p.slot), int(p.phase), int(p.period), int(bool(p.runnable)), int(bool(p.critical)),
                    int(bool(p.initial))]
        if isinstance(p, AsyncProcess):
            co = p.coroutine
            if co is None:
                pc = None
            elif inspect.getcoroutinestate(co) == inspect.CORO_CREATED:
                pc = 0
            elif co.cr_frame is None:
                pc = 10 ** 6
            else:
                pc = co.cr_frame.f_lasti + 1
            return ["coro", int(isinstance(p.context, TestbenchContext)), int(bool(p.background)), int(bool(p.runnable)),
                    int(bool(p.critical)), None if p.waits_on is None else ids(p.waits_on), pc, int(bool(p.first_await))]
        return ["?", type(p).__name__]
    procs = list(eng._processes) if proc_order is None else proc_order
    d = {"now": int(st.timeline.now),
         "wakers": [[ids(w), int(dl)] for w, dl in st.timeline.wakers.items()],
         "slots": slots,
         "pending": sorted(slot_idx[id(s)] for s in st.pending),
         "tbs": [proc(p) for p in eng._testbenches],
         "procs": [proc(p) for p in procs],
         "delta": int(eng._delta_cycles), "running": int(bool(sim._running))}
    d["active"] = sorted(ids(t) for t in eng._active_triggers)
    return d, procs


def ser_state(d):
    def o(x):
        return "-" if x is None else str(x)

    def slot(s):
        if s[0] == "sig":
            return f"(sig {s[1]} {s[2]} {s[3]})"
        return ("(mem (" + " ".join(map(str, s[1])) + ") (" + " ".join(map(str, s[2])) + ") ("
                + " ".join(f"({a} {v})" for a, v in s[3]) + "))")

    def proc(p):
        return "(" + " ".join([p[0]] + [o(x) for x in p[1:]]) + ")"

    def tag(t, xs):
        return "(" + " ".join([t] + list(xs)) + ")"
    return tag("state", [tag("now", [str(d["now"])]), tag("wakers", [f"({a} {b})" for a, b in d["wakers"]]),
                         tag("slots", [slot(s) for s in d["slots"]]), tag("pending", map(str, d["pending"])),
                         tag("procs", [proc(p) for p in d["procs"]]), tag("tbs", [proc(p) for p in d["tbs"]]),
                         tag("active", map(str, d["active"])), tag("delta", [str(d["delta"])]),
                         tag("running", [str(d["running"])])])


class _Timeout(Exception):
    pass


def _alarm(_sig, _frm):
    raise _Timeout("scenario does not terminate (time limit)")


def sim_case_real(case, limit_s=20):
    """(runs in a worker) everything observed on the real simulator for one scenario"""
    import signal
    try:
        return _sim_case_real(case, limit_s)
    except _Timeout as e:           # a time-out that arrived while the inner handler was already unwinding
        return {"case": case, "error": ["Timeout", str(e), ""]}
    finally:
        signal.setitimer(signal.ITIMER_REAL, 0)


def _sim_case_real(case, limit_s):
    import signal
    from amaranth.sim import Period
    out = {"case": case}
    signal.signal(signal.SIGALRM, _alarm)
    # re-fires every second after the limit: an exception raised inside a `__del__` is swallowed by Python
    signal.setitimer(signal.ITIMER_REAL, limit_s, 1.0)
    try:
        # fresh simulators: the reference (one run to completion, one stepped with advance())
        simA, trace0 = build_sim(case)
        simA.run()
        sim0, tracep = build_sim(case)
        s0, _ = dump_engine(sim0, _Ids())
        progress0 = []
        for _ in range(case["n_progress"]):
            alive = sim0.advance()
            progress0.append([bool(alive), int(sim0._engine.now), len(tracep)])
        out["trace0"] = [list(t) for t in trace0]
        out["tracep0"] = [list(t) for t in tracep]
        out["s0"] = s0
        out["progress0"] = progress0
        # the simulator under test
        sim, trace = build_sim(case)
        ids = _Ids()
        stop = list(case["stop"])
        if stop[0] == "until" and stop[1] is None:
            times = sorted({t[2] for t in trace0 if t[3] == "delay" and t[2] > 0}) if case["stop_at_expiry"] else []
            if not times:
                horizon = max([t[2] for t in trace0] + [20])
                times = list(range(1, horizon + 1))
            stop[1] = times[int(case["stop_pick"] * len(times)) % len(times)]
        out["stop"] = stop
        if stop[0] == "full":
            sim.run()
        elif stop[0] == "until":
            sim.run_until(Period(fs=stop[1]))
        else:
            for _ in range(stop[1]):
                sim.advance()
        out["trace1"] = [list(t) for t in trace]
        s1, order = dump_engine(sim, ids)
        from amaranth.sim.pysim import _PySignalState
        out["resetless"] = dict(sim._verif_resetless,
                                away_from_init=sum(1 for x in sim._engine._state.slots if isinstance(x, _PySignalState)
                                                   and x.signal.reset_less and x.curr != x.signal.init))
        sim.reset()
        s2, _ = dump_engine(sim, ids, proc_order=order)
        out["s1"], out["s2"] = s1, s2
        del trace[:]
        progress2 = []
        for _ in range(case["n_progress"]):
            alive = sim.advance()
            progress2.append([bool(alive), int(sim._engine.now), len(trace)])
        out["tracep2"] = [list(t) for t in trace]
        out["progress2"] = progress2
        # a second reset, after the stepped rerun; then a rerun to completion
        sim.reset()
        s3, _ = dump_engine(sim, ids, proc_order=order)
        out["s3"] = s3
        del trace[:]
        sim.run()
        out["trace2"] = [list(t) for t in trace]
    except Exception as e:  # noqa: BLE001
        import traceback
        out["error"] = ["Timeout" if isinstance(e, _Timeout) else common.errkind(e), str(e)[:300],
                        traceback.format_exc()[-1200:]]
    finally:
        signal.setitimer(signal.ITIMER_REAL, 0)
    return out


def _fresh_equiv(s_reset, s_fresh):
    """'' if the state after reset is that of a fresh simulator (lazily created slots may be extra, at their
    initial values; the order of the process set is not significant), else the differing component"""
    for k in ("now", "wakers", "pending", "tbs", "active", "delta", "running"):
        if s_reset[k] != s_fresh[k]:
            return k
    if sorted(map(json.dumps, s_reset["procs"])) != sorted(map(json.dumps, s_fresh["procs"])):
        return "procs"
    n = len(s_fresh["slots"])
    if s_reset["slots"][:n] != s_fresh["slots"]:
        return "slots"
    for s in s_reset["slots"][n:]:
        if s[0] == "sig" and not (s[1] == s[2] == s[3]):
            return "slots(lazy)"
        if s[0] == "mem" and not (s[1] == s[2] and s[3] == []):
            return "slots(lazy)"
    return ""


def judge_sim(chk, r, m, tag="sim"):
    case = r["case"]
    base = {"stream": tag, "case": case}
    chk.count(1)
    if "error" in r:
        report(chk, f"simulating a generated scenario raises {r['error'][0]}: {r['error'][1]}",
               dict(base, kind="raises", error=r["error"], classes=[]))
        return
    base["stop"] = r["stop"]
    s1, s2, s0 = r["s1"], r["s2"], r["s0"]
    dirty = sum(1 for k in ("now", "wakers", "slots", "pending", "tbs", "procs", "active", "delta") if s1[k] != s2[k])
    chk.distinct((tag, json.dumps(case, sort_keys=True)), nontrivial=dirty >= 4)
    chk.hist(f"{tag}: stop mode", r["stop"][0])
    chk.hist(f"{tag}: dirty components before reset", dirty)
    chk.hist(f"{tag}: active triggers at reset", len(s1["active"]))
    rlm = r.get("resetless") or {}
    chk.hist(f"{tag}: reset-less signals away from their initial value when reset() is called", min(rlm.get("away_from_init", 0), 6))
    for key in ("registers", "ffsynchronizer", "asyncfifo"):
        if rlm.get(key):
            chk.hist(f"{tag}: reset-less state in the design", key)
    if not any(rlm.get(key) for key in ("registers", "ffsynchronizer", "asyncfifo")):
        chk.hist(f"{tag}: reset-less state in the design", "none")
    chk.hist(f"{tag}: the domain's own reset is asserted during the run", bool(rlm.get("domain_reset_asserted")))
    residue = _fresh_equiv(s2, s0)
    f21_residue = residue in ("active", "delta") and _fresh_equiv(dict(s2, active=[], delta=0), s0) == ""
    # 1. the property's observables: traces and per-advance() progress of the rerun vs a fresh simulator
    bad = None
    if r["trace2"] != r["trace0"]:
        k = next((i for i, (a, b) in enumerate(zip(r["trace2"], r["trace0"])) if a != b), min(len(r["trace2"]), len(r["trace0"])))
        bad = (f"observation trace after reset() differs from a fresh simulator at entry {k}: "
               f"{r['trace2'][k] if k < len(r['trace2']) else None} / {r['trace0'][k] if k < len(r['trace0']) else None}")
    elif r["stop"][0] == "full" and r["trace1"] != r["trace0"]:
        bad = "two fresh simulators of the same design give different observation traces"
    elif r["progress2"] != r["progress0"]:
        k = next(i for i, (a, b) in enumerate(zip(r["progress2"], r["progress0"])) if a != b)
        bad = (f"after reset(), advance() #{k + 1} leaves (critical, now, observations) = {r['progress2'][k]}; "
               f"on a fresh simulator {r['progress0'][k]}")
    elif r["tracep2"] != r["tracep0"]:
        bad = "after reset(), the observations made during the first advance() calls differ from a fresh simulator's"
    if bad is not None:
        classes = [F21] if (f21_residue and s2["active"]) else []
        report(chk, bad, dict(base, kind="rerun", residue=residue, active_after_reset=s2["active"], delta_after_reset=s2["delta"],
                              progress_reset=r["progress2"], progress_fresh=r["progress0"], classes=classes))
        return "violation"
    # 2. the state: signals and memories back at their initial contents, everything restarted
    if residue and not f21_residue:
        report(chk, f"after reset() the engine's {residue} differ from a freshly constructed simulator's",
               dict(base, kind="state", component=residue, after_reset=s2, fresh=s0, classes=[]))
        return "violation"
    res3 = _fresh_equiv(dict(r["s3"], active=[], delta=0) if f21_residue else r["s3"], s0)
    if res3 and not (res3 in ("active", "delta") and _fresh_equiv(dict(r["s3"], active=[], delta=0), s0) == ""):
        report(chk, f"second reset() (after a stepped rerun): the engine's {res3} differ from a fresh simulator's",
               dict(base, kind="state", component=res3, after_reset=r["s3"], fresh=s0, classes=[]))
        return "violation"
    # 3. the tie: the model's reset of the dumped state
    if "error" in m:
        chk.not_shown("driver could not evaluate an engine state", dict(base, response=m, state=ser_state(s1)))
        return
    if m["echo"] != ser_state(s1):
        chk.not_shown("engine state does not round-trip through the driver", dict(base, sent=ser_state(s1), echo=m["echo"]))
        return
    if m["reset"] != m["initial"]:
        chk.not_shown("model: reset s differs from initial (design s)", dict(base, reset=m["reset"], initial=m["initial"]))
        return
    got = ser_state(s2)
    if got == m["reset"]:
        return "ok"
    if got == m["old"]:
        return "f21-residue"
    chk.not_shown("the engine state after reset() differs from the model's reset (and from the model of the unrepaired reset)",
                  dict(base, impl=got, model=m["reset"], old=m["old"]))
    return "mismatch"


def stream_sim(chk, n_cases):
    rng = chk.rng
    cases = [f21_witness_case()] + [gen_sim_case(rng) for _ in range(n_cases)]
    counts = {}
    def run_pool(todo, limit_s, abort_after):
        out, n_to = [], 0
        ex = ProcessPoolExecutor(max_workers=min(16, os.cpu_count() or 4))
        try:
            futs = [(c, ex.submit(sim_case_real, c, limit_s)) for c in todo]
            for c, f in futs:
                if n_to >= abort_after and not f.running() and f.cancel():
                    continue                   # enough scenarios hang: do not wait for the rest
                try:
                    r = f.result(timeout=limit_s * 6 + 60)
                except Exception as e:  # noqa: BLE001  (a worker that died or an escaped time-out)
                    r = {"case": c, "error": ["Timeout" if type(e).__name__ in ("_Timeout", "TimeoutError") else common.errkind(e),
                                              str(e)[:300], ""]}
                if "error" in r and r["error"][0] == "Timeout":
                    n_to += 1
                out.append(r)
        finally:
            ex.shutdown(wait=False, cancel_futures=True)
        return out, n_to

    results, timeouts = run_pool(cases, 20, 8)
    if timeouts:
        # a time-out may be the machine, not the code: two of them are run again alone with a generous limit;
        # only if one of those completes are the others given the same second chance
        late = [r["case"] for r in results if "error" in r and r["error"][0] == "Timeout"]
        again, still = run_pool(late[:2], 120, 2)
        if still < len(again):
            rest, _n = run_pool(late[2:], 120, 4)
            redo = {json.dumps(r["case"], sort_keys=True): r for r in again + rest}
            results = [redo.get(json.dumps(r["case"], sort_keys=True), r)
                       if "error" in r and r["error"][0] == "Timeout" else r for r in results]
            timeouts = sum(1 for r in results if "error" in r and r["error"][0] == "Timeout")
    reqs = [f"(reset {ser_state(r['s1'])})" if "error" not in r else "(reset none)" for r in results]
    resps = chk.driver.ask(reqs)
    for r, resp in zip(results, resps):
        v = judge_sim(chk, r, json.loads(resp), "sim-witness" if r["case"].get("witness") else "sim")
        counts[v] = counts.get(v, 0) + 1
        if v == "ok" and "error" not in r:
            chk.sample({"stream": "sim", "stop": r["stop"], "observations": len(r["trace0"]),
                        "state_before_reset": ser_state(r["s1"])[:300]}, limit=5)
    chk.extra["sim"] = {"scenarios": len(cases), "evaluated": len(results), "timeouts": timeouts,
                        "verdicts": {str(k): v for k, v in counts.items()}}
    return counts


# ================================================================================================
# poke: the primitive operations of the model's step function on a real engine

def poke_case_real(seed):
    """(runs in a worker) random primitive operations on a real engine; returns the op list and the dumps"""
    import warnings
    warnings.simplefilter("ignore")
    from amaranth.hdl import Signal, Module, unsigned, signed
    from amaranth.lib import memory
    from amaranth.sim import Simulator, Period
    from amaranth.sim.pysim import _PySignalState, _PyMemoryState
    from amaranth.sim._pyclock import PyClockProcess
    rng = random.Random(seed)
    out = {"seed": seed}
    try:
        m = Module()
        sigs = [Signal(signed(5) if rng.random() < 0.4 else unsigned(4), name=f"s{k}", init=rng.randint(0, 7))
                for k in range(rng.randint(2, 4))]
        acc = Signal(4, name="acc", init=rng.randint(0, 15))
        m.d.sync += acc.eq(acc + sigs[0][:4])
        m.d.comb += sigs[-1].eq(sigs[0] ^ 1)
        mem = memory.Memory(shape=unsigned(4), depth=rng.choice([2, 3, 4]), init=[rng.randint(0, 15) for _ in range(2)])
        m.submodules.mem = mem
        wp = mem.write_port()
        rp = mem.read_port(domain="comb")
        m.d.comb += [wp.addr.eq(sigs[0][:2]), wp.data.eq(acc), wp.en.eq(sigs[1][0]), rp.addr.eq(sigs[1][:2])]
        sim = Simulator(m)
        sim.add_clock(Period(fs=rng.choice([10, 20, 14])), phase=rng.choice([None, Period(fs=0), Period(fs=3)]))
        eng = sim._engine
        st = eng._state
        ids = _Ids()
        s_init, order = dump_engine(sim, ids)
        sig_slots = [i for i, s in enumerate(st.slots) if isinstance(s, _PySignalState)]
        mem_slots = [i for i, s in enumerate(st.slots) if isinstance(s, _PyMemoryState)]
        clocks = [k for k, p in enumerate(order) if isinstance(p, PyClockProcess)]
        harness_wakers = {}
        ops, dumps = [], []

        def runnable_flags():
            return [bool(p.runnable) for p in order]

        def snap(op, before=None):
            """record `op`; wakers (which are not part of the model state) may have set `runnable` of some
            processes: that effect is expressed as `wakeproc` operations, compared after the last of them"""
            ops.append(op)
            woken = []
            if before is not None:
                woken = [k for k, (a, b) in enumerate(zip(before, runnable_flags())) if b and not a]
            for k in woken:
                dumps.append(None)
                ops.append(f"(wakeproc {k})")
            dumps.append(ser_state(dump_engine(sim, ids, proc_order=order)[0]))
        for _ in range(rng.randint(4, 30)):
            r = rng.random()
            if r < 0.28:
                i = rng.choice(sig_slots)
                v = rng.randint(-3, 12)
                st.slots[i].update(v)
                snap(f"(update {i} {v})")
            elif r < 0.45 and mem_slots:
                i = rng.choice(mem_slots)
                a = rng.randint(0, 4)
                v = rng.randint(0, 15)
                st.slots[i].write(a, v)
                snap(f"(memwrite {i} {a} {v})")
            elif r < 0.62:
                if st.pending or rng.random() < 0.3:
                    before = runnable_flags()
                    st.commit()
                    eng._delta_cycles += 1            # the tail of step_design()
                    snap("(commit)", before)
            elif r < 0.74:
                w = rng.randint(1, 3)
                fn = harness_wakers.setdefault(w, (lambda: None) if w != 2 else (lambda w=w: None))
                iv = rng.choice([0, 1, 5, 5, 9, 30])
                st.timeline.set_waker(iv, fn)
                ids.map.setdefault(id(fn), 900 + w)
                ids.keep.append(fn)
                snap(f"(setwaker {900 + w} {iv})")
            elif r < 0.88:
                before = runnable_flags()
                st.timeline.advance()
                snap("(advance)", before)
            else:
                k = rng.choice(clocks)
                known = {id(w) for w in st.timeline.wakers}
                order[k].run()
                new = [w for w in st.timeline.wakers if id(w) not in known]
                wn = ids(new[0]) if new else 0
                snap(f"(runclock {k} {wn})")
        out["init"] = ser_state(s_init)
        out["ops"] = ops
        out["dumps"] = dumps
        gets = []
        for i in sig_slots[:3]:
            gets.append((f"(get {i})", ["value", int(st.slots[i].curr)]))
        for i in mem_slots[:1]:
            gets.append((f"(read {i} 1)", ["value", int(st.slots[i].read(1))]))
        gets.append(("(now)", ["time", int(st.timeline.now)]))
        out["gets"] = gets
        sim.reset()
        out["after_reset"] = ser_state(dump_engine(sim, ids, proc_order=order)[0])
        out["n_ops"] = len(ops)
    except Exception as e:  # noqa: BLE001
        import traceback
        out["error"] = [common.errkind(e), str(e)[:300], traceback.format_exc()[-1500:]]
    return out


def stream_poke(chk, n_cases):
    rng = chk.rng
    seeds = [rng.getrandbits(40) for _ in range(n_cases)]
    with ProcessPoolExecutor(max_workers=min(16, os.cpu_count() or 4)) as ex:
        results = list(ex.map(poke_case_real, seeds, chunksize=8))
    reqs = []
    for r in results:
        if "error" in r:
            reqs.append("(run none)")
        else:
            reqs.append(f"(run {r['init']} {' '.join(r['ops'])} {' '.join(g[0] for g in r['gets'])})")
    resps = chk.driver.ask(reqs)
    n_ok = 0
    for r, resp in zip(results, resps):
        chk.count(1)
        base = {"stream": "poke", "seed": r["seed"]}
        if "error" in r:
            chk.not_shown(f"poke: driving the engine's primitives raised {r['error'][0]}", dict(base, error=r["error"]))
            continue
        m = json.loads(resp)
        if "error" in m:
            chk.not_shown("driver could not evaluate a poke script", dict(base, response=m, request=reqs[results.index(r)][:1500]))
            continue
        states = m["states"][:len(r["ops"])]
        k = next((i for i, (a, b) in enumerate(zip(r["dumps"], states)) if a is not None and a != b), None)
        chk.distinct(("poke", r["seed"]), nontrivial=r["n_ops"] >= 6)
        chk.hist("poke: operations per case", (r["n_ops"] // 5) * 5)
        for op in r["ops"]:
            chk.hist("poke: operation", op.split()[0].strip("()"))
        if k is not None:
            chk.not_shown(f"poke: after operation #{k + 1} {r['ops'][k]} the engine state differs from the model's step",
                          dict(base, ops=r["ops"][:k + 1], init=r["init"], impl=r["dumps"][k], model=states[k]))
            continue
        if m["trace"] != [g[1] for g in r["gets"]]:
            chk.not_shown("poke: observations differ from the model's trace", dict(base, impl=[g[1] for g in r["gets"]], model=m["trace"]))
            continue
        if r["after_reset"] != m["reset"]:
            # reset() after poking never leaves active triggers; the delta counter is the F21 residue
            import re
            if re.sub(r"\(delta \d+\)", "(delta 0)", r["after_reset"]) == m["reset"]:
                chk.hist("poke: reset residue", "delta (F21)")
            else:
                chk.not_shown("poke: the engine state after reset() differs from the model's reset",
                              dict(base, impl=r["after_reset"], model=m["reset"]))
                continue
        if m["reset"] != m["initial"] or m["initial"] != r["init"]:
            chk.not_shown("poke: the model's initial state differs from the freshly constructed engine",
                          dict(base, fresh=r["init"], initial=m["initial"], reset=m["reset"]))
            continue
        n_ok += 1
    chk.extra["poke"] = {"cases": n_cases, "agree": n_ok}


# ================================================================================================
# build plans

def make_platform(kind):
    from amaranth.build import Resource, Pins, Clock, Attrs, Subsignal
    from amaranth.vendor import SiliconBluePlatform, LatticePlatform, GowinPlatform
    res = [Resource("clk", 0, Pins("A1", dir="i"), Clock(12e6)),
           Resource("led", 0, Pins("B1", dir="o")), Resource("led", 1, Pins("B2", dir="o")),
           Resource("btn", 0, Pins("C1", dir="i")),
           Resource("bus", 0, Subsignal("d", Pins("D1 D2 D3", dir="io")), Subsignal("ck", Pins("C3", dir="o")))]
    if kind == "ice40":
        class P(SiliconBluePlatform):
            device = "iCE40HX8K"
            package = "CT256"
            default_clk = "clk"
            resources = res
            connectors = []
        return P()
    if kind == "ecp5":
        class P(LatticePlatform):
            device = "LFE5U-25F"
            package = "BG381"
            speed = "6"
            default_clk = "clk"
            resources = res
            connectors = []
        return P(toolchain="Trellis")
    if kind == "nexus":
        class P(LatticePlatform):       # Oxide: `.pdc` with `create_clock ... [get_nets <path of the net>]`
            device = "LIFCL-40"
            package = "BG400"
            speed = "8"
            grade = "C"
            default_clk = "clk"
            resources = res
            connectors = []
        return P(toolchain="Oxide")
    if kind == "tmpl":
        # a plain TemplatedPlatform carrying the timing-constraint templates of the vendor toolchains that cannot be
        # prepared here (they call Yosys for `emit_verilog`): Gowin `.sdc`, Diamond / Radiant / iCEcube2 `.sdc`
        from amaranth.build import TemplatedPlatform
        own_sdc = r"""
            # {{autogenerated}}
            {% for signal, frequency in platform.iter_signal_clock_constraints() -%}
                create_clock -name {{signal.name|tcl_quote}} -period {{1000000000/frequency}} [get_nets {{signal|hierarchy("/")|tcl_quote}}]
            {% endfor %}
            {% for port, frequency in platform.iter_port_clock_constraints() -%}
                create_clock -name {{port.name|tcl_quote}} -period {{1000000000/frequency}} [get_ports {{port.name|tcl_quote}}]
            {% endfor %}
        """

        def vendor(cls, attr):
            return getattr(cls, attr, {}).get("{{name}}.sdc", own_sdc)

        class P(TemplatedPlatform):
            device = "c09"
            toolchain = "C09"
            default_clk = "clk"
            resources = res
            connectors = []
            required_tools = ["c09-pnr"]
            file_templates = {
                **TemplatedPlatform.build_script_templates,
                "{{name}}.il": "# {{autogenerated}}\n{{emit_rtlil()}}",
                "{{name}}.sdc": own_sdc,
                "{{name}}.gowin.sdc": vendor(GowinPlatform, "_gowin_file_templates"),
                "{{name}}.diamond.sdc": vendor(LatticePlatform, "_diamond_file_templates"),
                "{{name}}.radiant.sdc": vendor(LatticePlatform, "_radiant_file_templates"),
                "{{name}}.icecube2.sdc": vendor(SiliconBluePlatform, "_icecube2_file_templates"),
                "{{name}}.nets": r"""
                    {% for signal, frequency in platform.iter_signal_clock_constraints() -%}
                        net {{signal|hierarchy(".")|ascii_escape}} {{signal|hierarchy("/")}} {{frequency}}
                    {% endfor %}
                """,
                "{{name}}.pins": r"""
                    {% for port_name, pin_name, attrs in platform.iter_port_constraints_bits() -%}
                        set_pin {{port_name|ascii_escape}} {{pin_name|tcl_quote}}
                    {% endfor %}
                """,
            }
            command_templates = [r"""
                {{invoke_tool("c09-pnr")}} {{get_override("pnr_opts")|options}} {{name}}.il {{name}}.sdc {{name}}.pins
            """]
        return P()

    class P(GowinPlatform):
        part = "GW1NR-LV9QN88PC6/I5"
        family = "GW1NR-9C"
        default_clk = "clk"
        resources = res
        connectors = []
        osc_frequency = None
    return P(toolchain="Apicula")


PLATFORM_KINDS = ("ice40", "ecp5", "gowin", "nexus", "tmpl")
# the platforms whose file templates print the path of a constrained internal net (the `hierarchy` template filter);
# the Gowin templates that do (`.sdc`) belong to the vendor toolchain, which needs Yosys for `emit_verilog`
NET_CONSTRAINT_KINDS = ("ice40", "ecp5", "nexus", "tmpl")
CLOCK_HZ = [1e6, 12.5e6, 25e6, 33.333e6, 48e6, 100e6, 133.25e6]


def platform_design(seed):
    from amaranth.hdl import Elaboratable, Module, Signal, ClockDomain, Period
    rng = random.Random(seed)
    n_leds = rng.randint(0, 2)
    use_btn = rng.random() < 0.5
    use_bus = rng.random() < 0.5
    extra = rng.sample(["fast", "pix", "aux"], rng.randint(0, 2))
    width = rng.randint(2, 9)
    # clock constraints on internal nets (drawn after the older features, which stay what they were for a seed):
    # per further domain its clock is taken from the counter (as before), from a constrained net of the top module,
    # or from a clock generator submodule (named or anonymous, up to two wrappers deep) that constrains its own output
    def cc():
        return {"hz": rng.choice(CLOCK_HZ), "how": rng.choice(["period", "period", "number", "frequency"]),
                "held": rng.random() < 0.5, "twice": rng.random() < 0.2}
    dom_clk = {}
    for d in extra:
        c = cc()
        c["mode"] = rng.choice(["plain", "net", "net", "gen", "gen", "gen"])
        c["name"] = rng.choice([f"clk_{d}", f"clk_{d}", "gclk"])
        c["named"] = rng.random() < 0.6
        c["wrap"] = [rng.random() < 0.6 for _ in range(rng.choice([0, 0, 1, 2]))]     # wrappers: named / anonymous
        dom_clk[d] = c
    strobe = dict(cc(), name=rng.choice(["stb", "gclk"])) if rng.random() < 0.75 else None
    unused = dict(cc(), name="spare") if rng.random() < 0.3 else None

    def constrain(platform, sig, c):
        for _ in range(2 if c["twice"] else 1):
            if c["how"] == "period":
                platform.add_clock_constraint(sig, period=Period(Hz=c["hz"]))
            elif c["how"] == "number":
                platform.add_clock_constraint(sig, c["hz"])
            else:
                platform.add_clock_constraint(sig, frequency=c["hz"])

    class ClkGen(Elaboratable):
        """toggles `out` in the system clock domain and constrains it from inside its own elaborate()"""
        def __init__(self, out, c):
            self.out, self.c = out, c

        def elaborate(self, platform):
            m = Module()
            m.d.sync += self.out.eq(~self.out)
            constrain(platform, self.out, self.c)
            return m

    class Wrap(Elaboratable):
        def __init__(self, inner, name):
            self.inner, self.name = inner, name

        def elaborate(self, platform):
            m = Module()
            if self.name is None:
                m.submodules += self.inner
            else:
                m.submodules[self.name] = self.inner
            return m

    class Top(Elaboratable):
        def __init__(self):
            # constrained signals that live as long as the design object; the others are made anew by every elaborate()
            self.held = {k: Signal(name=c["name"]) for k, c in list(dom_clk.items()) + [("/stb", strobe), ("/spare", unused)]
                         if c is not None and c["held"] and c.get("mode") != "plain"}

        def sig(self, k, c):
            return self.held[k] if k in self.held else Signal(name=c["name"])

        def elaborate(self, platform):
            m = Module()
            ctr = Signal(width)
            m.d.sync += ctr.eq(ctr + 1)
            for i in range(n_leds):
                m.d.comb += platform.request("led", i).o.eq(ctr[-1 - i % width])
            if use_btn:
                b = platform.request("btn", 0)
                with m.If(b.i):
                    m.d.sync += ctr.eq(0)
            if use_bus:
                bus = platform.request("bus", 0)
                m.d.comb += [bus.d.o.eq(ctr[:3]), bus.d.oe.eq(ctr[0]), bus.ck.o.eq(ctr[1])]
            for d in extra:            # further domains, declared here and clocked from the counter / a constrained net
                c = dom_clk[d]
                cd = ClockDomain(d, reset_less=True)
                m.domains += cd
                if c["mode"] == "plain":
                    m.d.comb += cd.clk.eq(ctr[0])
                elif c["mode"] == "net":
                    s = self.sig(d, c)
                    m.d.comb += [s.eq(ctr[0]), cd.clk.eq(s)]
                    constrain(platform, s, c)
                else:
                    s = self.sig(d, c)
                    sub = ClkGen(s, c)
                    for j, named in enumerate(c["wrap"]):
                        sub = Wrap(sub, f"w{j}" if named else None)
                    if c["named"]:
                        m.submodules[f"gen_{d}"] = sub
                    else:
                        m.submodules += sub
                    m.d.comb += cd.clk.eq(s)
                t = Signal(name=f"t_{d}")
                m.d[d] += t.eq(~t)
            if strobe is not None:
                s = self.sig("/stb", strobe)
                m.d.sync += s.eq(~s)
                constrain(platform, s, strobe)
            if unused is not None:     # never used in the design: the platform leaves the constraint out
                constrain(platform, self.sig("/spare", unused), unused)
            return m
    top = Top()
    used = [c for c in dom_clk.values() if c["mode"] != "plain"] + ([strobe] if strobe else [])
    top.c09_meta = {"net_constraints": len(used), "unused": int(unused is not None),
                    "names": sorted({c["name"] for c in used}),
                    "lifetime": sorted("held by the design object" if c["held"] else "made in elaborate()" for c in used),
                    "depth": sorted((1 + len(c["wrap"])) if c.get("mode") == "gen" else 0 for c in used),
                    "how": sorted(c["how"] for c in used), "twice": sum(1 for c in used if c["twice"])}
    return top


def plan_view(plan):
    files = []
    for n, c in plan.files.items():
        files.append([n, (c.encode("utf-8") if isinstance(c, str) else bytes(c)).hex()])
    return files


def archive_bytes(plan):
    f = io.BytesIO()
    plan.archive(f)
    return f.getvalue()


def read_archive(data):
    out = []
    with zipfile.ZipFile(io.BytesIO(data)) as z:
        for zi in z.infolist():
            out.append([zi.filename, z.read(zi).hex(), list(zi.date_time)])
    return out


def read_tree(root):
    dirs, files = [], []
    for dp, dn, fn in os.walk(root):
        rel = os.path.relpath(dp, root)
        parts = [] if rel == "." else rel.split(os.sep)
        for d in dn:
            dirs.append(parts + [d])
        for f in fn:
            with open(os.path.join(dp, f), "rb") as fh:
                files.append([parts + [f], fh.read().hex()])
    return sorted(dirs), sorted(files)


def extract_real(plan):
    """extract into a scratch directory outside /repo and /verif; returns the tree; removes the directory"""
    scratch = tempfile.mkdtemp(prefix="c09-extract-")
    assert not scratch.startswith(common.VERIF) and not scratch.startswith(common.REPO) and not scratch.startswith("/repo")
    cwd = os.getcwd()
    try:
        root = os.path.join(scratch, "build")
        try:
            ret = plan.extract(root)
        except Exception as e:  # noqa: BLE001
            kind = "OSError" if isinstance(e, OSError) else common.errkind(e)
            return {"err": kind, "msg": str(e)[:200], "cwd_restored": os.getcwd() == cwd}
        dirs, files = read_tree(root)
        return {"dirs": dirs, "files": files, "returned": os.path.realpath(str(ret)) == os.path.realpath(root),
                "cwd_restored": os.getcwd() == cwd}
    finally:
        os.chdir(cwd)
        shutil.rmtree(scratch, ignore_errors=True)


# every plan of one case is prepared in one interpreter, each on a NEW platform object (a platform prepares once):
# (variant, which design object).  Designs are built from the seed; build 0 is prepared three times, build 1 twice.
PREPARE_VARIANTS = (("first", 0), ("design rebuilt", 1), ("same design object", 0), ("design rebuilt again", 2),
                    ("design object of the 2nd build again", 1), ("same design object, 3rd time", 0))


def _first_file_diff(a, b):
    for (n1, c1), (n2, c2) in zip(a.files.items(), b.files.items()):
        if n1 != n2 or c1 != c2:
            x = c1 if isinstance(c1, str) else c1.decode("latin-1")
            y = c2 if isinstance(c2, str) else c2.decode("latin-1")
            dl = next((i for i, (p, r) in enumerate(zip(x.splitlines(), y.splitlines())) if p != r), None)
            return [n1, n2, dl, x.splitlines()[dl][:200] if dl is not None else None,
                    y.splitlines()[dl][:200] if dl is not None else None]
    return [sorted(set(a.files) ^ set(b.files))[:4], None, None, None, None]


def platform_case_real(args):
    """(runs in a worker) prepare one abstract design several times on one kind of platform: a new platform object
    every time, the design rebuilt from its seed (new Signal objects) or the same design object again"""
    kind, seed = args[:2]
    n_prepare = args[2] if len(args) > 2 else 2
    import warnings
    warnings.simplefilter("ignore")
    out = {"kind": kind, "seed": seed}
    try:
        builds = {}
        plans = []
        out["variants"] = []
        out["again_errors"] = []
        for variant, which in PREPARE_VARIANTS[:n_prepare]:
            if which not in builds:
                builds[which] = platform_design(seed)
            out["variants"].append(variant)
            if not plans:
                plans.append((variant, make_platform(kind).build(builds[which], do_build=False)))
                continue
            try:
                plans.append((variant, make_platform(kind).build(builds[which], do_build=False)))
            except Exception as e:  # noqa: BLE001
                import traceback
                out["again_errors"].append([variant, len(out["variants"]), common.errkind(e), str(e)[:300],
                                            traceback.format_exc()[-1500:]])
        a = plans[0][1]
        b = plans[1][1] if len(plans) > 1 else a
        out["meta"] = builds[0].c09_meta
        out["script"] = a.script
        out["files"] = plan_view(a)
        out["files_sha"] = {n: hashlib.sha256(bytes.fromhex(h)).hexdigest() for n, h in out["files"]}
        out["order"] = list(a.files)
        z1, z2 = archive_bytes(a), archive_bytes(a)
        out["archive_sha"] = hashlib.sha256(z1).hexdigest()
        out["same_files"] = True
        out["digests"] = [[plans[0][0], a.digest().hex()]]
        out["script_same"] = True
        arch_all = True
        for variant, p in plans[1:]:
            if list(a.files.items()) != list(p.files.items()) and out["same_files"]:
                out["same_files"] = False
                out["first_diff"] = _first_file_diff(a, p)
                out["first_diff_variant"] = variant
            if p.script != a.script:
                out["script_same"] = False
            out["digests"].append([variant, p.digest().hex()])
            if archive_bytes(p) != z1:
                arch_all = False
                out.setdefault("archive_diff_variant", variant)
        out["digest"] = [a.digest().hex(), b.digest().hex(), a.digest(size=16).hex()]
        out["archive_same"] = [z1 == z2, arch_all]
        out["archive"] = read_archive(z1)
        out["extract"] = extract_real(a)
        if len(plans) > 1:
            out["extract_last_same"] = extract_real(plans[-1][1]) == out["extract"]
        # how many lines of the constraint files name a constrained internal net (input distribution, not judged)
        names = out["meta"]["names"]
        pat = re.compile(r"(?<![A-Za-z0-9_])(" + "|".join(re.escape(n) for n in names) + r")(?![A-Za-z0-9_])") if names else None
        rendered = 0
        for n, c in a.files.items():
            if pat is None or n.endswith((".il", ".v", ".ys", ".sh", ".bat", ".json")):
                continue
            text = c if isinstance(c, str) else c.decode("latin-1")
            rendered += sum(1 for line in text.splitlines() if pat.search(line))
        out["rendered"] = rendered
    except Exception as e:  # noqa: BLE001
        import traceback
        out["error"] = [common.errkind(e), str(e)[:300], traceback.format_exc()[-1500:]]
    return out


NAME_PARTS = ["a", "b", "top", "build", "x.il", "y.v", "sub", "é", "Ω.txt", "a b", "Z", "_", "0", "a.b.c", "-k", "ü"]


def gen_plan(rng):
    """abstract synthetic plan: script, calls [(name, bytes, is_str)], and a second call order"""
    r = rng.random()
    calls = []
    used = set()
    for _ in range(rng.randint(0, 8)):
        depth = rng.choice([1, 1, 1, 2, 2, 3])
        name = "/".join(rng.choice(NAME_PARTS) for _ in range(depth))
        x = rng.random()
        if r < 0.45:
            pass                                  # well-formed plan
        elif x < 0.10:
            name = name.replace("/", "//", 1) if "/" in name else "./" + name
        elif x < 0.16:
            name = name + "/" + rng.choice(NAME_PARTS)      # may make an earlier file a directory
        elif x < 0.20:
            name = rng.choice(["../" + name, name + "/../z", "..", "."])
        elif x < 0.24:
            name = rng.choice(["/" + name, "c:/" + name, "c:\\" + name, "\\\\srv\\share\\" + name, "\\" + name, "c:" + name])
        if name in used and rng.random() < 0.8:
            continue
        used.add(name)
        is_str = rng.random() < 0.6
        if is_str:
            text = "".join(rng.choice("ab \n\tzé€𝄞{}#") for _ in range(rng.randint(0, 12)))
            calls.append([name, text.encode("utf-8").hex(), True])
        else:
            calls.append([name, bytes(rng.randint(0, 255) for _ in range(rng.randint(0, 12))).hex(), False])
    perm = list(range(len(calls)))
    rng.shuffle(perm)
    return {"script": rng.choice(["build_top", "run", "é"]), "calls": calls, "perm": perm}


def plan_case_real(p):
    from amaranth.build.run import BuildPlan

    def build(order):
        plan = BuildPlan(p["script"])
        for i in order:
            n, h, is_str = p["calls"][i]
            data = bytes.fromhex(h)
            try:
                plan.add_file(n, data.decode("utf-8") if is_str else data)
            except Exception as e:  # noqa: BLE001
                return None, {"err": common.errkind(e), "name": n}
        return plan, None
    out = {"plan": p}
    try:
        a, err = build(range(len(p["calls"])))
        out["add_error"] = err
        if a is None:
            return out
        b, err_b = build(p["perm"])
        out["files"] = plan_view(a)
        out["digest"] = a.digest().hex()
        out["digest_perm"] = b.digest().hex() if b is not None else None
        z1, z2 = archive_bytes(a), archive_bytes(a)
        out["archive_same"] = z1 == z2
        out["archive_perm_same"] = archive_bytes(b) == z1 if b is not None else None
        out["archive"] = read_archive(z1)
        out["extract"] = extract_real(a)
    except Exception as e:  # noqa: BLE001
        import traceback
        out["error"] = [common.errkind(e), str(e)[:300], traceback.format_exc()[-1500:]]
    return out


def ser_plan(script, files):
    return f"(plan {q(script)} " + " ".join(f"(call {q(n)} {h or '-'})" for n, h in files) + ")"


def judge_plan(chk, tag, base, script, real, m, digests):
    """shared by platform plans and synthetic plans: files / digest / archive / extract vs Model and Spec"""
    if "error" in m:
        chk.not_shown("driver could not evaluate a plan", dict(base, response=m))
        return False
    if "err" in m:
        chk.not_shown("the model refuses a plan that BuildPlan.add_file accepted", dict(base, model=m))
        return False
    ok = True
    # digest
    want_model = hashlib.blake2b(bytes.fromhex(m["digest_input"]), digest_size=64).hexdigest()
    want_spec = hashlib.blake2b(bytes.fromhex(m["spec_identity"]), digest_size=64).hexdigest()
    for which, d in digests:
        if d is not None and d != want_spec:
            report(chk, f"{tag}: digest() ({which}) is not the hash of the plan's identity (sorted names and contents, script)",
                   dict(base, kind="digest", which=which, impl=d, spec=want_spec, classes=[]))
            ok = False
        elif d is not None and d != want_model:
            chk.not_shown(f"{tag}: digest() differs from the model's digest input", dict(base, impl=d, model=want_model))
            ok = False
    # archive
    spec_arch = [[n, h, [1980, 1, 1, 0, 0, 0]] for n, h in m["spec_archive"]]
    if real["archive"] != spec_arch:
        report(chk, f"{tag}: the archive members are not the plan's files in ascending name order with the fixed time stamp",
               dict(base, kind="archive", impl=real["archive"][:8], spec=spec_arch[:8], classes=[]))
        ok = False
    elif real["archive"] != m["archive"]:
        chk.not_shown(f"{tag}: archive members differ from the model's", dict(base, impl=real["archive"][:8], model=m["archive"][:8]))
        ok = False
    # extract
    ex, mx = real["extract"], m["extract"]
    if not ex.get("cwd_restored", True):
        report(chk, f"{tag}: extract() did not restore the working directory", dict(base, kind="extract-cwd", classes=[]))
        ok = False
    if "err" in mx:
        kind = "OSError" if mx["err"] in ("IsADirectoryError", "NotADirectoryError") else mx["err"]
        if ex.get("err") != kind:
            chk.not_shown(f"{tag}: extract outcome differs from the model's", dict(base, impl=ex, model=mx))
            ok = False
    elif "err" in ex:
        chk.not_shown(f"{tag}: extract raised where the model succeeds", dict(base, impl=ex, model=mx))
        ok = False
    else:
        m_files = sorted([p, h] for p, h in mx["files"])
        m_dirs = sorted(mx["dirs"])
        spec_files = sorted([p, h] for p, h in m["spec_tree"])
        well_formed = len({json.dumps(p) for p, _h in m["spec_tree"]}) == len(m["spec_tree"])
        if well_formed and ex["files"] != spec_files:
            report(chk, f"{tag}: extract() did not write exactly the planned files",
                   dict(base, kind="extract", impl=ex["files"][:8], spec=spec_files[:8], classes=[]))
            ok = False
        elif ex["files"] != m_files or ex["dirs"] != m_dirs:
            chk.not_shown(f"{tag}: the extracted tree differs from the model's", dict(base, impl=[ex["dirs"], ex["files"][:8]],
                                                                                       model=[m_dirs, m_files[:8]]))
            ok = False
        if not ex.get("returned", True):
            chk.not_shown(f"{tag}: extract() did not return the build root", base)
            ok = False
    return ok


def stream_plan(chk, n_platform, n_synth, hashseeds=(), n_prepare=4):
    rng = chk.rng
    pjobs = [(kind, rng.getrandbits(32)) for kind in ("ice40", "ecp5", "gowin") for _ in range(n_platform)]
    synth = [gen_plan(rng) for _ in range(n_synth)]
    # the further platforms prepare the designs drawn above (nothing more is drawn from chk.rng here, so the streams
    # that follow see the random sequence they saw before these platforms existed)
    drawn = {k: [s for kk, s in pjobs if kk == k] for k in ("ice40", "ecp5", "gowin")}
    pjobs += [("nexus", s) for s in drawn["gowin"] + drawn["ice40"]] + [("tmpl", s) for s in drawn["ice40"] + drawn["ecp5"]]
    pjobs = [(kind, s, n_prepare) for kind, s in pjobs]
    with ProcessPoolExecutor(max_workers=min(16, os.cpu_count() or 4)) as ex:
        presults = list(ex.map(platform_case_real, pjobs, chunksize=1))
        sresults = list(ex.map(plan_case_real, synth, chunksize=8))
    reqs = []
    for r in presults:
        reqs.append(ser_plan(r["script"], r["files"]) if "error" not in r else "(plan)")
    for r in sresults:
        reqs.append(ser_plan(r["plan"]["script"], [(c[0], c[1]) for c in r["plan"]["calls"]]))
    resps = [json.loads(x) for x in chk.driver.ask(reqs)]
    n_ok = 0
    n_prepared = 0
    n_net = 0
    for r, m in zip(presults, resps[:len(presults)]):
        chk.count(max(1, len(r.get("variants", []))))
        base = {"stream": "plan-platform", "platform": r["kind"], "design_seed": r["seed"], "prepares": r.get("variants")}
        if "error" in r:
            report(chk, f"platform.build(do_build=False) on {r['kind']} raised {r['error'][0]}: {r['error'][1]}",
                   dict(base, kind="raises", error=r["error"], classes=[]))
            continue
        chk.distinct(("plan-platform", r["kind"], r["seed"]), True)
        chk.hist("plan: platform files", len(r["files"]))
        meta = r["meta"]
        n_prepared += len(r["variants"])
        for v in r["variants"]:
            chk.hist("plan: prepare() calls by variant (each on a new platform object)", v)
        chk.hist("plan: clock constraints on internal nets per design", meta["net_constraints"])
        chk.hist("plan: clock constraints on signals the design never uses", meta["unused"])
        for x in meta["lifetime"]:
            chk.hist("plan: constrained signal is", x)
        for x in meta["depth"]:
            chk.hist("plan: submodules around a constrained net", x)
        for x in meta["how"]:
            chk.hist("plan: add_clock_constraint argument", x)
        chk.hist("plan: constraint-file lines naming a constrained net", f"{r['kind']}: {r['rendered']}")
        if meta["net_constraints"] and r["rendered"]:
            n_net += 1
        bad = False
        for variant, nth, ek, msg, tb in r["again_errors"]:
            report(chk, f"preparing the same design again on {r['kind']} raised {ek}: {msg} (prepare() #{nth} of the case, "
                        f"'{variant}', on a new platform object; the first prepare() gave a plan)",
                   dict(base, kind="prepare-again-raises", variant=variant, nth=nth, error=[ek, msg, tb], meta=meta, classes=[]))
            bad = True
            break
        if bad:
            continue
        if not r["same_files"]:
            report(chk, f"preparing the same design twice on {r['kind']} gives different files "
                        f"('{r.get('first_diff_variant')}' against the first): {r.get('first_diff')}",
                   dict(base, kind="prepare-twice", first_diff=r.get("first_diff"), variant=r.get("first_diff_variant"), classes=[]))
            continue
        if len({d for _v, d in r["digests"]}) != 1 or r["digest"][0] != r["digest"][1] or not r["script_same"]:
            report(chk, f"preparing the same design twice on {r['kind']} gives different digests",
                   dict(base, kind="digest-twice", digests=[[v, d[:16]] for v, d in r["digests"]], classes=[]))
            continue
        if r["archive_same"] != [True, True]:
            report(chk, f"archiving the same plan twice on {r['kind']} gives different bytes",
                   dict(base, kind="archive-twice", variant=r.get("archive_diff_variant"), classes=[]))
            continue
        if not r.get("extract_last_same", True):
            report(chk, f"extracting the plan of the last prepare() on {r['kind']} writes another tree than extracting the first",
                   dict(base, kind="extract-twice", classes=[]))
            continue
        if judge_plan(chk, "platform plan", base, r["script"], r, m, [(f"size=64, {v}", d) for v, d in r["digests"]]):
            n_ok += 1
            chk.sample({"stream": "plan", "platform": r["kind"], "files": [f[0] for f in r["files"]], "digest": r["digest"][0][:16],
                        "prepares": r["variants"], "net_constraints": meta["net_constraints"], "rendered": r["rendered"]}, limit=6)
    for r, m in zip(sresults, resps[len(presults):]):
        chk.count(1)
        p = r["plan"]
        base = {"stream": "plan-synth", "plan": p}
        if "error" in r:
            report(chk, f"BuildPlan raised {r['error'][0]}: {r['error'][1]}", dict(base, kind="raises", error=r["error"], classes=[]))
            continue
        names = [c[0] for c in p["calls"]]
        chk.distinct(("plan-synth", json.dumps(p)), nontrivial=len(names) >= 2)
        chk.hist("plan: synthetic files", len(names))
        if r["add_error"] is not None:
            chk.hist("plan: add_file refusals", r["add_error"]["err"])
            if m.get("err") != r["add_error"]["err"] or m.get("name") != r["add_error"]["name"]:
                chk.not_shown("add_file: refusal differs from the model's", dict(base, impl=r["add_error"], model=m))
            else:
                n_ok += 1
            continue
        if "err" in m:
            chk.not_shown("add_file accepted a name the model refuses", dict(base, model=m))
            continue
        if r["digest_perm"] is not None and r["digest_perm"] != r["digest"]:
            report(chk, "the digest depends on the order of the add_file calls", dict(base, kind="digest-order", classes=[]))
            continue
        if not r["archive_same"] or r["archive_perm_same"] is False:
            report(chk, "the archive bytes depend on the run or on the order of the add_file calls",
                   dict(base, kind="archive-order", same=r["archive_same"], perm_same=r["archive_perm_same"], classes=[]))
            continue
        chk.hist("plan: extract outcome", r["extract"].get("err", "ok"))
        if judge_plan(chk, "synthetic plan", base, p["script"], r, m, [("call order", r["digest"]), ("permuted", r["digest_perm"])]):
            n_ok += 1
    # the same platform plans prepared in fresh interpreters under different hash seeds
    pseeds = sorted({job[1] for job in pjobs})
    n_cross = 0
    if hashseeds:
        with ThreadPoolExecutor(max_workers=min(16, os.cpu_count() or 4)) as tex:
            outs = list(tex.map(lambda h: run_child(h, pseeds, mode="plan"), hashseeds))
        ref = {(r["kind"], r["seed"]): r for r in presults if "error" not in r}
        seen = {}
        for h, o in zip(hashseeds, outs):
            for r in o["results"]:
                chk.count(1)
                n_cross += 1
                key = (r["kind"], r["seed"])
                base = {"stream": "plan-hashseed", "platform": r["kind"], "design_seed": r["seed"], "hashseed": h}
                if "error" in r:
                    first = seen.setdefault(key, (h, r))
                    if "error" not in first[1] or first[1]["error"] != r["error"]:
                        report(chk, f"platform.build on {r['kind']} fails differently under PYTHONHASHSEED={h} and {first[0]}",
                               dict(base, kind="plan-hashseed", a=r.get("error"), b=first[1].get("error"), classes=[]))
                    elif key in ref and first[0] == h:
                        # the child prepares one plan after the other (new platform objects, designs built anew): the
                        # same design gave a plan in the harness' worker and must give one here
                        report(chk, f"platform.build on {r['kind']} raised {r['error']} in a fresh interpreter "
                                    f"(PYTHONHASHSEED={h}) that prepares the plans of {len(pseeds)} designs x {len(PLATFORM_KINDS)} "
                                    f"platforms one after the other; the same design gave a plan in the harness' interpreter",
                               dict(base, kind="plan-sequence-raises", error=r["error"], classes=[]))
                    continue
                first = seen.setdefault(key, (h, r))
                other = first[1]
                mine = ref.get(key)
                if "error" in other:
                    report(chk, f"platform.build on {r['kind']} gives a plan under PYTHONHASHSEED={h} and fails under {first[0]}",
                           dict(base, kind="plan-hashseed", a=None, b=other.get("error"), classes=[]))
                    continue
                for who, o2, h2 in (("another interpreter", other, first[0]),
                                    ("this interpreter", {"digest": mine["digest"][0], "files": mine["files_sha"],
                                                          "order": mine["order"], "archive": mine["archive_sha"]}
                                     if mine else None, "harness")):
                    if o2 is None or "error" in o2:
                        continue
                    if o2["digest"] != r["digest"]:
                        diff_files = [n for n in r["files"] if o2.get("files", r["files"]).get(n) != r["files"][n]]
                        report(chk, f"the plan prepared on {r['kind']} has a different digest under PYTHONHASHSEED={h} than in "
                                    f"{who} (PYTHONHASHSEED={h2}); differing files: {diff_files[:4]}",
                               dict(base, kind="plan-hashseed", other_hashseed=h2, differing_files=diff_files, classes=[]))
                        break
                    if "archive" in o2 and o2["archive"] != r["archive"]:
                        report(chk, f"the plan prepared on {r['kind']} archives to other bytes under PYTHONHASHSEED={h} than "
                                    f"under {h2}", dict(base, kind="plan-hashseed-archive", other_hashseed=h2, classes=[]))
                        break
                    if "order" in o2 and o2["order"] != r["order"]:
                        # same files, same digest, same archive: only the insertion order of `plan.files` differs
                        chk.not_shown(f"the plan prepared on {r['kind']} holds its files in another insertion order under "
                                      f"PYTHONHASHSEED={h} than under {h2}", dict(base, a=r["order"], b=o2["order"]))
                        break
    chk.extra["plan"] = {"platform_cases": len(pjobs), "synthetic": n_synth, "agree": n_ok,
                         "platform_plans_in_fresh_interpreters": n_cross, "platform_plans_prepared": n_prepared,
                         "prepares_per_case": n_prepare,
                         "cases_whose_constraint_files_name_an_internal_net": n_net}


def stream_sort(chk, n):
    rng = chk.rng
    alphabet = ["a", "b", "A", "Z", "_", "0", "9", "é", "Ω", "€", "𝄞", " ", "~", "$", "z", "aa", "ab", "-"]
    cases = []
    for _ in range(n):
        names = ["".join(rng.choice(alphabet) for _ in range(rng.randint(0, 4))) for _ in range(rng.randint(0, 8))]
        cases.append(names)
    resps = chk.driver.ask(["(sort " + " ".join(q(x) for x in c) + ")" for c in cases])
    for c, r in zip(cases, resps):
        chk.count(1)
        m = json.loads(r)
        chk.distinct(("sort", tuple(c)), nontrivial=len(set(c)) >= 2)
        if m.get("model") != sorted(c) or m.get("spec") != sorted(c):
            chk.not_shown("sorted(): Python's order of str differs from the model's / the spec's", {"names": c, "impl": sorted(c), "response": m})
            return


# ================================================================================================

def run(chk):
    if not chk.lean():
        chk.not_shown("Lean build of Properties/C09 failed", chk.build_log[-3000:])
        return
    quick = chk.tier == "quick"
    rng = chk.rng
    n_designs = 96 if quick else 360
    hashseeds = [0] + sorted(rng.sample(range(1, 100000), 5 if quick else 47))
    chunk = 6 if quick else 30
    n_refrag = 144 if quick else 2400
    n_frag = 600 if quick else 12000
    n_sim = 160 if quick else 2400
    n_poke = 150 if quick else 3000
    n_platform = 2 if quick else 12
    n_synth = 300 if quick else 6000
    t_stage = [time.time()]

    def stage(name):
        now = time.time()
        chk.extra.setdefault("stage_seconds", {})[name] = round(now - t_stage[0], 2)
        t_stage[0] = now

    stream_sort(chk, 300 if quick else 5000)
    stage("sort")
    design_seeds = stream_diff(chk, n_designs, hashseeds, chunk)
    stage("diff")
    fstate = stream_frag(chk, n_frag, design_seeds[:(60 if quick else 400)])
    stage("frag")
    scounts = stream_sim(chk, n_sim)
    stage("sim")
    stream_poke(chk, n_poke)
    stage("poke")
    stream_plan(chk, n_platform, n_synth, hashseeds if quick else hashseeds[:12], n_prepare=4 if quick else len(PREPARE_VARIANTS))
    stage("plan")
    # drawn last, so that the streams above see the same random sequence as before this stream existed
    stream_refrag(chk, n_refrag, hashseeds[:2] if quick else hashseeds[:6], 24 if quick else 100)
    stage("refrag")

    classes_seen = chk.extra.get("distribution", {}).get("violation classes", {})
    f3_seen = any(F3 in k.split(",") for k in chk.extra.get("distribution", {}).get("diff: differing designs", {}))
    if fstate["f3_inprocess"] and not f3_seen:
        chk.not_shown("Fragment._propagate_domains follows the iteration order of the set (it equals the model of the "
                      "unrepaired code, not the repaired model) but no hash seed tried changed the RTLIL",
                      {"cases": fstate["f3_inprocess"], "example": fstate.get("f3_example")})
    if scounts.get("f21-residue") and not any(F21 in k.split(",") for k in classes_seen):
        chk.not_shown("Simulator.reset() leaves _active_triggers / _delta_cycles behind (it equals the model of the "
                      "unrepaired reset) but no rerun was observed to differ", {"scenarios": scounts.get("f21-residue")})
    flush_reports(chk)
    chk.extra["exhaustive"] = {"F21 witness": "the scenario of prelim/repro/c09_reset_active_triggers.py is replayed on every run"}
    chk.cov["rule"] = (
        "diff: designs rebuilt from a seed in fresh interpreters (one per PYTHONHASHSEED and chunk), converted twice each; "
        "distinct = design seed, non-trivial = at least two implicitly created clock domains. refrag: designs owning "
        "Fragment objects (hand-built or Fragment.get once; under control inserters / DomainRenamer; as submodule, top or "
        "returned by elaborate()), the same objects converted three times + once rebuilt per interpreter; distinct = design "
        "seed, non-trivial = a transformer covers a stored Fragment and the conversion succeeds. frag: random fragment trees x "
        "callbacks and the domain view of the diff designs; distinct = (tree, callback), non-trivial = at least two missing "
        "domains. sim: random scenarios (design, clocks, testbench programs, stop mode); distinct = scenario, non-trivial = at "
        "least four of the eight state components differ from their reset value when reset() is called. poke: random "
        "primitive-operation scripts on a real engine; non-trivial = six or more operations. plan: five platforms x designs "
        "(with clock constraints on internal nets added in elaborate()), each prepared several times in one interpreter on "
        "new platform objects (design rebuilt / same design object), and synthetic plans; distinct = (platform, design "
        "seed), non-trivial = two or more files. sort: random name lists.")
    chk.assumptions += [
        "the cross-interpreter byte-identity of RTLIL is explored (subprocess differential over the listed hash seeds), not proved",
        "the model of the engine state leaves out the slots' waker lists (stale trigger wakers survive reset(); they are inert) "
        "and VCD writers; pyvcd is not installed here, so the effect of _delta_cycles on VCD time stamps is not observed",
        "the hash function of BuildPlan.digest (BLAKE2b) and the byte encoding of zipfile are parameters of the model: the "
        "harness applies hashlib.blake2b to the model's digest input and reads archives back with zipfile",
        "extract_exact assumes file names that pathlib does not normalise to the same path, without '..', none a directory of "
        "another; the boundary cases are replayed against the model (outcome kinds), not against the theorem",
    ]
    chk.extra["trusted_base"] = ["CPython's str ordering = Lean's String order (code points; stream `sort`)",
                                 "os / pathlib / zipfile as used by BuildPlan.extract and archive (differentially tested)"]


def replay(chk, path):
    """./check C09 --replay replays/C09-….json : run one stored case again on the current tree"""
    rep = json.load(open(path))["replay"]
    stream = rep.get("stream")
    if stream == "diff":
        s, ha, hb = rep["design_seed"], rep["hashseed_a"], rep["hashseed_b"]
        ta = run_child(ha, [s], mode="text")["results"][0]["text"]
        tb = run_child(hb, [s], mode="text")["results"][0]["text"]
        texts = {ta[0], ta[1], tb[0], tb[1]}
        if len(texts) == 1:
            print(f"replay: design seed {s}: one text under PYTHONHASHSEED={ha} and {hb} (twice each) - not reproduced")
            return common.EXIT_OK
        x, y = (ta[0], tb[0]) if ta[0] != tb[0] else (ta[0], ta[1]) if ta[0] != ta[1] else (tb[0], tb[1])
        line, xa, xb, classes = classify_text_diff(rep.get("meta", {}), x, y)
        print(f"VIOLATION property=C09 replay={path}")
        print(f"  design seed {s}: {len(texts)} distinct texts; first difference at line {line}: {xa.strip()!r} / {xb.strip()!r} "
              f"classes={classes}")
        return common.EXIT_VIOLATION
    if stream in ("sim", "sim-witness"):
        chk.driver = common.Driver(EXE)
        r = sim_case_real(rep["case"], limit_s=60)
        m = json.loads(chk.driver.ask([f"(reset {ser_state(r['s1'])})" if "error" not in r else "(reset none)"])[0])
        v = judge_sim(chk, r, m, stream)
        flush_reports(chk)
        for summary, replay_obj in chk.violations:
            print(f"VIOLATION property=C09 replay={path}")
            print(f"  {summary} classes={replay_obj.get('classes')}")
        for what, _d in chk.unshown:
            print(f"VIOLATION property=C09 replay={path} no-failing-input-found\n  {what}")
        if not chk.violations and not chk.unshown:
            print(f"replay: scenario verdict {v} - not reproduced")
            return common.EXIT_OK
        return common.EXIT_VIOLATION
    if stream == "plan-platform":
        n = len(rep.get("prepares") or []) or len(PREPARE_VARIANTS)
        r = platform_case_real((rep["platform"], rep["design_seed"], n))
        problems = []
        if "error" in r:
            problems.append(f"the first prepare() raised {r['error'][0]}: {r['error'][1]}")
        else:
            problems += [f"prepare() #{nth} ('{v}') raised {ek}: {msg}" for v, nth, ek, msg, _tb in r["again_errors"]]
            if not r["same_files"]:
                problems.append(f"'{r.get('first_diff_variant')}' gives other files than the first prepare(): {r.get('first_diff')}")
            if len({d for _v, d in r["digests"]}) != 1 or not r["script_same"]:
                problems.append("the digests / scripts of the plans differ")
            if r["archive_same"] != [True, True]:
                problems.append("the archives differ")
        if not problems:
            print(f"replay: {n} plans of design seed {rep['design_seed']} on {rep['platform']} are equal - not reproduced "
                  f"(comparison with the model is not part of the replay)")
            return common.EXIT_OK
        print(f"VIOLATION property=C09 replay={path}")
        for p in problems[:4]:
            print(f"  {p}")
        return common.EXIT_VIOLATION
    print(f"replay of stream {stream!r} is not supported; the replay file contains the complete input")
    return common.EXIT_INFRA
