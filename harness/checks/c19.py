"""C19 - resource requests map pins one-to-one and constraints name the right pin.

Streams (all from chk.rng):
  hist    random resource/connector tables x random request histories (+ a sweep that re-requests every
          resource and one single-pin probe resource per physical pin, so the whole allocation is seen
          through the public outcome of later requests); after every request the real outcome is
          compared with the Spec (verdict, pins) and with the Model (error kind, port structure, names,
          attributes, Pin dir/xdr, iter_pins(), port clock constraints); the private tables are an
          additional, internal observable.
  shape   deliberately F7-shaped histories (a refused request followed by a legitimate one).
  opts    every leaf case and every sub-signal head case of merge_options (exhaustive, 480 cases).
  attrs   None-valued attributes (finding F14).
  names   Pins.map_names on random acyclic connector chains (the cyclic point is replayed in a
          subprocess with a time-out and recorded, see `boundary`).
  e2e     iCE40/IceStorm, ECP5/Trellis, Gowin/Apicula: a design performs the requests, uses the ports,
          `platform.build(..., do_build=False)`; the rendered .pcf/.lpf/.cst and the top-level ports of the
          emitted RTLIL are parsed and compared with the model's constraint bits and clocks.
  shared  ONE list of Resource objects (Pins, PinsN, DiffPairs legs with connector-relative names) given to 2-3
          ResourceManagers / platform classes whose connector tables name the same connectors and pins but wire
          them differently; requests on every manager (interleaved), every manager judged like a `hist` case
          against the model run on its own table (`names-shared`: one Pins object mapped through 2-3 tables;
          `e2e shared`: 2-3 platforms build designs from the shared descriptions).
"""
import json
import os
import re
import subprocess
import sys
import textwrap
from concurrent.futures import ProcessPoolExecutor
from fractions import Fraction

from .. import common

LEVEL = "proof"
EXE = "amodel_c19"

F7 = "F7"
F14 = "F14"
F30 = "F30"

PIN_POOL = ["A1", "A2", "A3", "A4", "B1", "B2", "B3", "B4", "C1", "C2", "C3", "C4", "D1", "D2"]
RES_NAMES = ["led", "clk", "bus", "spi", "uart", "btn", "lvds", "mem", "adc", "usb"]
SUB_NAMES = ["d", "ck", "cs", "x", "y", "z", "tx", "rx", "en"]
CONN_NAMES = ["pmod", "hdr", "fmc", "j"]
ATTR_KEYS = ["IO_TYPE", "DRIVE", "PULLMODE", "SLEWRATE", "BANK_VCCIO"]
ATTR_VALS = ["LVCMOS33", "LVCMOS18", "UP", "DOWN", "FAST", "SLOW", "LVDS"]
DIRS = ["i", "o", "oe", "io"]
# clock periods in femtoseconds
PERIODS = [10_000_000, 20_000_000, 8_000_000, 40_000_000, 83_333_333, 62_500_000, 1_000_000_000,
           37_037_037, 2_500_000, 100_000_000_000]


# ================================================================================================
# abstract tables -> protocol text

def q(s):
    assert '"' not in s and "\\" not in s and "\n" not in s
    return '"' + s + '"'


def ser_pconn(c):
    return "none" if c is None else f"(conn {q(c[0])} {q(str(c[1]))})"


def attr_value(v):
    """the value the model sees: a string, or None"""
    kind = v[0]
    if kind in ("str", "call"):
        return v[1]
    if kind == "int":
        return str(v[1])
    return None


def ser_attrs(attrs):
    out = []
    for k, v in attrs:
        val = attr_value(v)
        out.append(f"({q(k)})" if val is None else f"({q(k)} {q(val)})")
    return "(attrs" + "".join(" " + x for x in out) + ")"


def ser_node(n):
    if n["t"] == "leaf":
        ph = n["phys"]
        if ph["t"] == "pins":
            phys = "(pins " + ser_pconn(ph["conn"]) + "".join(" " + q(x) for x in ph["names"]) + ")"
        else:
            phys = ("(diff " + ser_pconn(ph["conn"]) + " (p" + "".join(" " + q(x) for x in ph["p"]) + ") (n"
                    + "".join(" " + q(x) for x in ph["n"]) + "))")
        ck = "none" if n["clock"] is None else str(n["clock"])
        return f"(leaf {q(n['name'])} {ser_attrs(n['attrs'])} {phys} {n['dir']} {1 if n['invert'] else 0} {ck})"
    return f"(group {q(n['name'])} {ser_attrs(n['attrs'])}" + "".join(" " + ser_node(s) for s in n["subs"]) + ")"


def ser_conn(c):
    kind, items = c["io"]
    if kind == "seq":
        io = "(seq" + "".join(" " + q(t) for t in items) + ")"
    else:
        io = "(dict" + "".join(f" ({q(k)} {q(v)})" for k, v in items) + ")"
    return f"(connector {q(c['name'])} {q(str(c['number']))} {io} {ser_pconn(c['conn'])})"


def ser_conns(conns):
    return "(connectors" + "".join(" " + ser_conn(c) for c in conns) + ")"


def ser_table(t):
    return ("(table (resources" + "".join(f" (res {r['number']} {ser_node(r['body'])})" for r in t["resources"]) + ") "
            + ser_conns(t["connectors"]) + ")")


def ser_opt(o, which):
    if o is None:
        return "none"
    if o[0] == "val":
        v = o[1]
        if which == "dir":
            return f"(val {v if v in ('i', 'o', 'oe', 'io', '-') else 'bad'})"
        return f"(val {v if isinstance(v, int) and not isinstance(v, bool) else 'bad'})"
    return "(dict" + "".join(f" ({q(k)} {ser_opt(x, which)})" for k, x in o[1]) + ")"


def ser_req(r):
    return f"(req {q(r['name'])} {r['number']} {ser_opt(r['dir'], 'dir')} {ser_opt(r['xdr'], 'xdr')})"


def ser_hist(t, reqs):
    return "(hist " + ser_table(t) + "".join(" " + ser_req(r) for r in reqs) + ")"


# ================================================================================================
# abstract tables -> amaranth objects

def build_attrs(attrs):
    from amaranth.build import Attrs
    kw = {}
    for k, v in attrs:
        if v[0] == "str":
            kw[k] = v[1]
        elif v[0] == "int":
            kw[k] = v[1]
        elif v[0] == "call":
            kw[k] = (lambda val: (lambda plat: val))(v[1])
        elif v[0] == "none":
            kw[k] = None
        elif v[0] == "callnone":
            kw[k] = lambda plat: None
    return Attrs(**kw)


def build_node_args(n):
    from amaranth.build import Pins, PinsN, DiffPairs, DiffPairsN, Subsignal, Clock
    from amaranth.hdl import Period
    args = []
    if n["t"] == "leaf":
        ph = n["phys"]
        if ph["t"] == "pins":
            ctor = PinsN if n["invert"] else Pins
            args.append(ctor(" ".join(ph["names"]), dir=n["dir"], conn=ph["conn"]))
        else:
            ctor = DiffPairsN if n["invert"] else DiffPairs
            args.append(ctor(" ".join(ph["p"]), " ".join(ph["n"]), dir=n["dir"], conn=ph["conn"]))
        if n["clock"] is not None:
            args.append(Clock(Period(fs=n["clock"])))
    else:
        for s in n["subs"]:
            args.append(Subsignal(s["name"], *build_node_args(s)))
    if n["attrs"]:
        args.append(build_attrs(n["attrs"]))
    return args


def build_resources(t):
    from amaranth.build import Resource
    return [Resource(r["body"]["name"], r["number"], *build_node_args(r["body"])) for r in t["resources"]]


def build_connectors(conns):
    from amaranth.build import Connector
    out = []
    for c in conns:
        kind, items = c["io"]
        io = " ".join(items) if kind == "seq" else dict(items)
        out.append(Connector(c["name"], c["number"], io, conn=c["conn"]))
    return out


def build_opt(o, which):
    if o is None:
        return None
    if o[0] == "val":
        return o[1]
    return {k: build_opt(x, which) for k, x in o[1]}


# ================================================================================================
# generators

def gen_connectors(rng, pool, n_max=3, allow_missing=True):
    """acyclic by construction: connector k may sit on a connector with a larger index"""
    n = rng.choice([0, 1, 1, 2, 2, 3][: n_max + 3])
    n = min(n, n_max)
    conns = []
    keys = []
    while len(keys) < n:
        k = (rng.choice(CONN_NAMES), rng.choice([0, 1, "a"]))
        if k not in keys:
            keys.append(k)
    # build from the last (sits directly on the platform) to the first
    built = {}
    for idx in reversed(range(n)):
        name, number = keys[idx]
        parent = None
        if idx + 1 < n and rng.random() < 0.6:
            parent = rng.randrange(idx + 1, n)
        width = rng.randint(1, 4)
        if parent is None:
            targets = [rng.choice(pool) for _ in range(width)]
        else:
            pk = built[parent]["_keys"]
            targets = [rng.choice(pk) if pk and rng.random() < (0.9 if allow_missing else 1.0) else "9" for _ in range(width)]
            if not pk and not allow_missing:
                parent = None
                targets = [rng.choice(pool) for _ in range(width)]
        if rng.random() < 0.5:
            toks = []
            for tgt in targets:
                if rng.random() < 0.15:
                    toks.append("-")
                toks.append(tgt)
            io = ("seq", toks)
            ckeys = [str(i) for i, tk in enumerate(toks, start=1) if tk != "-"]
        else:
            names = rng.sample(["1", "2", "3", "4", "sda", "scl", "io0", "io1"], width)
            io = ("dict", list(zip(names, targets)))
            ckeys = names
        c = {"name": name, "number": number, "io": io,
             "conn": None if parent is None else keys[parent], "_keys": ckeys}
        built[idx] = c
    for idx in range(n):
        conns.append(built[idx])
    return conns


def vary_connectors(rng, conns, pool):
    """another connector table with the same connector names and the same pin keys, wired differently: every
    connector sits on the platform or on a later connector (re-drawn), every pin goes somewhere else (re-drawn).
    Used for platforms that share resource descriptions."""
    n = len(conns)
    out = [None] * n
    for idx in reversed(range(n)):
        c = conns[idx]
        parent = None
        if idx + 1 < n and rng.random() < 0.6:
            parent = rng.randrange(idx + 1, n)
            if not conns[parent]["_keys"]:
                parent = None

        def target():
            if parent is None:
                return rng.choice(pool)
            return rng.choice(conns[parent]["_keys"]) if rng.random() < 0.93 else "9"
        kind, items = c["io"]
        if kind == "seq":
            io = ("seq", [tk if tk == "-" else target() for tk in items])
        else:
            io = ("dict", [(k, target()) for k, _v in items])
        out[idx] = {"name": c["name"], "number": c["number"], "io": io, "_keys": list(c["_keys"]),
                    "conn": None if parent is None else (conns[parent]["name"], conns[parent]["number"])}
    return out


def gen_names(rng, pool, conns, width, p_missing, p_conn=0.4):
    """(names, conn) for one Pins: platform pins or pins of one connector"""
    if conns and rng.random() < p_conn:
        c = rng.choice(conns)
        ks = c["_keys"]
        names = []
        for _ in range(width):
            if ks and rng.random() >= p_missing:
                names.append(rng.choice(ks))
            else:
                names.append("77")
        return names, (c["name"], c["number"])
    return [rng.choice(pool) for _ in range(width)], None


def gen_attrs(rng, p=0.4, none_ok=False):
    if rng.random() >= p:
        return []
    out = []
    for k in rng.sample(ATTR_KEYS, rng.randint(1, 3)):
        r = rng.random()
        if none_ok and r < 0.45:
            v = rng.choice([("none",), ("callnone",)])
        elif r < 0.6:
            v = ("str", rng.choice(ATTR_VALS))
        elif r < 0.8:
            v = ("int", rng.randint(0, 16))
        else:
            v = ("call", rng.choice(ATTR_VALS))
        out.append((k, v))
    return out


def gen_leaf(rng, name, pool, conns, p_missing, none_attrs=False, clock_ok=True, p_conn=0.4):
    width = rng.choice([0, 1, 1, 1, 1, 2, 2, 3])
    d = rng.choice(DIRS)
    if rng.random() < 0.3:
        width = max(width, 1) if rng.random() < 0.9 else width
        pn, conn = gen_names(rng, pool, conns, 2 * width, p_missing, p_conn)
        phys = {"t": "diff", "p": pn[:width], "n": pn[width:], "conn": conn}
    else:
        names, conn = gen_names(rng, pool, conns, width, p_missing, p_conn)
        phys = {"t": "pins", "names": names, "conn": conn}
    return {"t": "leaf", "name": name, "attrs": gen_attrs(rng, none_ok=none_attrs), "phys": phys, "dir": d,
            "invert": rng.random() < 0.3,
            "clock": rng.choice(PERIODS) if clock_ok and rng.random() < 0.3 else None}


def gen_node(rng, name, pool, conns, depth, p_missing, none_attrs=False, p_conn=0.4):
    if depth > 0 and rng.random() < (0.45 if depth == 2 else 0.3):
        k = rng.randint(1, 3)
        subs = [gen_node(rng, sn, pool, conns, depth - 1, p_missing, none_attrs, p_conn)
                for sn in rng.sample(SUB_NAMES, k)]
        return {"t": "group", "name": name, "attrs": gen_attrs(rng, 0.3, none_attrs), "subs": subs}
    return gen_leaf(rng, name, pool, conns, p_missing, none_attrs, p_conn=p_conn)


def gen_table(rng, probes=True, p_missing=0.04, none_attrs=False, n_pool=None, p_conn=0.4, min_conns=0):
    pool = rng.sample(PIN_POOL, n_pool or rng.randint(4, 10))
    conns = gen_connectors(rng, pool)
    while len(conns) < min_conns:
        conns = gen_connectors(rng, pool)
    keys = []
    n = rng.randint(2, 6)
    while len(keys) < n:
        k = (rng.choice(RES_NAMES), rng.choice([0, 0, 1, 2, -1]))
        if k not in keys:
            keys.append(k)
    resources = [{"number": num, "body": gen_node(rng, name, pool, conns, 2, p_missing, none_attrs, p_conn)}
                 for name, num in keys]
    if probes:
        for i, p in enumerate(pool):
            resources.append({"number": i, "probe": True,
                              "body": {"t": "leaf", "name": "probe", "attrs": [], "dir": "io", "invert": False,
                                       "clock": None, "phys": {"t": "pins", "names": [p], "conn": None}}})
    return {"resources": resources, "connectors": conns, "pool": pool}


def node_leaves(n, path=()):
    if n["t"] == "leaf":
        return [(path, n)]
    out = []
    for s in n["subs"]:
        out += node_leaves(s, path + (s["name"],))
    return out


def gen_opt_for(rng, n, which, p_fault):
    """an option value for node n: mostly acceptable, with injected faults"""
    r = rng.random()
    if n["t"] == "leaf":
        if r < p_fault:
            if which == "dir":
                return rng.choice([("val", "x"), ("val", 7), ("dict", [("q", ("val", "i"))]),
                                   ("val", rng.choice(DIRS))])
            return rng.choice([("val", -1), ("val", "1"), ("val", 1.5), ("val", 3), ("val", 5),
                               ("dict", [("q", ("val", 1))])])
        if which == "dir":
            c = rng.random()
            if c < 0.35:
                return None
            if c < 0.75:
                return ("val", "-")
            if n["dir"] == "io" or rng.random() < 0.15:
                return ("val", rng.choice(DIRS))        # possibly an illegal change of direction
            return ("val", n["dir"])
        c = rng.random()
        if c < 0.6:
            return None
        return ("val", rng.choice([0, 0, 1, 2]))
    # group
    if r < p_fault:
        if which == "dir":
            return rng.choice([("val", "i"), ("val", "x"), ("val", 3)])
        return rng.choice([("val", 0), ("val", 1), ("val", "x")])
    c = rng.random()
    if which == "dir" and c < 0.45:
        return ("val", "-")
    if c < 0.6:
        return None
    items = []
    for s in n["subs"]:
        if rng.random() < 0.7:
            items.append((s["name"], gen_opt_for(rng, s, which, p_fault)))
    if rng.random() < 0.1:
        items.append(("zz", ("val", "i" if which == "dir" else 1)))
    return ("dict", items)


def gen_history(rng, t, n_req, p_fault=0.06, dash_bias=0.0):
    real = [r for r in t["resources"] if not r.get("probe")]
    reqs = []
    for _ in range(n_req):
        r = rng.random()
        if r < 0.05:
            reqs.append({"name": rng.choice(RES_NAMES + ["nope"]), "number": rng.choice([3, 7, -2]),
                         "dir": ("val", "-"), "xdr": None})
            continue
        res = rng.choice(real)
        body = res["body"]
        if rng.random() < dash_bias:
            d, x = ("val", "-"), None
        else:
            d, x = gen_opt_for(rng, body, "dir", p_fault), gen_opt_for(rng, body, "xdr", p_fault)
        reqs.append({"name": body["name"], "number": res["number"], "dir": d, "xdr": x})
    return reqs


def sweep(t):
    return [{"name": r["body"]["name"], "number": r["number"], "dir": ("val", "-"), "xdr": None, "sweep": True}
            for r in t["resources"]]


# ---- deliberately F7-shaped ----------------------------------------------------------------------

def gen_shape(rng):
    """A granted; B = group whose first leaves are free and whose last leaf is refused; C uses a pin of
    B's first leaf and must be granted.  Variants: the refusal is a pin conflict, a missing connector pin,
    or an unsupported xdr."""
    pool = rng.sample(PIN_POOL, 8)
    p1, p2, p3, p4, p5 = pool[:5]
    variant = rng.choice(["conflict", "conflict", "name", "xdr", "selfdup"])
    conns = [{"name": "pmod", "number": 0, "io": ("seq", [p4, "-", p5]), "conn": None, "_keys": ["1", "3"]}]

    def leaf(name, names, d="io", conn=None, clock=None, diff=False, invert=False):
        if diff:
            phys = {"t": "diff", "p": names[:1], "n": names[1:2], "conn": conn}
        else:
            phys = {"t": "pins", "names": names, "conn": conn}
        return {"t": "leaf", "name": name, "attrs": gen_attrs(rng, 0.3), "phys": phys, "dir": d,
                "invert": invert, "clock": clock}

    a = {"number": 0, "body": leaf("aaa", [p1], d=rng.choice(DIRS))}
    first_diff = rng.random() < 0.3
    first = leaf("x", [p2, p3] if first_diff else [p2], diff=first_diff,
                 clock=rng.choice(PERIODS) if rng.random() < 0.5 else None, invert=rng.random() < 0.3)
    reqs = []
    if variant == "conflict":
        last = leaf("y", [p1])
        b = {"number": 0, "body": {"t": "group", "name": "bbb", "attrs": [], "subs": [first, last]}}
        bd = rng.choice([("val", "-"), None, ("dict", [("x", ("val", rng.choice(DIRS)))])])
        reqs = [("aaa", 0, ("val", "-"), None), ("bbb", 0, bd, None)]
    elif variant == "selfdup":
        last = leaf("y", [p3, p3] if not first_diff else [p4, p4])
        b = {"number": 0, "body": {"t": "group", "name": "bbb", "attrs": [], "subs": [first, last]}}
        reqs = [("bbb", 0, ("val", "-"), None)]
    elif variant == "name":
        last = leaf("y", ["2"], conn=("pmod", 0))       # pmod_0:2 is the hole in the connector
        b = {"number": 0, "body": {"t": "group", "name": "bbb", "attrs": [], "subs": [first, last]}}
        reqs = [("bbb", 0, ("val", "-"), None)]
    else:  # xdr
        b = {"number": 0, "body": first if rng.random() < 0.5 else
             {"t": "group", "name": "bbb", "attrs": [], "subs": [first]}}
        b["body"]["name"] = "bbb"
        if b["body"]["t"] == "leaf":
            reqs = [("bbb", 0, ("val", rng.choice(DIRS)), ("val", rng.choice([3, 4, 7])))]
        else:
            reqs = [("bbb", 0, ("dict", [("x", ("val", rng.choice(DIRS)))]),
                     ("dict", [("x", ("val", rng.choice([3, 4])))]))]
    c = {"number": 1, "body": leaf("ccc", [p2], d=rng.choice(DIRS))}
    reqs.append(("ccc", 1, ("val", "-"), None))
    if variant == "xdr":
        reqs.insert(1, ("bbb", 0, ("val", "-"), None))       # the same resource, asked for properly
    resources = [a, b, c]
    rng.shuffle(resources)
    for i, p in enumerate(pool):
        resources.append({"number": i, "probe": True,
                          "body": {"t": "leaf", "name": "probe", "attrs": [], "dir": "io", "invert": False,
                                   "clock": None, "phys": {"t": "pins", "names": [p], "conn": None}}})
    t = {"resources": resources, "connectors": conns, "pool": pool}
    return t, [{"name": n, "number": k, "dir": d, "xdr": x} for n, k, d, x in reqs], variant



# ---- IOPort names that coincide ------------------------------------------------------------------

EXTRA_PINS = ["E1", "E2", "E3", "E4", "E5", "E6", "E7", "E8"]


def io_names(res):
    """the IOPort names the leaves of a resource get: "__".join(path) + "__io" / "__p" / "__n" """
    out = []
    root = f"{res['body']['name']}_{res['number']}"
    for path, lf in node_leaves(res["body"]):
        base = "__".join((root,) + path)
        if lf["phys"]["t"] == "pins":
            out.append((base + "__io", len(lf["phys"]["names"]), lf))
        else:
            out.append((base + "__p", len(lf["phys"]["p"]), lf))
            out.append((base + "__n", len(lf["phys"]["n"]), lf))
    return out


def add_collisions(rng, t, reqs):
    """Add resources whose derived IOPort names coincide although their paths differ (the name is
    `"__".join(path)`), and requests for them; some of the colliding leaves declare a clock (finding F30)."""
    pool = t.get("pool", [])
    fresh = [p for p in PIN_POOL + EXTRA_PINS if p not in pool]
    rng.shuffle(fresh)
    diff = rng.random() < 0.25

    def leaf(name, width):
        take = lambda n: [fresh.pop() if fresh else rng.choice(PIN_POOL) for _ in range(n)]  # noqa: E731
        if diff:
            phys = {"t": "diff", "p": take(width), "n": take(width), "conn": None}
        else:
            phys = {"t": "pins", "names": take(width), "conn": None}
        return {"t": "leaf", "name": name, "attrs": gen_attrs(rng, 0.3), "phys": phys, "dir": rng.choice(DIRS),
                "invert": rng.random() < 0.3, "clock": rng.choice(PERIODS[:7]) if rng.random() < 0.35 else None}

    def group(name, subs):
        return {"t": "group", "name": name, "attrs": gen_attrs(rng, 0.2), "subs": subs}
    shape = rng.choice(["sibling", "cross", "flat"])
    w1, w2 = rng.choice([(1, 2), (2, 3), (2, 2), (1, 1), (3, 1), (2, 1)])
    if shape == "sibling":           # col_0 / p__q   and   col_0 / p / q
        subs = [leaf("p__q", w1), group("p", [leaf("q", w2)])]
        if rng.random() < 0.5:
            subs.reverse()
        new = [{"number": 0, "body": group("col", subs)}]
    elif shape == "cross":           # hdr_k / b_0 / c   and   hdr_k__b_0 / c
        k = rng.choice([0, 1])
        new = [{"number": k, "body": group("hdr", [group("b_0", [leaf("c", w1)])])},
               {"number": 0, "body": group(f"hdr_{k}__b", [leaf("c", w2)])}]
    else:                            # col_0__y_0   and   col_0 / y_0
        new = [{"number": 0, "body": leaf("col_0__y", w1)},
               {"number": 0, "body": group("col", [leaf("y_0", w2)])}]
    rng.shuffle(new)
    t["resources"] = t["resources"] + new
    for r in new:
        if rng.random() < 0.92:
            d = ("val", "-") if rng.random() < 0.8 else None
            reqs.insert(rng.randint(0, len(reqs)), {"name": r["body"]["name"], "number": r["number"], "dir": d, "xdr": None})
    return shape


def gen_user_ports(rng, t):
    """the user's own IOPorts: sometimes named exactly like a port a request creates"""
    out = []
    if rng.random() < 0.35:
        cands = [(n, w) for r in t["resources"] for n, w, lf in io_names(r) if w > 0]
        if cands:
            n, w = rng.choice(cands)
            out.append((n, rng.choice([w, w, 1, 2]), rng.choice(["before", "after"])))
    if rng.random() < 0.15:
        out.append(("myport", rng.randint(1, 3), rng.choice(["before", "after"])))
    return out


# ================================================================================================
# running the real code

def exact_period_fs(hz):
    """the femtosecond period a rendered/recorded frequency stands for (rational arithmetic only)"""
    f = Fraction(hz)
    if f <= 0:
        return None
    return round(Fraction(10 ** 15) / f)


def obs_ioport(iop):
    md = list(iop.metadata)
    names = [m.name for m in md]
    attrs = [[str(k), str(v)] for k, v in md[0].attrs.items()] if md else None
    same = all([[str(k), str(v)] for k, v in m.attrs.items()] == attrs for m in md)
    return {"name": iop.name, "width": len(iop), "pins": names, "attrs": attrs, "attrs_same": same}


def obs_port(port):
    from amaranth.lib import io
    d = {io.Direction.Input: "i", io.Direction.Output: "o", io.Direction.Bidir: "io"}[port.direction]
    if isinstance(port, io.SingleEndedPort):
        kind, ios = "single", [obs_ioport(port.io)]
    elif isinstance(port, io.DifferentialPort):
        kind, ios = "diff", [obs_ioport(port.p), obs_ioport(port.n)]
    else:
        return {"kind": "other:" + type(port).__name__}
    return {"kind": kind, "ios": ios, "invert": [bool(b) for b in port.invert], "direction": d, "width": len(port)}


def obs_result(rm, node, value, pins_by_id):
    """flatten what request() returned along the declared tree, in declared order"""
    from amaranth.build.res import PortGroup
    out = []
    if node["t"] == "group":
        if not isinstance(value, PortGroup):
            return [{"kind": "not-a-group:" + type(value).__name__}]
        members = sorted(k for k in vars(value))
        if members != sorted(s["name"] for s in node["subs"]):
            return [{"kind": "group-members", "members": members}]
        for s in node["subs"]:
            out += obs_result(rm, s, getattr(value, s["name"]), pins_by_id)
        return out
    if id(value) in pins_by_id:
        pin, port = pins_by_id[id(value)]
        o = obs_port(port)
        o["pin"] = [pin.dir, pin.xdr]
        o["pin_width"] = pin.width
        return [o]
    o = obs_port(value)
    o["pin"] = None
    return [o]


def obs_state(rm):
    pins = list(rm.iter_pins())
    clocks = []
    for port, hz in rm.iter_port_clock_constraints():
        clocks.append([port.name, exact_period_fs(hz)])
    return {
        "pins": [[obs_port(port)["ios"][0]["name"], pin.dir, pin.xdr] for pin, port, _buf in pins],
        "clocks": clocks,
        "priv_requested": [[k[0], k[1]] for k in rm._requested.keys()] if hasattr(rm, "_requested") else None,
        "priv_phys": [[k, list(v)] for k, v in rm._phys_reqd.items()] if hasattr(rm, "_phys_reqd") else None,
    }


def do_request(rm, t, rq):
    """one real request -> observation"""
    by_key = {(r["body"]["name"], r["number"]): r for r in t["resources"]}
    try:
        v = rm.request(rq["name"], rq["number"], dir=build_opt(rq["dir"], "dir"), xdr=build_opt(rq["xdr"], "xdr"))
    except Exception as e:  # noqa: BLE001 - every exception class is an observation
        return {"ok": False, "err": common.errkind(e), "msg": str(e)[:200]}, None
    pins_by_id = {id(pin): (pin, port) for pin, port, _b in rm.iter_pins()}
    res = by_key[(rq["name"], rq["number"])]
    return {"ok": True, "grants": obs_result(rm, res["body"], v, pins_by_id)}, v


def run_history_real(t, reqs):
    from amaranth.build.res import ResourceManager
    rm = ResourceManager(build_resources(t), build_connectors(t["connectors"]))
    conn_pins = [[k, v] for k, v in rm._conn_pins.items()] if hasattr(rm, "_conn_pins") else None
    steps = []
    for rq in reqs:
        o, _v = do_request(rm, t, rq)
        steps.append({"out": o, "state": obs_state(rm)})
    return {"conn_pins": conn_pins, "steps": steps}


# ================================================================================================
# comparison

_PENDING = []


def report(chk, summary, replay):
    """a violation; buffered so that unclassified ones are stored first (the stored replays are capped), with
    a histogram of the classes of *every* violation"""
    cl = ",".join(replay.get("classes", [])) if isinstance(replay, dict) else ""
    chk.hist("violation classes", cl or "unclassified")
    _PENDING.append((0 if not cl else 1, len(_PENDING), summary, replay))


def flush_reports(chk):
    for _prio, _n, summary, replay in sorted(_PENDING, key=lambda x: (x[0], x[1])):
        chk.violation(summary, replay)
    del _PENDING[:]


def model_grant_view(g):
    """the model's grant in the shape of obs_result"""
    ios = [{"name": io["name"], "width": len(io["pins"]), "pins": io["pins"],
            "attrs": io["attrs"] if io["pins"] else None, "attrs_same": True} for io in g["ios"]]
    w = len(g["ios"][0]["pins"])
    return {"kind": g["kind"], "ios": ios, "invert": [g["invert"]] * w, "direction": g["direction"], "width": w,
            "pin": g["pin"], **({"pin_width": w} if g["pin"] is not None else {})}


def model_state_view(s):
    return {"pins": [[g["ios"][0]["name"], g["pin"][0], g["pin"][1]] for g in s["pins"]],
            "clocks": [[n, p] for n, p in s["clocks"]]}


def impl_pins(o):
    out = []
    for g in o["grants"]:
        for io in g.get("ios", []):
            out += io["pins"]
    return out


def cmp_step(impl, out_key, state_key, m):
    """'' if the real observation equals the machine `out_key`/`state_key` of the model response m,
    else a short reason"""
    mo = m[out_key]
    io = impl["out"]
    if io["ok"] != mo["ok"]:
        return f"outcome: impl {'granted' if io['ok'] else io['err']} / model {'granted' if mo['ok'] else mo['err']}"
    if not io["ok"]:
        if io["err"] != mo["err"]:
            return f"error kind: impl {io['err']} / model {mo['err']}"
    else:
        mg = [model_grant_view(g) for g in mo["grants"]]
        if io["grants"] != mg:
            return "granted port differs"
    ms = model_state_view(m[state_key])
    if impl["state"]["pins"] != ms["pins"]:
        return "iter_pins() differs"
    if impl["state"]["clocks"] != ms["clocks"]:
        return "port clock constraints differ"
    return ""


def cmp_spec(impl, m, table_res):
    """'' if the real outcome satisfies the Spec verdict for this step (granted/refused, pins in declared
    order, ResourceError for an allocation refusal), else reason"""
    io = impl["out"]
    v = m["spec"]
    if v["verdict"] == "granted":
        if not io["ok"]:
            return f"spec grants, impl refuses with {io['err']}"
        if impl_pins(io) != v["pins"]:
            return f"granted pins {impl_pins(io)} != spec {v['pins']}"
        # one bit per pin; invert/direction as declared
        if table_res is not None:
            leaves = node_leaves(table_res["body"])
            if len(leaves) != len(io["grants"]):
                return "number of granted leaves differs from the declaration"
            for (path, lf), g in zip(leaves, io["grants"]):
                if g.get("kind") not in ("single", "diff"):
                    return f"unexpected port object {g.get('kind')}"
                want_dir = {"i": "i", "o": "o", "oe": "o", "io": "io"}[lf["dir"]]
                if g["direction"] != want_dir:
                    return f"direction {g['direction']} != declared {want_dir}"
                if g["invert"] != [lf["invert"]] * g["width"]:
                    return "inversion differs from the declaration"
                for iop in g["ios"]:
                    if iop["width"] != len(iop["pins"]):
                        return "port width differs from its pin list"
    else:
        if io["ok"]:
            return "spec refuses, impl grants"
        if m["wanted"] is not None and io["err"] != "ResourceError" and m["model"]["err"] == "ResourceError":
            return f"allocation refusal raised {io['err']}, not ResourceError"
    return ""


def cmp_private(impl, m):
    st = impl["state"]
    if st["priv_requested"] is None or st["priv_phys"] is None:
        return "private tables renamed"
    ms = m["state"]
    if st["priv_requested"] != ms["requested"]:
        return "_requested differs"
    if st["priv_phys"] != [[p, path] for p, path in ms["phys"]]:
        return "_phys_reqd differs"
    return ""


def has_bad_none_attr(node, inherited_nonempty=False):
    """F14 trigger: a None-valued attribute that is not the last key of the dictionary being resolved"""
    def vals(n):
        return [(k, attr_value(v)) for k, v in n["attrs"]]
    a = vals(node)
    if any(v is None for _k, v in a):
        return True
    if node["t"] == "group":
        return any(has_bad_none_attr(s) for s in node["subs"])
    return False


def judge_history(chk, tag, t, reqs, real, m, extra=None):
    """walk one history; report the first divergence. Returns a label for histograms."""
    by_key = {(r["body"]["name"], r["number"]): r for r in t["resources"]}
    leaky_ok = True
    if real["conn_pins"] is not None and real["conn_pins"] != m["conn_pins"]:
        chk.not_shown("C19: _conn_pins differs from the model's connector table",
                      {"table": ser_table(t), "impl": real["conn_pins"], "model": m["conn_pins"]})
    elif real["conn_pins"] is None:
        chk.not_shown("C19: private table _conn_pins no longer exists", {})
    def follow_leaky(start):
        """after an F7 divergence the unrepaired code must keep following the leaky model exactly"""
        for j in range(start, min(len(reqs), len(real["steps"]), len(m["steps"]))):
            st, ms = real["steps"][j], m["steps"][j]
            res_j = by_key.get((reqs[j]["name"], reqs[j]["number"]))
            if (not st["out"]["ok"] and st["out"]["err"] == "other:RuntimeError" and res_j is not None
                    and has_bad_none_attr(res_j["body"])):
                return ""                                   # F14 on top of F7: stop here
            d = cmp_step(st, "leaky", "leaky_state", ms)
            if not d and st["state"]["priv_phys"] is not None:
                if (st["state"]["priv_phys"] != [[p_, path] for p_, path in ms["leaky_state"]["phys"]]
                        or st["state"]["priv_requested"] != ms["leaky_state"]["requested"]):
                    d = "private tables differ"
            if d:
                chk.not_shown(f"C19: after an F7 leak the implementation follows neither the repaired nor the "
                              f"leaky model: {d} at step {j}",
                              {"stream": tag, "step": j, "why": d, "hist": ser_hist(t, reqs), "impl": st,
                               "leaky": ms["leaky"], "leaky_state": ms["leaky_state"]})
                return "+leaky-mismatch"
        return ""

    for i, (rq, st, ms) in enumerate(zip(reqs, real["steps"], m["steps"])):
        res = by_key.get((rq["name"], rq["number"]))
        d_leaky = cmp_step(st, "leaky", "leaky_state", ms)
        leaky_ok = leaky_ok and d_leaky == ""
        d_spec = cmp_spec(st, ms, res)
        d_model = cmp_step(st, "model", "state", ms)
        if not d_spec and not d_model:
            d_priv = cmp_private(st, ms)
            if d_priv:
                replay = {"stream": tag, "step": i, "why": d_priv, "hist": ser_hist(t, reqs), "request": ser_req(rq),
                          "impl_state": st["state"], "model_state": ms["state"]}
                leak = (st["state"]["priv_phys"] == [[p, path] for p, path in ms["leaky_state"]["phys"]]
                        and st["state"]["priv_requested"] == ms["leaky_state"]["requested"] and leaky_ok)
                if leak:
                    replay["classes"] = [F7]
                    replay["observable"] = "private table (the sweep of this history does not expose it)"
                    report(chk, f"refused request changed the allocation table ({d_priv}) at step {i} [{tag}]", replay)
                    return "F7-private" + follow_leaky(i + 1)
                chk.not_shown(f"C19 internal observable: {d_priv} at step {i}", replay)
                return "private"
            continue
        why = d_spec or d_model
        replay = {"stream": tag, "step": i, "why": why, "hist": ser_hist(t, reqs), "request": ser_req(rq),
                  "impl": st, "model": ms["model"], "spec": ms["spec"], "model_state": model_state_view(ms["state"])}
        if extra:
            replay.update(extra)
        classes = []
        if leaky_ok and ms["leaky_state"] != ms["state"]:
            classes.append(F7)
        if (not st["out"]["ok"] and st["out"]["err"] == "other:RuntimeError"
                and res is not None and has_bad_none_attr(res["body"])):
            classes = [F14]
        if classes:
            replay["classes"] = classes
        # a public state leak after a refusal is a failing input of "a refused request leaves the allocation
        # unchanged"; an outcome that contradicts the Spec verdict likewise
        is_spec = (bool(d_spec) or d_model in ("iter_pins() differs", "port clock constraints differ")
                   or F14 in classes)          # a crash (RuntimeError) instead of the modelled refusal
        if is_spec:
            report(chk, f"{why} at step {i} of a {len(reqs)}-request history [{tag}]"
                          + (f" classes={classes}" if classes else ""), replay)
            if classes == [F7]:
                return "violation:F7" + follow_leaky(i + 1)
            return "violation:" + ",".join(classes) if classes else "violation"
        chk.not_shown(f"C19 model correspondence: {why} at step {i}", replay)
        return "model-mismatch"
    return "agree"


# ================================================================================================
# end to end

PLATFORMS = ("ice40", "ecp5", "gowin")


def make_platform(kind, t, default_clk, shared_res=None):
    """shared_res: Resource objects that were built once and are given to several platforms"""
    from amaranth.vendor import SiliconBluePlatform, LatticePlatform, GowinPlatform
    res = build_resources(t) if shared_res is None else shared_res
    conns = build_connectors(t["connectors"])
    if kind == "ice40":
        class P(SiliconBluePlatform):
            device = "iCE40HX8K"
            package = "CT256"
            resources = res
            connectors = conns
        P.default_clk = default_clk
        return P(), "top.pcf"
    if kind == "ecp5":
        class P(LatticePlatform):
            device = "LFE5U-25F"
            package = "BG381"
            speed = "6"
            resources = res
            connectors = conns
        P.default_clk = default_clk
        return P(toolchain="Trellis"), "top.lpf"

    class P(GowinPlatform):
        part = "GW1NR-LV9QN88PC6/I5"
        family = "GW1NR-9C"
        resources = res
        connectors = conns
    P.default_clk = default_clk
    return P(toolchain="Apicula"), "top.cst"


def parse_constraints(kind, text):
    """-> (locs [(bit name, pin)], freqs [(port, period fs)], attrs {bit name: [[k, v]]}, unparsed lines)"""
    locs, freqs, attrs, other = [], [], {}, []
    for line in text.splitlines():
        s = line.strip()
        if not s or s.startswith("#") or s.startswith("//"):
            continue
        if kind == "ice40":
            mm = re.fullmatch(r"set_io (\S+) (\S+)", s)
            if mm:
                locs.append((mm.group(1), mm.group(2)))
                continue
            mm = re.fullmatch(r"set_frequency (\S+) (\S+)", s)
            if mm:
                freqs.append((mm.group(1), exact_period_fs(Fraction(mm.group(2)) * 10 ** 6)))
                continue
        elif kind == "ecp5":
            if s in ("BLOCK ASYNCPATHS;", "BLOCK RESETPATHS;"):
                continue
            mm = re.fullmatch(r'LOCATE COMP "([^"]+)" SITE "([^"]+)";', s)
            if mm:
                locs.append((mm.group(1), mm.group(2)))
                continue
            mm = re.fullmatch(r'IOBUF PORT "([^"]+)"((?: \S+=\S+)*);', s)
            if mm:
                attrs.setdefault(mm.group(1), []).append([x.split("=", 1) for x in mm.group(2).split()])
                continue
            mm = re.fullmatch(r'FREQUENCY PORT "([^"]+)" (\S+) HZ;', s)
            if mm:
                freqs.append((mm.group(1), exact_period_fs(Fraction(mm.group(2)))))
                continue
        else:
            mm = re.fullmatch(r'IO_LOC "([^"]+)" (\S+);', s)
            if mm:
                locs.append((mm.group(1), mm.group(2)))
                continue
            mm = re.fullmatch(r'IO_PORT "([^"]+)" (\S+)=(\S+);', s)
            if mm:
                attrs.setdefault(mm.group(1), [[]])[0].append([mm.group(2), mm.group(3)])
                continue
        other.append(s)
    return locs, freqs, attrs, other


def parse_rtlil_top_ports(text):
    """top-level ports of the emitted RTLIL: {name: width}"""
    ports = {}
    mm = re.search(r"^module \\top\n(.*?)^end\n", text, flags=re.S | re.M)
    if not mm:
        return None
    for line in mm.group(1).splitlines():
        w = re.match(r"\s*wire (?:width (\d+) )?(?:input|output|inout) \d+\s+\\(\S+)\s*$", line)
        if w:
            ports[w.group(2)] = int(w.group(1) or 1)
    return ports


def e2e_case_real(args, shared_res=None):
    """(runs in a worker) returns the observation of one end-to-end case"""
    kind, t, reqs, default_clk, use_mask, buf_dirs, user_ports = args
    import warnings
    warnings.filterwarnings("ignore")
    from amaranth.hdl import Elaboratable, Module, Signal, Instance, IOPort
    from amaranth.lib import io
    from amaranth.build.res import PortGroup
    try:
        platform, fname = make_platform(kind, t, default_clk, shared_res)
    except Exception as e:  # noqa: BLE001
        return {"setup_error": common.errkind(e) + ": " + str(e)[:200]}
    log = []
    used = []

    class Top(Elaboratable):
        def elaborate(self, plat):
            m = Module()
            k = 0

            def add_user_ports(when):
                # the user's own IOPorts (no pin metadata), possibly named like a requested port
                for n_, (uname, width, pos) in enumerate(user_ports):
                    if pos == when:
                        m.submodules[f"user{n_}"] = Instance("USERCELL", i_A=IOPort(width, name=uname))
            add_user_ports("before")
            for j, rq in enumerate(reqs):
                o, v = do_request(plat, t, rq)
                log.append({"out": o, "state": obs_state(plat)})
                if not o["ok"]:
                    continue

                def walk(x):
                    if isinstance(x, PortGroup):
                        for name in vars(x):
                            yield from walk(getattr(x, name))
                    else:
                        yield x
                for leaf in walk(v):
                    if not isinstance(leaf, (io.SingleEndedPort, io.DifferentialPort)):
                        continue                      # a Pin: prepare() adds its PinBuffer
                    k += 1
                    if not use_mask[k % len(use_mask)] or len(leaf) == 0:
                        continue
                    want = buf_dirs[k % len(buf_dirs)]
                    if leaf.direction is io.Direction.Input:
                        bd = "i"
                    elif leaf.direction is io.Direction.Output:
                        bd = "o"
                    else:
                        bd = want
                        if kind == "ice40" and isinstance(leaf, io.DifferentialPort) and bd == "io":
                            bd = "i"
                    buf = io.Buffer(bd, leaf)
                    m.submodules[f"buf{k}"] = buf
                    if bd in ("o", "io"):
                        s = Signal(len(leaf), name=f"drv{k}")
                        m.d.comb += buf.o.eq(s)
                    used.append([obs_port(leaf)["ios"][0]["name"], bd])
            add_user_ports("after")
            if default_clk is not None:
                c = Signal(4)
                m.d.sync += c.eq(c + 1)
            return m

    try:
        plan = platform.build(Top(), do_build=False)
    except Exception as e:  # noqa: BLE001
        import traceback
        return {"log": log, "used": used, "prepare_error": common.errkind(e), "msg": str(e)[:300],
                "tb": traceback.format_exc()[-1500:], "state": obs_state(platform)}
    files = plan.files
    text = files[fname]
    text = text if isinstance(text, str) else text.decode()
    il = files.get("top.il")
    il = il if isinstance(il, str) else (il.decode() if il is not None else "")
    # internal observable: which IOPort object the design put under which top-level name
    design_ports = None
    try:
        design_ports = [[name, port.name, len(port),
                         None if all(md is None for md in port.metadata) else
                         [None if md is None else md.name for md in port.metadata]]
                        for name, port, _d in platform._design.ports]
    except Exception:  # noqa: BLE001 - private attribute, may be refactored away
        pass
    return {"log": log, "used": used, "file": fname, "text": text, "rtlil_ports": parse_rtlil_top_ports(il),
            "state": obs_state(platform), "design_ports": design_ports,
            "user_ports": [[u, w] for u, w, _pos in user_ports]}


def judge_e2e(chk, kind, t, reqs, default_clk, real, m, n_elab):
    base = {"stream": "e2e", "platform": kind, "hist": ser_hist(t, reqs), "default_clk": default_clk}
    if "setup_error" in real:
        chk.not_shown("C19 e2e: platform construction failed", {**base, "error": real["setup_error"]})
        return "setup-error"
    # 1. the requests made during elaborate
    elab_real = {"conn_pins": m["conn_pins"], "steps": real["log"]}
    label = judge_history(chk, "e2e:" + kind, t, reqs[:len(real["log"])], elab_real,
                          {"conn_pins": m["conn_pins"], "steps": m["steps"][:len(real["log"])]},
                          extra={"platform": kind})
    if label != "agree" and F7 not in label:
        return "elab-" + label
    elab_label = label
    steps = m["steps"]
    final = steps[-1] if steps else None
    classes = []
    # the implicit requests of create_missing_domain (after elaborate)
    post = steps[n_elab:]
    post_refused = [s for s in post if not s["model"]["ok"]]
    if "prepare_error" in real:
        if elab_label != "agree":
            return "elab-" + elab_label
        if post_refused and real["prepare_error"] == post_refused[0]["model"]["err"]:
            return "default-clk-refused"
        bidir_pair = any(g["kind"] == "diff" and g["pin"] is not None and g["pin"][0] == "io"
                         for s in steps if s["model"]["ok"] for g in s["model"]["grants"])
        if kind == "ice40" and bidir_pair and "bidirectional differential" in real["msg"]:
            return "unsupported-by-platform"      # documented iCE40 limitation, raised by get_io_buffer
        rep = {**base, "error": real["prepare_error"], "msg": real["msg"], "tb": real["tb"]}
        post_leaky = [s for s in post if not s["leaky"]["ok"]]
        if post_leaky and real["prepare_error"] == post_leaky[0]["leaky"]["err"]:
            classes = [F7]                # the implicit default-clock request hit a leaked pin
        if classes:
            rep["classes"] = classes
        report(chk, f"platform.build(do_build=False) raised {real['prepare_error']} on {kind}", rep)
        return "prepare-error"
    if post_refused:
        report(chk, f"default clock request should be refused ({post_refused[0]['model']['err']}) but prepare succeeded", base)
        return "violation"
    # 2. expectation from the model: every granted IOPort, its bits, the clocks
    locs, freqs, attrs, other = parse_constraints(kind, real["text"])
    rt = real["rtlil_ports"]
    rep = {**base, "file": real["file"], "text": real["text"], "rtlil_ports": rt, "used": real["used"]}
    if rt is None:
        chk.not_shown("C19 e2e: cannot find module \\top in the emitted RTLIL", rep)
        return "rtlil"
    if [x for x in other if "placeholder" not in x]:
        chk.not_shown("C19 e2e: unparsed constraint lines", {**rep, "lines": other})
        return "unparsed"

    def expectation(out_key, state_key):
        ports = []
        seen = set()
        by_key = {(r["body"]["name"], r["number"]): r for r in t["resources"]}
        for rq, s in zip(reqs, steps):
            if s[out_key]["ok"]:
                res = by_key.get((rq["name"], rq["number"]))
                leaves = node_leaves(res["body"]) if res else []
                for gi, g in enumerate(s[out_key]["grants"]):
                    for ii, iop in enumerate(g["ios"]):
                        # the clock a leaf declares is attached to its first IOPort (`__io`, resp. `__p`)
                        ck = leaves[gi][1]["clock"] if gi < len(leaves) and ii == 0 else None
                        ports.append({**iop, "clock": ck})
                        seen.add((iop["name"], tuple(iop["pins"])))
        if final:
            for g in final[state_key]["pins"]:          # PinBuffers that prepare() adds (leaked ones too)
                for iop in g["ios"]:
                    if (iop["name"], tuple(iop["pins"])) not in seen:
                        ports.append({**iop, "clock": None})
        clocks = sorted((n, p) for n, p in final[state_key]["clocks"]) if final else []
        return ports, clocks

    def attr_ok(bit, want):
        got = attrs.get(bit, [])
        if want:
            return got == [want]
        return got in ([], [[]])

    file_info = {"classes": []}

    def check_file(ports, want_clocks):
        """The constraint file against the top-level ports *actually present in the emitted design*.  IOPort
        names need not be unique (`"__".join(path)` of different paths, or a user's own IOPort): the design
        then calls the later ones `name$N`, and every such top-level port needs its own lines."""
        file_info["classes"] = []
        groups = {}
        for iop in ports:
            groups.setdefault(iop["name"], []).append(iop)
        placed = {}                        # id(granted IOPort) -> the top-level port of the design it is
        users = {}
        for uname, width in real.get("user_ports", []):
            users.setdefault(uname, []).append(width)

        def base_of(r):
            if r in groups or r in users:
                return r
            mm = re.fullmatch(r"(.*)\$\d+", r)
            if mm and (mm.group(1) in groups or mm.group(1) in users):
                return mm.group(1)
            return None
        by_bit = {}
        for bit, pin in locs:
            by_bit.setdefault(bit, []).append(pin)
        observed = {}                      # top-level port -> list of pins in bit order, or None (no line at all)
        rt_groups = {}
        for r, width in sorted(rt.items()):
            b = base_of(r)
            if b is None:
                return f"top-level port {r} was never granted"
            rt_groups.setdefault(b, []).append(r)
            bits = [r] if width == 1 else [f"{r}[{i}]" for i in range(width)]
            pins = []
            for bit in bits:
                got = by_bit.pop(bit, [])
                if len(got) > 1:
                    return f"{bit} is constrained {len(got)} times: {got}"
                pins.append(got[0] if got else None)
            if width and all(x is None for x in pins):
                observed[r] = None
            elif any(x is None for x in pins):
                return f"top-level port {r}: bits {[bt for bt, x in zip(bits, pins) if x is None]} are not constrained"
            else:
                observed[r] = pins
        if by_bit:
            return f"constraints for {sorted(by_bit)[:4]}, which are not bits of any top-level port of the design"
        # every port the harness buffered must be a top-level port (the n side of a pair may be elided)
        used_count = {}
        for name, _bd in real["used"]:
            used_count[name] = used_count.get(name, 0) + 1
        for name, n_used in used_count.items():
            if len(rt_groups.get(name, [])) < n_used:
                return f"{n_used} buffered port(s) named {name}, but the design has top-level ports {rt_groups.get(name, [])}"
        # each top-level port of a name group is one of the declared ports of that name, each at most once
        for b, rs in rt_groups.items():
            cands = [("res", iop) for iop in groups.get(b, [])] + [("user", w) for w in users.get(b, [])]
            for r in rs:
                width, obs = rt[r], observed[r]
                hit = None
                for idx, (ck, c) in enumerate(cands):
                    if ck == "user":
                        if c == width and (obs is None or width == 0):
                            hit = idx
                            break
                    elif len(c["pins"]) == width and (obs or []) == list(c["pins"]):
                        want = [list(x) for x in c["attrs"]]
                        bits = [r] if width == 1 else [f"{r}[{i}]" for i in range(width)]
                        if kind in ("ecp5", "gowin") and not all(attr_ok(bit, want) for bit in bits):
                            continue
                        hit = idx
                        break
                if hit is None:
                    decl = [(c["pins"], c["attrs"]) if ck == "res" else f"user port of width {c}" for ck, c in cands]
                    return (f"top-level port {r} (width {width}) is constrained to {obs}"
                            + (f" with attributes {[attrs.get(bt) for bt in ([r] if width == 1 else [f'{r}[0]'])]}" if kind != "ice40" else "")
                            + f", but the ports named {b} declare {decl}")
                if cands[hit][0] == "res":
                    placed[id(cands[hit][1])] = r
                del cands[hit]
        pins_used = [p_ for _b, p_ in locs]
        if len(set(pins_used)) != len(pins_used):
            return "a physical pin is constrained twice"
        # internal observable: the design's own (name -> IOPort) association
        for dname, _pname, _w, metas in (real.get("design_ports") or []):
            if metas is not None and dname in observed and observed[dname] != metas and None not in metas:
                return (f"top-level port {dname} is the IOPort with pins {metas}, "
                        f"but the file constrains it to {observed[dname]}")
        # clocks: each declared clock of a granted resource exactly once, with its period
        if kind == "gowin":
            if freqs:
                return "frequency lines in a .cst"
        else:
            # the line must name the top-level port that *is* the clocked IOPort (its own name if it is not in
            # the design at all)
            want = sorted((placed.get(id(iop), iop["name"]), iop["clock"]) for iop in ports if iop["clock"] is not None)
            if len(want) != len(want_clocks):
                want = want_clocks          # (leaked clocks of the un-repaired allocator: by name only)
            if sorted(freqs) != want:
                # F30, structurally: a clocked port was de-duplicated to `name$N` because another used top-level
                # port has the same IOPort name, and the lines are exactly the ones rendered from IOPort.name
                renamed = [iop for iop in ports if iop["clock"] is not None
                           and placed.get(id(iop), iop["name"]) != iop["name"]
                           and len(rt_groups.get(iop["name"], [])) >= 2]
                by_name = sorted((iop["name"], iop["clock"]) for iop in ports if iop["clock"] is not None)
                if renamed and sorted(freqs) == by_name:
                    file_info["classes"] = [F30]
                return f"clock constraints {sorted(freqs)} != declared {want} (top-level port that carries the clocked pins, period fs)"
        return ""

    ports, clocks = expectation("model", "state")
    for iop in ports:
        if iop["bits"] != iop["spec_bits"]:
            chk.not_shown("C19: model constraint bits differ from the Spec's", {**rep, "port": iop})
            break
    msg = check_file(ports, clocks)
    if elab_label != "agree":
        # the elaboration already showed an F7 leak; report its consequence in the rendered file, if any
        leaky_msg = check_file(*expectation("leaky", "leaky_state"))
        if leaky_msg:
            report(chk, f"{real['file']} ({kind}): {leaky_msg} (even allowing for the F7 leak seen during elaborate)",
                   {**rep, "why": leaky_msg})
            return "elab-" + elab_label + "+file-violation"
        if msg:
            rep["classes"] = [F7]
            report(chk, f"{real['file']} ({kind}): {msg} classes=['F7'] (consequence of the leak seen during elaborate)",
                          {**rep, "why": msg})
            return "elab-" + elab_label + "+file"
        return "elab-" + elab_label
    if msg:
        classes = list(file_info["classes"])
        if not classes:
            classes = [F7] if not check_file(*expectation("leaky", "leaky_state")) else []
        if classes:
            rep["classes"] = classes
        report(chk, f"{real['file']} ({kind}): {msg}" + (f" classes={classes}" if classes else ""), {**rep, "why": msg})
        return "violation" + (":" + ",".join(classes) if classes else "")
    return "agree"


# ================================================================================================
# connector chains

def gen_chain_case(rng, want_pool=False):
    pool = rng.sample(PIN_POOL, 5)
    conns = gen_connectors(rng, pool, n_max=3)
    # deeper chains, explicitly
    if rng.random() < 0.5:
        depth = rng.randint(2, 5)
        conns = []
        for k in range(depth):
            last = k == depth - 1
            width = rng.randint(1, 3)
            if last:
                io = ("seq", [rng.choice(pool) for _ in range(width)])
            else:
                io = ("dict", [(str(i + 1), str(rng.randint(1, 3))) for i in range(width)])
            conns.append({"name": "c", "number": k, "io": io, "conn": None if last else ("c", k + 1),
                          "_keys": [str(i + 1) for i in range(width)]})
    names = []
    for _ in range(rng.randint(1, 4)):
        r = rng.random()
        if conns and r < 0.8:
            c = rng.choice(conns)
            key = rng.choice(c["_keys"]) if c["_keys"] and rng.random() < 0.9 else "5"
            names.append(f"{c['name']}_{c['number']}:{key}")
        else:
            names.append(rng.choice(pool))
    if want_pool:
        return conns, names, pool
    return conns, names


CYCLIC_REPLAY = textwrap.dedent("""
    import sys, warnings
    warnings.simplefilter("ignore")
    sys.path.insert(0, sys.argv[1])
    from amaranth.build import *
    from amaranth.build.res import ResourceManager
    rm = ResourceManager([Resource("a", 0, Pins("1", dir="i", conn=("p", 0)))],
                         [Connector("p", 0, {"1": "1"}, conn=("q", 0)), Connector("q", 0, {"1": "1"}, conn=("p", 0))])
    print("constructed", flush=True)
    rm.request("a", 0, dir="-")
    print("returned", flush=True)
""")


def boundary_cyclic(chk):
    """Pins.map_names on a cyclic connector chain: replay in a subprocess with a time-out"""
    line = ('(names (connectors (connector "p" "0" (dict ("1" "1")) (conn "q" "0")) '
            '(connector "q" "0" (dict ("1" "1")) (conn "p" "0"))) auto "p_0:1")')
    model = json.loads(chk.driver.ask([line])[0])["result"]
    try:
        p = subprocess.run([sys.executable, "-c", CYCLIC_REPLAY, common.REPO], capture_output=True, text=True, timeout=3)
        impl = "returned" if "returned" in p.stdout else "raised: " + p.stderr.strip().splitlines()[-1][:200]
    except subprocess.TimeoutExpired as e:
        out = e.stdout.decode() if isinstance(e.stdout, bytes) else (e.stdout or "")
        impl = "no result after 3 s (constructed=%s)" % ("constructed" in out)
    chk.extra["boundary"] = {
        "cyclic connector chain p_0 -> q_0 -> p_0": {"impl": impl, "model": model,
            "note": "excluded by the hypothesis `Acyclic` of map_names_terminates; the model reports `fuel`"}}
    return impl


def witness_clock_on_colliding_name(chk):
    """F30, deterministic witness run on every invocation (iCE40 .pcf and ECP5 .lpf): `a.x__y` (pin A1) and the
    clocked `a.x.y` (pin B1) both get the IOPort name `a_0__x__y__io`; the design calls the second one
    `a_0__x__y__io$1`, the location lines follow, the frequency line must too.  Judged like any e2e case, so
    the KNOWN-FINDING line appears while the defect is there and disappears when it is repaired."""
    y = {"t": "leaf", "name": "y", "attrs": [], "dir": "i", "invert": False, "clock": 100_000_000,
         "phys": {"t": "pins", "names": ["B1"], "conn": None}}
    xy = {"t": "leaf", "name": "x__y", "attrs": [], "dir": "i", "invert": False, "clock": None,
          "phys": {"t": "pins", "names": ["A1"], "conn": None}}
    t = {"resources": [{"number": 0, "body": {"t": "group", "name": "a", "attrs": [], "subs": [
        xy, {"t": "group", "name": "x", "attrs": [], "subs": [y]}]}}], "connectors": [], "pool": ["A1", "B1"]}
    reqs = [{"name": "a", "number": 0, "dir": ("val", "-"), "xdr": None}]
    m = json.loads(chk.driver.ask([ser_hist(t, reqs)])[0])
    out = {}
    for kind in ("ice40", "ecp5"):
        real = e2e_case_real((kind, t, reqs, None, [True], ["i"], []))
        chk.count()
        label = judge_e2e(chk, kind, t, reqs, None, real, m, len(reqs))
        chk.hist("witness F30:" + kind, label)
        if "text" in real:
            locs, freqs, _a, _o = parse_constraints(kind, real["text"])
            port_of_pin = {pin: bit for bit, pin in locs}
            out[kind] = {"result": label, "top-level port on the clocked pin B1": port_of_pin.get("B1"),
                         "frequency lines": [[n, p_] for n, p_ in freqs]}
        else:
            out[kind] = {"result": label, "error": real.get("prepare_error") or real.get("setup_error")}
    chk.extra.setdefault("boundary", {})["F30 witness: clock declared on a port whose IOPort name collides with another used port"] = out
    return out


# ================================================================================================

def _real_hist_worker(args):
    t, reqs = args
    import warnings
    warnings.filterwarnings("ignore")
    try:
        return run_history_real(t, reqs)
    except Exception as e:  # noqa: BLE001
        import traceback
        return {"crash": common.errkind(e), "tb": traceback.format_exc()[-1500:]}


def _shared_hist_worker(args):
    """ONE list of Resource objects, several ResourceManagers with their own connector tables; the requests of all
    managers interleaved in `order` (a list of manager indices)"""
    t, conn_tables, reqs_list, order = args
    import warnings
    warnings.filterwarnings("ignore")
    try:
        from amaranth.build.res import ResourceManager
        res = build_resources(t)
        rms = [ResourceManager(res, build_connectors(c)) for c in conn_tables]
        outs = [{"conn_pins": [[k, v] for k, v in rm._conn_pins.items()] if hasattr(rm, "_conn_pins") else None, "steps": []}
                for rm in rms]
        pos = [0] * len(rms)
        for k in order:
            rq = reqs_list[k][pos[k]]
            pos[k] += 1
            o, _v = do_request(rms[k], t, rq)
            outs[k]["steps"].append({"out": o, "state": obs_state(rms[k])})
        return outs
    except Exception as e:  # noqa: BLE001
        import traceback
        return {"crash": common.errkind(e), "tb": traceback.format_exc()[-1500:]}


def _shared_e2e_worker(args):
    """ONE list of Resource objects given to several platform classes (each with its own connectors); every
    platform builds its own design from its own requests, one after the other in this process"""
    t, plats = args                      # plats: [(kind, connectors, reqs, use_mask, buf_dirs)]
    import warnings
    warnings.filterwarnings("ignore")
    res = build_resources(t)
    out = []
    for kind, conns, reqs, use_mask, buf_dirs in plats:
        tk = {**t, "connectors": conns}
        out.append(e2e_case_real((kind, tk, reqs, None, use_mask, buf_dirs, []), shared_res=res))
    return out


def run(chk):
    if not chk.lean():
        chk.not_shown("Lean build of Properties/C19 failed", chk.build_log[-3000:])
        return
    rng = chk.rng
    quick = chk.tier == "quick"
    n_hist = 220 if quick else 8000
    n_shape = 60 if quick else 1000
    n_attrs = 12 if quick else 80
    n_names = 300 if quick else 8000
    n_e2e = 24 if quick else 400           # per platform
    n_shared = 50 if quick else 2500       # resource descriptions shared by 2-3 managers
    n_shared_e2e = 6 if quick else 150     # ... by 2-3 platforms, end to end

    import time
    t_stage = [time.time()]

    def stage(name):
        now = time.time()
        chk.extra.setdefault("stage_seconds", {})[name] = round(now - t_stage[0], 2)
        t_stage[0] = now

    # ---- hist + shape + attrs ---------------------------------------------------------------------
    cases = []
    for _ in range(n_hist):
        t = gen_table(rng)
        reqs = gen_history(rng, t, rng.randint(2, 9), p_fault=rng.choice([0.0, 0.05, 0.15])) + sweep(t)
        cases.append(("hist", t, reqs, None))
    for _ in range(n_shape):
        t, reqs, variant = gen_shape(rng)
        cases.append(("shape", t, reqs + sweep(t), variant))
    for _ in range(n_attrs):
        t = gen_table(rng, none_attrs=True)
        reqs = gen_history(rng, t, rng.randint(1, 4), p_fault=0.0, dash_bias=0.7) + sweep(t)
        cases.append(("attrs", t, reqs, None))
    n_opts = 0
    dir_vals = [None, ("val", "i"), ("val", "o"), ("val", "oe"), ("val", "io"), ("val", "-"), ("val", "x"),
                ("dict", [("s", ("val", "i"))])]
    xdr_vals = [None, ("val", 0), ("val", 1), ("val", 2), ("val", 3), ("val", -1), ("val", "1"),
                ("dict", [("s", ("val", 1))])]
    for decl in DIRS:                                  # every leaf case of merge_options
        for d in dir_vals:
            for x in xdr_vals:
                leaf = {"t": "leaf", "name": "r", "attrs": [], "dir": decl, "invert": False, "clock": None,
                        "phys": {"t": "pins", "names": ["A1", "A2"], "conn": None}}
                t = {"resources": [{"number": 0, "body": leaf}], "connectors": [], "pool": ["A1", "A2"]}
                reqs = [{"name": "r", "number": 0, "dir": d, "xdr": x},
                        {"name": "r", "number": 0, "dir": ("val", "-"), "xdr": None}]
                cases.append(("opts", t, reqs, None))
                n_opts += 1
    gdir = [None, ("val", "-"), ("val", "i"), ("val", "x"), ("dict", []), ("dict", [("s", ("val", "-"))]),
            ("dict", [("s", ("val", "o"))]), ("dict", [("zz", ("val", "i"))])]
    gxdr = [None, ("val", 0), ("val", "1"), ("dict", []), ("dict", [("s", ("val", 1))]), ("dict", [("s", ("val", 3))]),
            ("dict", [("s", ("val", -1))])]
    for decl in DIRS:                                  # every head case of the sub-signal branch
        for d in gdir:
            for x in gxdr:
                leaf = {"t": "leaf", "name": "s", "attrs": [], "dir": decl, "invert": False, "clock": None,
                        "phys": {"t": "pins", "names": ["A1"], "conn": None}}
                grp = {"t": "group", "name": "r", "attrs": [], "subs": [leaf]}
                t = {"resources": [{"number": 0, "body": grp}], "connectors": [], "pool": ["A1"]}
                reqs = [{"name": "r", "number": 0, "dir": d, "xdr": x},
                        {"name": "r", "number": 0, "dir": ("val", "-"), "xdr": None}]
                cases.append(("opts", t, reqs, None))
                n_opts += 1
    chk.extra["exhaustive"] = {
        "merge_options, leaf": "declared dir (4) x requested dir {None,i,o,oe,io,-,invalid,dict} x xdr {None,0,1,2,3,-1,non-int,dict}",
        "merge_options, sub-signals": "declared dir (4) x dir {None,-,scalar,invalid,{},{s:-},{s:o},{unknown key}} x xdr {None,scalar,non-int,{},{s:1},{s:3},{s:-1}}",
        "cases": n_opts}
    lines = [ser_hist(t, reqs) for _tag, t, reqs, _v in cases]
    resps = chk.driver.ask(lines)
    with ProcessPoolExecutor(max_workers=min(16, os.cpu_count() or 4)) as ex:
        reals = list(ex.map(_real_hist_worker, [(t, reqs) for _tag, t, reqs, _v in cases], chunksize=16))
    for (tag, t, reqs, variant), resp, real in zip(cases, resps, reals):
        if resp.startswith("error"):
            raise common.Infra(f"driver rejected a history: {resp}: {ser_hist(t, reqs)[:300]}")
        m = json.loads(resp)
        if "crash" in real:
            chk.not_shown("C19: constructing the table crashed", {"hist": ser_hist(t, reqs), **real})
            continue
        chk.count(len(reqs))
        label = judge_history(chk, tag, t, reqs, real, m, extra={"variant": variant} if variant else None)
        n_grant = sum(1 for s in m["steps"] if s["model"]["ok"])
        n_ref = len(reqs) - n_grant
        kinds = sorted({s["model"]["err"] for s in m["steps"] if not s["model"]["ok"]})
        chk.distinct(ser_hist(t, reqs), nontrivial=n_grant > 0 and n_ref > 0)
        chk.hist("stream", tag)
        chk.hist("result:" + tag, label)
        chk.hist("history length (with sweep)", len(reqs))
        chk.hist("connectors", len(t["connectors"]))
        for k in kinds:
            chk.hist("refusal kinds (model)", k)
        chk.hist("leak would matter (leaky != repaired)", any(s["leaky_state"] != s["state"] for s in m["steps"]))
        if tag == "hist":
            chk.sample({"hist": ser_hist(t, reqs)[:600], "outcomes": [("granted" if s["model"]["ok"] else s["model"]["err"]) for s in m["steps"]]}, limit=3)

    stage("hist+shape+attrs")
    # ---- names ------------------------------------------------------------------------------------
    ncases = [gen_chain_case(rng) for _ in range(n_names)]
    nlines = ["(names " + ser_conns(c) + " auto" + "".join(" " + q(n) for n in names) + ")" for c, names in ncases]
    nresps = chk.driver.ask(nlines)
    from amaranth.build import Pins
    from amaranth.build.res import ResourceManager
    for (conns, names), resp in zip(ncases, nresps):
        m = json.loads(resp)
        try:
            rm = ResourceManager([], build_connectors(conns))
            p = Pins("X")
            p.names = list(names)
            impl = {"ok": True, "names": p.map_names(rm._conn_pins, None)}
        except Exception as e:  # noqa: BLE001
            impl = {"ok": False, "err": common.errkind(e)}
        chk.count()
        chk.distinct(("names", ser_conns(conns), tuple(names)), nontrivial=any(":" in n for n in names))
        chk.hist("map_names result", "ok" if impl["ok"] else impl["err"])
        if impl != m["result"]:
            # the Spec (Resolves) is deterministic and equals mapNames by `map_names_correct`
            report(chk, f"map_names({names}) = {impl} but the chain resolves to {m['result']}",
                          {"stream": "names", "connectors": ser_conns(conns), "names": names, "impl": impl, "model": m["result"]})
    stage("names")
    impl_cyc = boundary_cyclic(chk)
    stage("boundary")

    # ---- end to end -------------------------------------------------------------------------------
    ecases = []
    for kind in PLATFORMS:
        for _ in range(n_e2e):
            shaped = rng.random() < 0.2
            if shaped:
                t, reqs, _variant = gen_shape(rng)
                t["resources"] = [r for r in t["resources"] if not r.get("probe")]
            else:
                t = gen_table(rng, probes=False, p_missing=0.02)
                reqs = gen_history(rng, t, rng.randint(2, 8), p_fault=rng.choice([0.0, 0.05]), dash_bias=0.5)
            collide = add_collisions(rng, t, reqs) if rng.random() < 0.4 else None
            default_clk = None
            post = []
            if rng.random() < 0.4:
                pin = rng.choice(PIN_POOL)
                t["resources"].append({"number": 0, "body": {
                    "t": "leaf", "name": "sysclk", "attrs": [], "dir": "i", "invert": False,
                    "clock": rng.choice(PERIODS[:7]), "phys": {"t": "pins", "names": [pin], "conn": None}}})
                default_clk = "sysclk"
                post = [{"name": "sysclk", "number": 0, "dir": ("val", "-"), "xdr": None}]
            use_mask = [rng.random() < 0.9 for _ in range(7)]
            buf_dirs = [rng.choice(["i", "o", "io"]) for _ in range(5)]
            user_ports = gen_user_ports(rng, t)
            ecases.append((kind, t, reqs, post, default_clk, use_mask, buf_dirs, user_ports, collide))
    elines = [ser_hist(t, reqs + post) for _k, t, reqs, post, _d, _u, _b, _up, _c in ecases]
    eresps = chk.driver.ask(elines)
    with ProcessPoolExecutor(max_workers=min(16, os.cpu_count() or 4)) as ex:
        ereals = list(ex.map(e2e_case_real, [(k, t, reqs, d, u, b, up) for k, t, reqs, _post, d, u, b, up, _c in ecases],
                             chunksize=2))
    for (kind, t, reqs, post, default_clk, _u, _b, user_ports, collide), resp, real in zip(ecases, eresps, ereals):
        if resp.startswith("error"):
            raise common.Infra(f"driver rejected a history: {resp}")
        m = json.loads(resp)
        chk.count()
        label = judge_e2e(chk, kind, t, reqs + post, default_clk, real, m, len(reqs))
        chk.hist("e2e:" + kind, label)
        rtp = real.get("rtlil_ports") or {}
        chk.hist("e2e top-level ports renamed name$N by the design", sum(1 for n_ in rtp if re.search(r"\$\d+$", n_)))
        chk.hist("e2e colliding tables", str(collide))
        chk.hist("e2e user IOPorts", len(user_ports))
        nlocs = len(parse_constraints(kind, real["text"])[0]) if "text" in real else 0
        chk.hist("e2e constrained bits", min(nlocs, 12))
        chk.distinct(("e2e", kind, ser_hist(t, reqs)), nontrivial=nlocs > 0)
        if "text" in real and nlocs > 2:
            chk.sample({"platform": kind, "file": real["file"], "text": real["text"][:700]}, limit=6)

    clk_boundary = witness_clock_on_colliding_name(chk)
    stage("e2e")

    # ---- descriptions shared between platforms -------------------------------------------------------
    # The same Pins / Resource *objects* are given to 2-3 managers (platforms) whose connector tables have the same
    # connectors wired differently; every manager must resolve them through its own table. The model is run once per
    # manager on (resources, its connectors, its requests).
    def pins_objects(t):
        n = 0
        for r in t["resources"]:
            for _path, lf in node_leaves(r["body"]):
                if lf["phys"]["conn"] is not None:
                    n += 1 if lf["phys"]["t"] == "pins" else 2
        return n

    names_family = []
    for _ in range(n_names // 3):
        conns, names, pool = gen_chain_case(rng, want_pool=True)
        tables = [conns] + [vary_connectors(rng, conns, pool) for _ in range(rng.choice([1, 1, 2]))]
        rng.shuffle(tables)
        names_family.append((tables, names))
    flines = ["(names " + ser_conns(c) + " auto" + "".join(" " + q(n) for n in names) + ")"
              for tables, names in names_family for c in tables]
    fresps = iter(chk.driver.ask(flines))
    for tables, names in names_family:
        pobj = Pins("X")
        pobj.names = list(names)
        results = []
        for k, conns in enumerate(tables):
            m = json.loads(next(fresps))
            try:
                rm = ResourceManager([], build_connectors(conns))
                impl = {"ok": True, "names": pobj.map_names(rm._conn_pins, None)}
            except Exception as e:  # noqa: BLE001
                impl = {"ok": False, "err": common.errkind(e)}
            chk.count()
            results.append(json.dumps(m["result"], sort_keys=True))
            if impl != m["result"]:
                report(chk, f"map_names({names}) on the {k + 1}. of {len(tables)} connector tables given to one Pins object = {impl} "
                            f"but the chain resolves to {m['result']}",
                       {"stream": "names-shared", "connector_tables": [ser_conns(c) for c in tables], "table": k, "names": names,
                        "impl": impl, "model": m["result"]})
        chk.distinct(("names-shared", tuple(ser_conns(c) for c in tables), tuple(names)), nontrivial=len(set(results)) > 1)
        chk.hist("shared Pins object: connector tables", len(tables))
        chk.hist("shared Pins object: resolutions differ between the tables", len(set(results)) > 1)

    scases = []
    for _ in range(n_shared):
        t = gen_table(rng, p_conn=0.8, min_conns=1)
        nplat = rng.choice([2, 2, 3])
        tables = [t["connectors"]] + [vary_connectors(rng, t["connectors"], t["pool"]) for _ in range(nplat - 1)]
        rng.shuffle(tables)
        reqs_list = []
        for _k in range(nplat):
            reqs_list.append(gen_history(rng, t, rng.randint(2, 6), p_fault=rng.choice([0.0, 0.05]), dash_bias=0.5) + sweep(t))
        order = [k for k in range(nplat) for _ in reqs_list[k]]
        if rng.random() < 0.7:
            rng.shuffle(order)               # interleaved; otherwise one manager after the other
        scases.append((t, tables, reqs_list, order))
    slines = [ser_hist({**t, "connectors": c}, rq) for t, tables, reqs_list, _o in scases for c, rq in zip(tables, reqs_list)]
    sresps = iter(chk.driver.ask(slines))
    with ProcessPoolExecutor(max_workers=min(16, os.cpu_count() or 4)) as ex:
        sreals = list(ex.map(_shared_hist_worker, scases, chunksize=4))
    for (t, tables, reqs_list, order), reals_k in zip(scases, sreals):
        ms = [json.loads(next(sresps)) for _ in tables]
        if isinstance(reals_k, dict):
            chk.not_shown("C19: constructing managers over shared resources crashed", {"hist": ser_hist(t, []), **reals_k})
            continue
        labels = []
        for k, (conns, reqs, real, m) in enumerate(zip(tables, reqs_list, reals_k, ms)):
            tk = {**t, "connectors": conns}
            chk.count(len(reqs))
            labels.append(judge_history(chk, "shared", tk, reqs, real, m,
                                        extra={"manager": k, "managers": len(tables), "order": order,
                                               "all_connector_tables": [ser_conns(c) for c in tables],
                                               "note": "one list of Resource objects, built once, given to every manager"}))
        differ = len({json.dumps(m["conn_pins"], sort_keys=True) for m in ms}) > 1
        chk.distinct(("shared", ser_table(t), tuple(ser_conns(c) for c in tables), tuple(ser_hist(t, r) for r in reqs_list), tuple(order)),
                     nontrivial=differ and pins_objects(t) > 0)
        chk.hist("stream", "shared")
        for lb in labels:
            chk.hist("result:shared", lb)
        chk.hist("shared: managers per description", len(tables))
        chk.hist("shared: connector tables resolve differently", differ)
        chk.hist("shared: connector-relative Pins objects in the description", min(pins_objects(t), 8))
        chk.hist("shared: request order", "interleaved" if order != sorted(order) else "one manager after the other")
    stage("shared")

    secases = []
    for _ in range(n_shared_e2e):
        t = gen_table(rng, probes=False, p_missing=0.0, p_conn=0.8, min_conns=1)
        nplat = rng.choice([2, 2, 3])
        tables = [t["connectors"]] + [vary_connectors(rng, t["connectors"], t["pool"]) for _ in range(nplat - 1)]
        rng.shuffle(tables)
        plats = []
        for c in tables:
            plats.append((rng.choice(PLATFORMS), c, gen_history(rng, t, rng.randint(2, 6), p_fault=0.0, dash_bias=0.8),
                          [rng.random() < 0.9 for _ in range(7)], [rng.choice(["i", "o", "io"]) for _ in range(5)]))
        secases.append((t, plats))
    selines = [ser_hist({**t, "connectors": c}, rq) for t, plats in secases for _k, c, rq, _u, _b in plats]
    seresps = iter(chk.driver.ask(selines))
    with ProcessPoolExecutor(max_workers=min(16, os.cpu_count() or 4)) as ex:
        sereals = list(ex.map(_shared_e2e_worker, secases, chunksize=1))
    for (t, plats), reals_k in zip(secases, sereals):
        for (kind, conns, reqs, _u, _b), real in zip(plats, reals_k):
            resp = next(seresps)
            if resp.startswith("error"):
                raise common.Infra(f"driver rejected a history: {resp}")
            chk.count()
            label = judge_e2e(chk, kind, {**t, "connectors": conns}, reqs, None, real, json.loads(resp), len(reqs))
            chk.hist("e2e shared:" + kind, label)
            nlocs = len(parse_constraints(kind, real["text"])[0]) if "text" in real else 0
            chk.distinct(("e2e-shared", kind, ser_hist({**t, "connectors": conns}, reqs)), nontrivial=nlocs > 0)
        chk.hist("e2e shared: platforms per description", len(plats))
    stage("shared e2e")
    flush_reports(chk)
    chk.cov["rule"] = (
        "hist: random tables (2-6 resources, nesting <=2, Pins/DiffPairs width 0-3, 0-3 connectors chained "
        "acyclically, attrs, clocks, one probe resource per physical pin) x random histories of 2-9 requests "
        "with dir/xdr overrides and injected faults, followed by a sweep over all resources and probes; "
        "shape: F7-shaped histories; attrs: None-valued attributes; names: map_names on random chains; "
        "e2e: 3 platforms x histories executed inside elaborate() (40% with resources whose derived IOPort names "
        "coincide, 35% with a user IOPort named like a requested one), constraint file and RTLIL ports parsed. "
        "shared / names-shared / e2e shared: ONE list of Resource (Pins) objects given to 2-3 managers / platforms whose "
        "connector tables name the same connectors and pins but wire them differently, requests interleaved, the model run "
        "once per manager with its own table; "
        "distinct = canonical text of table+history; non-trivial = at least one grant and one refusal "
        "(hist), a connector-relative name (names), at least one constrained bit (e2e)")
    chk.extra["tier_sizes"] = {"hist": n_hist, "shape": n_shape, "attrs": n_attrs, "names": n_names, "e2e_per_platform": n_e2e,
                               "shared": n_shared, "names_shared": n_names // 3, "shared_e2e": n_shared_e2e}
    chk.assumptions += [
        "sibling sub-signals of one (sub)signal have distinct names (with duplicates Python's dict/setattr aliasing "
        "shadows the earlier sibling's options and port; not modelled)",
        "connector tables are acyclic (hypothesis of map_names_terminates); on a cyclic chain the real "
        f"Pins.map_names does not return: replay -> {impl_cyc}",
        "IOPort names may coincide (different paths with the same '__'-join, or a user's IOPort): the constraint "
        "lines are matched against the top-level port names present in the emitted RTLIL (name, name$1, ...), "
        "each of which must carry the pins of one distinct declared port of that name; a frequency line must "
        "name the top-level port that carries the clocked pins",
        f"F30 (recorded finding): frequency lines are rendered from IOPort.name; classified only when a clocked port "
        f"was de-duplicated to name$N next to another used port of that name and the lines are exactly the "
        f"by-IOPort-name ones; witness -> {clk_boundary}",
        "a rendered frequency identifies the declared period to the femtosecond (compared as rationals, not floats)",
        "which top-level port bits are 'used' is read from the emitted RTLIL (the n side of a differential pair "
        "is elided by the iCE40 and ECP5 buffers), not re-derived by the harness",
        "Gowin/Apicula renders no frequency constraints into the .cst (checked: none appear)",
    ]
