"""C20 - Print, Assert and Format match Python formatting at the right instants.

Streams (all compared three ways: real code vs CPython's own `format` (the oracle the property names,
evaluated here), vs the Lean Spec, vs the Lean Model):

 (a) grid: every spec of the accepted grammar (fill x align x sign x # x 0 x width x _ x type) x shapes x
     boundary values: stdout of a real simulation `Print(Format("{:<spec>}", sig))`, `eval_format` on the
     same simulator state (the VCD writer's path), and a sample through `Assert(0, Format(...))` messages;
 (b) rejected / malformed specs: `Format(...)` must raise ValueError for the reason the model predicts;
 (c) literal text with braces, unicode, mixed chunks, Print(sep=, end=), expression arguments;
 (c') Print(*args, sep=, end=) with 1..5 arguments, some formatting to nothing ("", Format(""), Format("{}", "")) in
     first / middle / last position, sep / end defaulted or given: the Spec text of every argument alone, joined by
     CPython's own print(*texts, sep=, end=), is the expectation for the simulation's stdout and for eval_format;
 (d) Print / Assert / Assume under Module-DSL control flow in posedge / negedge domains with no reset,
     synchronous reset and asynchronous reset: which events emit, which event stops the simulation and
     with which message;
 (d') the same with 1..3 clocked fragments (submodules with their own programs and registers) in 1..3 hand-driven domains
     (coincident edges included), a fixed plan of events executed two or three times on the SAME Simulator object with
     `sim.reset()` in between; the first run ends by itself, by a failing assertion in one of the woken fragments, or by a
     `run_until` deadline right after an event. Every run is compared with the answer for one run from the initial state;
 (e) brace fill characters (`{`, `}`): finding F20, a dedicated stream (the other streams never generate them).

`./check C20 --replay replays/<file>` re-runs a recorded case on the current tree.
"""
import contextlib
import io
import itertools
import json
import os
import random
from concurrent.futures import ProcessPoolExecutor

from .. import common
from ..common import ser_ctx, ser_value, errkind

LEVEL = "proof"
EXE = "amodel_c20"

# the regular expression the Lean recogniser `parseSpecL` was written and proved against
REGEX_SOURCE = r"""
        (?:
            (?P<fill>.)?
            (?P<align>[<>=^])
        )?
        (?P<sign>[-+ ])?
        (?P<show_base>[#]?)
        (?P<width_zero>[0]?)
        (?P<width>[1-9][0-9]*)?
        (?P<grouping>[_,])?
        (?P<type>[bodxXcsn])?
    """

SEP = "␞"            # printed after every grid Print; never a fill character or a tested code point
FILLS = ["*", "0", " ", "s", "é"]
ALIGNS = ["<", ">", "="]
SIGNS = ["", "+", "-", " "]
WIDTHS = ["", "1", "2", "5", "12"]
TYPES = ["", "b", "o", "d", "x", "X", "c", "s"]
GRID_SHAPES = [(0, False), (1, False), (7, False), (8, False), (16, False), (33, False),
               (1, True), (7, True), (8, True), (16, True), (33, True)]

REJECT_MESSAGES = [
    ("Invalid format specifier", "invalid"),
    ("Alignment '^' is not supported", "caret"),
    ("Grouping option ',' is not supported", "comma"),
    ("Presentation type 'n' is not supported", "n"),
    ("Cannot print signed value with format specifier", "signed"),
    ("Alignment '=' is not allowed with format specifier", "aligneq"),
    ("Alternate form is not allowed with format specifier", "alt"),
    ("Zero fill is not allowed with format specifier", "zero"),
    ("Sign is not allowed with format specifier", "sign"),
    ("Cannot specify '_' with format specifier", "group"),
    ("Value width must be divisible by 8 with format specifier", "width8"),
]


def grid_specs():
    fa = [""] + ALIGNS + [f + a for f in FILLS for a in ALIGNS]
    return ["".join(p) for p in itertools.product(fa, SIGNS, ["", "#"], ["", "0"], WIDTHS, ["", "_"], TYPES)]


def hx(s):
    return "x" + ".".join(f"{ord(c):x}" for c in s)


def unhx(a):
    if a.startswith("!"):
        return ("err", a[1:])
    if a == "-":
        return ("none", None)
    body = a[1:]
    return ("ok", "".join(chr(int(h, 16)) for h in body.split(".")) if body else "")


def has_surrogate(t):
    return any(0xd800 <= ord(c) <= 0xdfff for c in t)


def bytes_text(v):
    """the byte string of a value: least significant byte first, NUL bytes skipped (independent of
    amaranth's value_to_string)"""
    raw = v.to_bytes((v.bit_length() + 7) // 8 or 1, "little").replace(b"\0", b"")
    return raw.decode("utf-8")


def oracle(v, spec):
    """what Python's own formatting produces for the value"""
    try:
        if spec.endswith("s"):
            t = format(bytes_text(v), spec[:-1])
        else:
            t = format(v, spec)
    except Exception as e:
        return ("err", errkind(e))
    return ("ok", t)


def reject_reason(exc):
    msg = str(exc)
    for prefix, name in REJECT_MESSAGES:
        if msg.startswith(prefix):
            return name
    return "unknown:" + msg[:60]


def boundary_values(w, sg, kind, rng):
    """values of the shape: corners, small values, and type-specific points of interest"""
    if w == 0:
        return [0]
    lo = -(1 << (w - 1)) if sg else 0
    hi = (1 << (w - 1)) - 1 if sg else (1 << w) - 1
    cand = [lo, hi, 0, 1, -1, 10, 255, 256, 1000, 1234567, -1000, hi - 1, lo + 1, hi // 3, rng.randint(lo, hi)]
    if kind == "c":
        cand = [0, 10, 65, 0x7b, 0x7d, 0xe9, 0x241d, 0xd7ff, 0xd800, 0xdfff, 0xe000, 0x10ffff, 0x110000, hi, rng.randint(lo, hi)]
    if kind == "s":
        def le(b):
            return int.from_bytes(b, "little")
        cand = [0, le(b"A"), le(b"AB"), le(b"\0A"), le(b"A\0B"), le(b"\0A\0B"), le("é".encode()), le("{€}".encode()), le(b"Hi \0x"),
                le("\U0001f600".encode()), 0xff, 0xa9, le(b"\xc3"), le(b"\xed\xa0\x80"), hi]
    out = []
    for v in cand:
        if lo <= v <= hi and v not in out:
            out.append(v)
    return out


def spec_kind(spec):
    return "c" if spec.endswith("c") else "s" if spec.endswith("s") else "i"


def make_format(Format, sig, spec):
    """`Format("{:<spec>}", sig)`; a spec containing braces is passed through a nested field"""
    if "{" in spec or "}" in spec:
        return Format("{:{}}", sig, spec)
    return Format("{:" + spec + "}", sig)


def run_single(kind, shape, spec, v):
    """one Print / Assert / eval_format of one value in a fresh simulation -> ("ok", text) | ("err", kind)"""
    from amaranth.hdl import Signal, Module, Format, Print, Assert, Period
    from amaranth.sim import Simulator
    from amaranth.sim._pyeval import eval_format
    sig = Signal(shape)
    fmt = make_format(Format, sig, spec)
    m = Module()
    if kind == "assert":
        m.d.sync += Assert(0, fmt)
    elif kind == "print":
        m.d.sync += Print(fmt, end="")
    else:
        m.d.sync += Signal().eq(1)
    sim = Simulator(m)
    sim.add_clock(Period(MHz=1))
    res = {}

    async def tb(ctx):
        ctx.set(sig, v)
        if kind == "tb":
            try:
                res["tb"] = ("ok", eval_format(sim._engine._state, fmt))
            except Exception as e:
                res["tb"] = ("err", errkind(e))
        await ctx.tick()
    sim.add_testbench(tb)
    buf = io.StringIO()
    try:
        with contextlib.redirect_stdout(buf):
            sim.run()
    except AssertionError as e:
        if kind == "assert":
            t = str(e)
            pre = "Assertion violated: "
            return ("ok", t[len(pre):]) if t.startswith(pre) else ("err", "badprefix:" + t[:40])
        return ("err", errkind(e))
    except Exception as e:
        return ("err", errkind(e))
    if kind == "tb":
        return res.get("tb", ("err", "norun"))
    if kind == "assert":
        return ("err", "noassert")
    return ("ok", buf.getvalue())


def grid_job(args):
    """all given specs on one shape. returns rows (spec, rej | None, vals, print results, tb results)"""
    seed, w, sg, specs, n_assert = args
    from amaranth.hdl import Signal, Module, Format, Print, Period, signed, unsigned
    from amaranth.sim import Simulator
    from amaranth.sim._pyeval import eval_format
    rng = random.Random(seed)
    shape = signed(w) if sg else unsigned(w)
    vals_of = {k: boundary_values(w, sg, k, rng) for k in "ics"}
    rows = []
    groups = {"i": [], "c": [], "s": []}
    for spec in specs:
        sig = Signal(shape)
        try:
            make_format(Format, sig, spec)
        except Exception as e:
            rows.append({"spec": spec, "rej": reject_reason(e) if isinstance(e, ValueError) else "raises:" + errkind(e)})
            continue
        groups[spec_kind(spec)].append(spec)
    for kind, gspecs in groups.items():
        vals = vals_of[kind]
        good = [v for v in vals if oracle(v, kind if kind in "cs" else "")[0] == "ok"]
        bad = [v for v in vals if v not in good]
        for i in range(0, len(gspecs), 800):
            chunk = gspecs[i:i + 800]
            sig = Signal(shape)
            fmts = [make_format(Format, sig, spec) for spec in chunk]
            m = Module()
            for fmt in fmts:
                m.d.sync += Print(fmt, end=SEP)
            sim = Simulator(m)
            sim.add_clock(Period(MHz=1))
            buf = io.StringIO()
            marks, tbs = [], []

            async def tb(ctx):
                for v in good:
                    ctx.set(sig, v)
                    row = []
                    for fmt in fmts:
                        try:
                            row.append(("ok", eval_format(sim._engine._state, fmt)))
                        except Exception as e:
                            row.append(("err", errkind(e)))
                    tbs.append(row)
                    await ctx.tick()
                    marks.append(buf.tell())
            sim.add_testbench(tb)
            crashed = None
            try:
                with contextlib.redirect_stdout(buf):
                    sim.run()
            except Exception as e:
                crashed = e
            text = buf.getvalue()
            per_val = []
            start = 0
            for mk in marks:
                parts = text[start:mk].split(SEP)
                per_val.append(parts[:-1] if len(parts) == len(chunk) + 1 else None)
                start = mk
            for k, spec in enumerate(chunk):
                pr, tr = [], []
                for j, v in enumerate(good):
                    if crashed is None and j < len(per_val) and per_val[j] is not None:
                        pr.append(("ok", per_val[j][k]))
                    else:
                        # the batch did not run as planned: fall back to one simulation per Print
                        pr.append(run_single("print", shape, spec, v))
                    tr.append(tbs[j][k] if j < len(tbs) else run_single("tb", shape, spec, v))
                row = {"spec": spec, "rej": None, "vals": list(good), "print": pr, "tb": tr}
                # values for which Python itself raises: one simulation each (sampled)
                if bad and (len(chunk) <= 40 or rng.random() < 40 / len(chunk)):
                    for v in bad:
                        row["vals"].append(v)
                        row["print"].append(run_single("print", shape, spec, v))
                        row["tb"].append(run_single("tb", shape, spec, v))
                rows.append(row)
    # the message of a failing Assert, on a sample
    acc = [r for r in rows if r.get("rej") is None]
    for r in rng.sample(acc, min(n_assert, len(acc))):
        v = rng.choice(r["vals"])
        r["assert"] = (v, run_single("assert", shape, r["spec"], v))
    return {"w": w, "sg": sg, "rows": rows}


def reject_job(args):
    """construction-time verdict per spec, shape and *carrier* of the value: a plain signal, a user-defined
    value-castable whose shape is a plain Shape (documented to format like its value), the spec nested or inline"""
    seed, specs, shapes = args
    from amaranth.hdl import Signal, Format, ValueCastable, signed, unsigned

    class Wrapped(ValueCastable):
        def __init__(self, v):
            self.v = v

        def shape(self):
            return self.v.shape()

        def as_value(self):
            return self.v
    out = []
    for spec in specs:
        inline_ok = "{" not in spec and "}" not in spec and "!" not in spec and ":" not in spec
        for (w, sg) in shapes:
            sig = Signal(signed(w) if sg else unsigned(w))
            carriers = [("sig", lambda: Format("{:{}}", sig, spec)),
                        ("castable", lambda: Format("{:{}}", Wrapped(sig), spec))]
            if inline_ok:
                carriers.append(("castable_inline", lambda: Format("{:" + spec + "}", Wrapped(sig))))
            for cname, mk in carriers:
                try:
                    mk()
                    out.append((spec, w, sg, "ok", cname))
                except ValueError as e:
                    out.append((spec, w, sg, reject_reason(e), cname))
                except Exception as e:
                    out.append((spec, w, sg, "raises:" + errkind(e), cname))
    return out


# ------------------------------------------------------------------------------------------------
# (c) mixed chunks

LIT_ALPHABET = ["a", "b", " ", "{", "}", "{{", "}}", "{}", ":", "!", "%", "\\", "'", '"', "\n", "\t", "é", "€",
                "\U0001f600", "0", "x=", "[", "]"]


def rand_accepted_spec(rng, shape):
    """a random spec `Format` accepts for the shape. Brace fill characters (finding F20) are deliberately
    not generated here: they have their own stream (`run_brace`), so that the finding cannot drown the
    mixed-chunk and control-flow streams."""
    for _ in range(50):
        fa = rng.choice([""] + ALIGNS + [f + a for f in FILLS + ["x", ":", "!", "[", "%"] for a in ALIGNS])
        spec = fa + rng.choice(SIGNS) + rng.choice(["", "", "#"]) + rng.choice(["", "", "0"]) + rng.choice(WIDTHS + ["3", "8", "20"]) \
            + rng.choice(["", "", "_"]) + rng.choice(TYPES)
        from amaranth.hdl import Format
        try:
            Format._parse_format_spec(spec, shape)
        except ValueError:
            continue
        return spec
    return ""


def ser_chunks(chunks, sigidx):
    out = []
    for ch in chunks:
        if isinstance(ch, str):
            out.append(f"(lit {hx(ch)})")
        else:
            val, spec = ch
            out.append(f"(val {ser_value(val, sigidx)} {hx(spec)})")
    return " ".join(out)


def rand_format(rng, g, n_max=4):
    """a Format built through the public constructor from a random format string"""
    from amaranth.hdl import Format, Value
    fs, args = [], []
    for _ in range(rng.randint(0, n_max)):
        r = rng.random()
        if r < 0.5:
            lit = "".join(rng.choice(LIT_ALPHABET) for _ in range(rng.randint(0, 4)))
            fs.append(lit.replace("{", "{{").replace("}", "}}"))
        else:
            e = g.expr(rng.randint(0, 2))
            spec = rand_accepted_spec(rng, Value.cast(e).shape())
            strs = [s for s in g.sigs if getattr(s, "name", "") == "str"]
            if strs and rng.random() < 0.3:
                # a byte-string field: the `s` path
                e = strs[0]
                spec = rng.choice(["", "<", ">", "*>", "é<", "s<"]) + rng.choice(["", "1", "3", "6"]) + "s"
            if "{" in spec or "}" in spec:
                fs.append("{:{}}")
                args += [e, spec]
            else:
                fs.append("{:" + spec + "}" if spec or rng.random() < 0.5 else "{}")
                args.append(e)
    return Format("".join(fs), *args)


def chunks_job(args):
    seed, n_cases, n_env = args
    job_args = list(args)
    from amaranth.hdl import Signal, Module, Format, Print, Assert, Period, Value
    from amaranth.sim import Simulator
    from amaranth.sim._pyeval import eval_format
    from .. import gen_expr
    rng = random.Random(seed)
    out = []
    for _ in range(n_cases):
        sigs = [Signal(gen_expr.rand_shape(rng, 9), name=f"i{k}") for k in range(rng.randint(1, 3))]
        if rng.random() < 0.5:
            sigs.append(Signal(rng.choice([8, 16, 24]), name="str"))
        sigidx = {id(s): i for i, s in enumerate(sigs)}
        g = gen_expr.Gen(rng, sigs, maxw=8)
        case = {"seed": seed, "job_args": job_args, "sigs": [(s.name, len(s), s.shape().signed) for s in sigs]}
        try:
            mode = rng.choice(["print", "print", "printargs", "assert"])
            if mode == "printargs":
                pargs = [rng.choice(["t", "{", "}x", ""]) if rng.random() < 0.3 else
                         (rand_format(rng, g, 2) if rng.random() < 0.5 else g.expr(1)) for _ in range(rng.randint(0, 3))]
                stmt = Print(*pargs, sep=rng.choice([" ", "", "{", ", "]), end=rng.choice(["\n", "", "}\n"]))
                fmt = stmt.message
            elif mode == "print":
                fmt = rand_format(rng, g)
                stmt = Print(fmt, end="")
            else:
                fmt = rand_format(rng, g)
                stmt = Assert(0, fmt)
            case["mode"] = mode
            case["chunks"] = ser_chunks(fmt._chunks, sigidx)
            case["repr"] = repr(fmt)[:300]
            case["brace"] = any((not isinstance(ch, str)) and ("{" in ch[1] or "}" in ch[1]) for ch in fmt._chunks)
        except Exception as e:
            case["gen_error"] = (errkind(e), repr(e)[:200])
            out.append(case)
            continue
        envs, impl, tbres = [], [], []
        for _e in range(n_env):
            env = []
            for s in sigs:
                if s.name == "str" and rng.random() < 0.8:
                    t = "".join(rng.choice(["A", "z", "\0", "{", "é", " "]) for _ in range(len(s) // 8))
                    b = t.encode()[:len(s) // 8]
                    try:
                        b.decode()
                    except UnicodeDecodeError:
                        b = b"ok"[:len(s) // 8]
                    env.append(int.from_bytes(b, "little"))
                else:
                    env.append(gen_expr.rand_value(rng, s.shape()))
            m = Module()
            m.d.sync += stmt
            sim = Simulator(m)
            sim.add_clock(Period(MHz=1))
            res = {}

            async def tb(ctx):
                for s, v in zip(sigs, env):
                    ctx.set(s, v)
                try:
                    res["tb"] = ("ok", eval_format(sim._engine._state, fmt))
                except Exception as e:
                    res["tb"] = ("err", errkind(e))
                await ctx.tick()
            sim.add_testbench(tb)
            buf = io.StringIO()
            try:
                with contextlib.redirect_stdout(buf):
                    sim.run()
                r = ("ok", buf.getvalue()) if mode != "assert" else ("err", "noassert")
            except AssertionError as e:
                t = str(e)
                if mode == "assert" and t == "Assertion violated":
                    r = ("ok", None)
                elif mode == "assert" and t.startswith("Assertion violated: "):
                    r = ("ok", t[len("Assertion violated: "):])
                else:
                    r = ("err", "AssertionError:" + t[:60])
            except Exception as e:
                r = ("err", errkind(e))
            envs.append(env)
            impl.append(r)
            tbres.append(res.get("tb", ("err", "norun")))
        case.update(envs=envs, impl=impl, tb=tbres, shapes=[(len(s), s.shape().signed) for s in sigs])
        out.append(case)
    return out


# ------------------------------------------------------------------------------------------------
# (c') Print(*args, sep=, end=): how the arguments are joined

JOIN_SEPS = [None, "", "+", ", ", " ", "{", "\n"]       # None: not passed (Python's default, one blank)
JOIN_ENDS = [None, "", ";", "}\n", "\n\n", "+"]         # None: not passed (a newline)
JOIN_PATTERNS = ["first", "first2", "middle", "last", "all", "none", "random", "random"]


def join_job(args):
    """Print statements with 1..5 positional arguments (strings, Formats, values), some of which format to nothing
    (`""`, `Format("")`, `Format("{}", "")`) at the first / middle / last position, with sep / end given or defaulted.
    Reported per case: the chunks of the message amaranth built, and *per argument* the chunks of that argument alone
    (a string is its own text, a value is `{}` of the value, a Format is its chunks) - the judge joins the texts of the
    arguments with CPython's own print()."""
    seed, n_cases, n_env = args
    job_args = list(args)
    from amaranth.hdl import Signal, Module, Format, Print, Period, Value
    from amaranth.sim import Simulator
    from amaranth.sim._pyeval import eval_format
    from .. import gen_expr
    rng = random.Random(seed)
    out = []
    for _ in range(n_cases):
        sigs = [Signal(gen_expr.rand_shape(rng, 9), name=f"i{k}") for k in range(rng.randint(1, 3))]
        if rng.random() < 0.3:
            sigs.append(Signal(rng.choice([8, 16]), name="str"))
        sigidx = {id(s): i for i, s in enumerate(sigs)}
        g = gen_expr.Gen(rng, sigs, maxw=8)
        case = {"seed": seed, "job_args": job_args, "sigs": [(s.name, len(s), s.shape().signed) for s in sigs]}
        try:
            n = rng.choice([1, 2, 2, 3, 3, 4, 5])
            pattern = rng.choice(JOIN_PATTERNS)
            empty = {"first": {0}, "first2": {0, 1}, "middle": set(range(1, n - 1)) or {0}, "last": {n - 1}, "all": set(range(n)),
                     "none": set(), "random": {k for k in range(n) if rng.random() < 0.4}}[pattern]
            empty = {k for k in empty if k < n}
            pargs, kinds, argchunks = [], [], []
            for k in range(n):
                if k in empty:
                    kind = rng.choice(["empty-str", "empty-str", "empty-format", "format-of-empty-str"])
                    a = {"empty-str": "", "empty-format": Format(""), "format-of-empty-str": Format("{}", "")}[kind]
                else:
                    kind = rng.choice(["str", "value", "value", "format", "format"])
                    if kind == "str":
                        a = rng.choice(["t", "{", "}x", "a b", "+", ", ", " ", "é"])
                    elif kind == "value":
                        a = rng.choice(sigs[:3]) if rng.random() < 0.5 else g.expr(1)
                    else:
                        a = rand_format(rng, g, 2)
                        if not a._chunks:
                            kind = "empty-format"
                pargs.append(a)
                kinds.append(kind)
                if isinstance(a, str):
                    argchunks.append([a] if a else [])
                elif isinstance(a, Format):
                    argchunks.append(list(a._chunks))
                else:
                    argchunks.append([(Value.cast(a), "")])
            sep, end = rng.choice(JOIN_SEPS), rng.choice(JOIN_ENDS)
            kw = {}
            if sep is not None:
                kw["sep"] = sep
            if end is not None:
                kw["end"] = end
            stmt = Print(*pargs, **kw)
            fmt = stmt.message
            case.update(kinds=kinds, pattern=pattern, sep=sep, end=end,
                        chunks=ser_chunks(fmt._chunks, sigidx), argchunks=[ser_chunks(c, sigidx) for c in argchunks],
                        repr=("Print(" + ", ".join(repr(a)[:80] for a in pargs) + "".join(f", {k}={v!r}" for k, v in kw.items()) + ")"),
                        brace=any((not isinstance(ch, str)) and ("{" in ch[1] or "}" in ch[1]) for ch in fmt._chunks))
        except Exception as e:
            case["gen_error"] = (errkind(e), repr(e)[:200])
            out.append(case)
            continue
        envs, impl, tbres = [], [], []
        for _e in range(n_env):
            env = []
            for s_ in sigs:
                if s_.name == "str":
                    env.append(int.from_bytes(rng.choice([b"A", b"zA", b"", b"{", b" "])[:len(s_) // 8], "little"))
                else:
                    env.append(gen_expr.rand_value(rng, s_.shape()))
            m = Module()
            m.d.sync += stmt
            sim = Simulator(m)
            sim.add_clock(Period(MHz=1))
            res = {}

            async def tb(ctx):
                for s_, v in zip(sigs, env):
                    ctx.set(s_, v)
                try:
                    res["tb"] = ("ok", eval_format(sim._engine._state, fmt))
                except Exception as e:
                    res["tb"] = ("err", errkind(e))
                await ctx.tick()
            sim.add_testbench(tb)
            buf = io.StringIO()
            try:
                with contextlib.redirect_stdout(buf):
                    sim.run()
                r = ("ok", buf.getvalue())
            except Exception as e:
                r = ("err", errkind(e))
            envs.append(env)
            impl.append(r)
            tbres.append(res.get("tb", ("err", "norun")))
        case.update(envs=envs, impl=impl, tb=tbres, shapes=[(len(s_), s_.shape().signed) for s_ in sigs])
        out.append(case)
    return out


# ------------------------------------------------------------------------------------------------
# (d) control flow

def insert_effects(rng, items, g, mk_id, depth=0, p_true=0.35):
    """insert Print / Assert / Assume items at random places of a gen_prog item tree (`p_true`: share of the
    assertions whose test is made true by construction)"""
    from amaranth.hdl import Print, Assert, Assume, Format, Value
    out = []

    def effect():
        r = rng.random()
        i = mk_id()
        if r < 0.55:
            fmt = rand_format(rng, g, 2)
            return ("fx", i, Print(Format("#{}:", i), fmt, sep="", end=rng.choice(["\n", ";"])))
        test = g.expr(rng.randint(0, 2))
        if rng.random() < p_true:
            test = test | 1 if rng.random() < 0.5 else test.bool() | (g.expr(1) != 0)
        ctor = Assert if rng.random() < 0.6 else Assume
        r2 = rng.random()
        if r2 < 0.25:
            return ("fx", i, ctor(test))
        if r2 < 0.45:
            return ("fx", i, ctor(test, f"#{i}: plain {{text}}"))
        return ("fx", i, ctor(test, Format("#{}:", i) + rand_format(rng, g, 2)))
    for it in items:
        if rng.random() < 0.35:
            out.append(effect())
        if it[0] == "assign":
            out.append(it)
        elif it[0] == "if":
            _, branches, els = it
            out.append(("if", [(c, insert_effects(rng, body, g, mk_id, depth + 1, p_true)) for c, body in branches],
                        insert_effects(rng, els, g, mk_id, depth + 1, p_true) if els is not None else None))
        elif it[0] == "switch":
            _, test, cases = it
            out.append(("switch", test, [(p, insert_effects(rng, body, g, mk_id, depth + 1, p_true)) for p, body in cases]))
    if rng.random() < 0.45 or not items:
        out.append(effect())
    return out


def build20(m, items):
    for it in items:
        if it[0] == "assign":
            _, dom, t, rhs = it
            m.d[dom] += t.eq(rhs)
        elif it[0] == "fx":
            m.d.sync += it[2]
        elif it[0] == "if":
            _, branches, els = it
            for k, (c, body) in enumerate(branches):
                with (m.If(c) if k == 0 else m.Elif(c)):
                    build20(m, body)
            if els is not None:
                with m.Else():
                    build20(m, els)
        elif it[0] == "switch":
            _, test, cases = it
            with m.Switch(test):
                for pats, body in cases:
                    with (m.Default() if pats is None else m.Case(*pats)):
                        build20(m, body)


def ser_leaf(stmt, i, sigidx):
    from amaranth.hdl import _ast as A
    if isinstance(stmt, A.Print):
        return f"(print {i} {ser_chunks(stmt.message._chunks, sigidx)})"
    kind = stmt.kind.value
    msg = f" (msg {ser_chunks(stmt.message._chunks, sigidx)})" if stmt.message is not None else ""
    return f"({kind} {i} {ser_value(stmt.test, sigidx)}{msg})"


def ser_prog20(items, sigidx):
    from .. import gen_prog
    out = []
    for it in items:
        if it[0] == "assign":
            _, d, t, rhs = it
            if d == "sync":
                out.append(f"(= {ser_value(t, sigidx)} {ser_value(rhs, sigidx)})")
        elif it[0] == "fx":
            out.append(ser_leaf(it[2], it[1], sigidx))
        elif it[0] == "if":
            _, branches, els = it
            bs = " ".join(f"({ser_value(c, sigidx)} {ser_prog20(body, sigidx)})" for c, body in branches)
            e = f" (else {ser_prog20(els, sigidx)})" if els is not None else ""
            out.append(f"(if {bs}{e})")
        elif it[0] == "switch":
            _, test, cases = it
            cs = []
            for pats, body in cases:
                if pats is None:
                    cs.append(f"(default {ser_prog20(body, sigidx)})")
                else:
                    cs.append("((" + " ".join(gen_prog.ser_upat(p) for p in pats) + f") {ser_prog20(body, sigidx)})")
            out.append(f"(sw {ser_value(test, sigidx)} {' '.join(cs)})")
    return " ".join(out)


def ser_stmts20(stmts, sigidx, ids):
    """the lowered statements as amaranth built them (Assign / Switch / Print / Property)"""
    from amaranth.hdl import _ast as A
    out = []
    for s in stmts:
        if isinstance(s, A.Assign):
            out.append(f"(= {ser_value(s.lhs, sigidx)} {ser_value(s.rhs, sigidx)})")
        elif isinstance(s, A.Switch):
            cs = []
            for pats, body, _loc in s.cases:
                b = ser_stmts20(body, sigidx, ids)
                if pats is None:
                    cs.append(f"(default {b})")
                else:
                    cs.append("((" + " ".join(f'"{p}"' for p in pats) + f") {b})")
            out.append(f"(switch {ser_value(s.test, sigidx)} {' '.join(cs)})")
        elif isinstance(s, (A.Print, A.Property)):
            out.append(ser_leaf(s, ids[id(s)], sigidx))
        else:
            raise TypeError(f"unexpected statement {s!r}")
    return " ".join(out)


def collect_fx(items, acc):
    for it in items:
        if it[0] == "fx":
            acc[id(it[2])] = it[1]
        elif it[0] == "if":
            for _c, body in it[1]:
                collect_fx(body, acc)
            if it[2] is not None:
                collect_fx(it[2], acc)
        elif it[0] == "switch":
            for _p, body in it[2]:
                collect_fx(body, acc)
    return acc


def strip_sync_assigns(items):
    """the same program without its synchronous assignments (a pure monitor: only Print / Assert / Assume / Cover
    remain in the domain)"""
    out = []
    for it in items:
        if it[0] == "assign":
            if it[1] != "sync":
                out.append(it)
        elif it[0] == "if":
            out.append(("if", [(c, strip_sync_assigns(b)) for c, b in it[1]],
                        strip_sync_assigns(it[2]) if it[2] is not None else None))
        elif it[0] == "switch":
            out.append(("switch", it[1], [(p, strip_sync_assigns(b)) for p, b in it[2]]))
        else:
            out.append(it)
    return out


def flow_job(args):
    seed, n_progs, depth, n_events = args
    from amaranth.hdl import Signal, Module, Fragment, ClockDomain, Cat, unsigned, EnableInserter, ResetInserter
    from amaranth.sim import Simulator
    from .. import gen_expr, gen_prog
    rng = random.Random(seed)
    out = []
    hist = {}
    for _ in range(n_progs):
        inputs = [Signal(gen_expr.rand_shape(rng, 5), name=f"i{k}") for k in range(rng.randint(2, 4))]
        offs = [Signal(unsigned(rng.randint(0, 3)), name=f"o{k}") for k in range(rng.randint(1, 2))]
        inputs = inputs + offs
        if rng.random() < 0.4:
            inputs.append(Signal(8, name="str"))
        mk = lambda pre, k: Signal(sh := gen_expr.rand_shape(rng, 6), name=f"{pre}{k}", init=gen_expr.rand_value(rng, sh))
        combT = [mk("c", k) for k in range(rng.randint(1, 2))]
        syncT = [mk("s", k) for k in range(rng.randint(1, 3))]
        allsigs = inputs + combT + syncT
        offcands = [s for s in inputs if not s.shape().signed and len(s) <= 3]
        g_comb = gen_expr.Gen(rng, inputs + syncT, maxw=6)
        g_sync = gen_expr.Gen(rng, inputs + syncT + combT, maxw=6)
        tg_comb = gen_expr.TargetGen(rng, combT, offcands, alias=False, hist=hist)
        tg_sync = gen_expr.TargetGen(rng, syncT, offcands, alias=False, hist=hist)

        class Fresh:
            def __init__(self, tg): self.tg = tg
            def target(self, d):
                self.tg.used = set()
                return self.tg.target(d)
        counter = itertools.count()
        try:
            items = gen_prog.gen_items(rng, g_comb, g_sync, Fresh(tg_comb), Fresh(tg_sync), rng.randint(1, depth), hist,
                                        allow_fsm=False)
            items = insert_effects(rng, items, g_sync, lambda: next(counter))
        except Exception as e:
            hist["generator_error:" + errkind(e)] = hist.get("generator_error:" + errkind(e), 0) + 1
            continue
        edge = rng.choice(["pos", "neg"])
        rmode = rng.choice(["norst", "rst", "async"])
        # control wrappers around the module: an EnableInserter gates everything in the domain, effects included
        # (the program as written then sits under `If(en)`); a ResetInserter does not touch effects
        wrap_en = wrap_rst = None
        if rng.random() < 0.35:
            wrap_en = Signal(1, name="en")
            inputs.append(wrap_en); allsigs.append(wrap_en)
            if rng.random() < 0.5:
                items = strip_sync_assigns(items)
            hist["flow_wrapper:enable"] = hist.get("flow_wrapper:enable", 0) + 1
        if rng.random() < 0.15:
            wrap_rst = Signal(1, name="srst")
            inputs.append(wrap_rst); allsigs.append(wrap_rst)
            items = strip_sync_assigns(items)       # (so that the inserted reset has nothing to reset)
            hist["flow_wrapper:reset"] = hist.get("flow_wrapper:reset", 0) + 1

        def wrapped(mod):
            if wrap_en is not None:
                mod = EnableInserter({"sync": wrap_en})(mod)
            if wrap_rst is not None:
                mod = ResetInserter({"sync": wrap_rst})(mod)
            return mod
        sigidx = {id(s): i for i, s in enumerate(allsigs)}
        case = {"seed": seed, "job_args": list(args), "sigs": [(s.name, len(s), s.shape().signed, s.init) for s in allsigs],
                "edge": edge, "rmode": rmode}
        try:
            case["prog"] = ser_prog20(items, sigidx)
            if wrap_en is not None:
                case["prog"] = f"(if ({ser_value(wrap_en, sigidx)} {case['prog']}))"
            m = Module()
            cd = ClockDomain("sync", clk_edge=edge, reset_less=(rmode == "norst"), async_reset=(rmode == "async"))
            m.domains.sync = cd
            build20(m, items)
            ids = collect_fx(items, {})
            frag = Fragment.get(wrapped(m), None)
            case["stmts"] = ser_stmts20(frag.statements.get("sync", []), sigidx, ids)
            m2 = Module()
            cd2 = ClockDomain("sync", clk_edge=edge, reset_less=(rmode == "norst"), async_reset=(rmode == "async"))
            m2.domains.sync = cd2
            build20(m2, items)
            sim = Simulator(wrapped(m2))
            events = []
            buf = io.StringIO()
            state = {"clk": 0, "rst": 0, "n": -1}

            async def tb(ctx):
                for n in range(n_events):
                    for s in inputs:
                        if rng.random() < 0.6:
                            v = gen_expr.rand_value(rng, s.shape())
                            if s.name == "str":
                                v = rng.choice([0, 65, 0x7b, 0x7d, 0x20, 0x7e])
                            ctx.set(s, v)
                    env = [ctx.get(s) for s in allsigs]
                    r = rng.random()
                    c0, r0 = state["clk"], state["rst"]
                    c1, r1 = c0, r0
                    if rmode == "norst":
                        if r < 0.8:
                            c1 = 1 - c0
                    else:
                        if r < 0.55:
                            c1 = 1 - c0
                        elif r < 0.8:
                            r1 = 1 - r0
                        elif r < 0.93:
                            c1, r1 = 1 - c0, 1 - r0
                    events.append({"c0": c0, "c1": c1, "r0": r0, "r1": r1, "env": env, "out": None})
                    state["n"] = n
                    if rmode == "norst":
                        if c1 != c0:
                            ctx.set(cd2.clk, c1)
                    elif c1 != c0 and r1 != r0:
                        ctx.set(Cat(cd2.clk, cd2.rst), c1 | (r1 << 1))
                    elif c1 != c0:
                        ctx.set(cd2.clk, c1)
                    elif r1 != r0:
                        ctx.set(cd2.rst, r1)
                    state["clk"], state["rst"] = c1, r1
                    events[-1]["out"] = buf.getvalue()
                    buf.seek(0)
                    buf.truncate()
            sim.add_testbench(tb)
            stop = None
            try:
                with contextlib.redirect_stdout(buf):
                    sim.run()
            except AssertionError as e:
                stop = (state["n"], "A", str(e))
            except Exception as e:
                stop = (state["n"], "E", errkind(e))
            if stop is not None and events and events[-1]["out"] is None:
                events[-1]["out"] = buf.getvalue()
            case["events"] = events
            case["stop"] = stop
        except Exception as e:
            case["error"] = (errkind(e), repr(e)[:300])
        out.append(case)
    return {"cases": out, "hist": hist}


# ------------------------------------------------------------------------------------------------
# (d') control flow in several clocked fragments, the same Simulator run again after `reset()`

def rerun_job(args):
    """designs with 1..3 clocked fragments (submodules, each with its own program of Prints / Asserts / Assumes and its own
    registers) in 1..3 hand-driven domains; a fixed plan of events is executed two or three times on the SAME Simulator
    object with `sim.reset()` in between. The first run ends by itself, by a failing assertion / exception in one fragment
    (the other woken fragments then have not run yet), or by a `run_until` deadline right after an event."""
    seed, n_progs, depth, n_events = args
    from amaranth.hdl import (Signal, Module, Fragment, ClockDomain, Cat, unsigned, EnableInserter, DomainRenamer,
                              Assert, Format, Period)
    from amaranth.sim import Simulator
    from .. import gen_expr, gen_prog
    rng = random.Random(seed)
    out = []
    hist = {}

    def note(k, n=1):
        hist[k] = hist.get(k, 0) + n
    for _ in range(n_progs):
        inputs = [Signal(gen_expr.rand_shape(rng, 5), name=f"i{k}") for k in range(rng.randint(2, 4))]
        inputs += [Signal(unsigned(rng.randint(0, 3)), name=f"o{k}") for k in range(rng.randint(1, 2))]
        if rng.random() < 0.4:
            inputs.append(Signal(8, name="str"))
        offcands = [s for s in inputs if not s.shape().signed and len(s) <= 3]
        mk = lambda name: Signal(sh := gen_expr.rand_shape(rng, 6), name=name, init=gen_expr.rand_value(rng, sh))
        n_frag = rng.choice([1, 2, 2, 2, 3, 3])
        n_dom = 1 if (n_frag == 1 or rng.random() < 0.5) else rng.randint(2, n_frag)
        dom_of = list(range(n_dom)) + [rng.randrange(n_dom) for _k in range(n_frag - n_dom)]
        rng.shuffle(dom_of)
        doms = [{"edge": rng.choice(["pos", "neg"]), "rmode": rng.choice(["norst", "norst", "rst", "async"])} for _j in range(n_dom)]
        trip = Signal(1, name="trip") if (n_frag > 1 and rng.random() < 0.5) else None
        counter = itertools.count()
        frags = []
        extra_inputs = []
        # (several fragments multiply the chance of an early failing assertion: make more of them true by construction)
        p_true = rng.choice([0.6, 0.85, 0.97])

        class Fresh:
            def __init__(self, tg): self.tg = tg
            def target(self, d):
                self.tg.used = set()
                return self.tg.target(d)
        try:
            seen_regs = []
            for k in range(n_frag):
                combT = [mk(f"f{k}c{i}") for i in range(rng.randint(1, 2))]
                syncT = [mk(f"f{k}s{i}") for i in range(rng.randint(1, 3))]
                # a fragment may read the registers of the fragments before it (never their combinational signals)
                others = list(seen_regs) if rng.random() < 0.4 else []
                g_comb = gen_expr.Gen(rng, inputs + syncT + others, maxw=6)
                g_sync = gen_expr.Gen(rng, inputs + syncT + combT + others, maxw=6)
                tg_comb = gen_expr.TargetGen(rng, combT, offcands, alias=False, hist=hist)
                tg_sync = gen_expr.TargetGen(rng, syncT, offcands, alias=False, hist=hist)
                items = gen_prog.gen_items(rng, g_comb, g_sync, Fresh(tg_comb), Fresh(tg_sync), rng.randint(1, depth), hist,
                                           allow_fsm=False)
                items = insert_effects(rng, items, g_sync, lambda: next(counter), p_true=p_true)
                if trip is not None:
                    i = next(counter)
                    fx = ("fx", i, Assert(~trip, Format("#{}: tripped in fragment {}", i, k)))
                    pos = rng.choice([0, len(items)])
                    items = items[:pos] + [fx] + items[pos:]
                en = None
                if rng.random() < 0.2:
                    en = Signal(1, name=f"f{k}en", init=rng.choice([0, 1, 1]))
                    extra_inputs.append(en)
                    note("rerun_wrapper:enable")
                frags.append({"items": items, "combT": combT, "syncT": syncT, "en": en, "dom": dom_of[k]})
                seen_regs += syncT
        except Exception as e:
            note("generator_error:" + errkind(e))
            continue
        if trip is not None:
            extra_inputs.append(trip)
        driven = inputs + extra_inputs
        allsigs = driven + [s for f in frags for s in f["combT"]] + [s for f in frags for s in f["syncT"]]
        sigidx = {id(s): i for i, s in enumerate(allsigs)}
        case = {"seed": seed, "job_args": list(args), "sigs": [(s.name, len(s), s.shape().signed, s.init) for s in allsigs],
                "doms": doms, "n_driven": len(driven)}
        try:
            def wrapped(f, mod):
                return EnableInserter({"sync": f["en"]})(mod) if f["en"] is not None else mod
            case["frags"] = []
            for k, f in enumerate(frags):
                prog = ser_prog20(f["items"], sigidx)
                if f["en"] is not None:
                    prog = f"(if ({ser_value(f['en'], sigidx)} {prog}))"
                m = Module()
                build20(m, f["items"])
                ids = collect_fx(f["items"], {})
                frag = Fragment.get(wrapped(f, m), None)
                case["frags"].append({"dom": f["dom"], "prog": prog,
                                      "stmts": ser_stmts20(frag.statements.get("sync", []), sigidx, ids),
                                      "regs": [sigidx[id(s)] for s in f["syncT"]]})
            top = Module()
            cds = []
            for j, d in enumerate(doms):
                cd = ClockDomain(f"d{j}", clk_edge=d["edge"], reset_less=(d["rmode"] == "norst"), async_reset=(d["rmode"] == "async"))
                top.domains += cd
                cds.append(cd)
            for k, f in enumerate(frags):
                m2 = Module()
                build20(m2, f["items"])
                top.submodules[f"f{k}"] = DomainRenamer({"sync": f"d{f['dom']}"})(wrapped(f, m2))
            # the plan of events: fixed before the first run, executed identically by every run
            st = [[0, 0] for _d in doms]
            t_trip = rng.randrange(n_events) if trip is not None else None
            plan = []
            for n in range(n_events):
                sets = []
                for s in driven:
                    if s is trip:
                        if n == t_trip:
                            sets.append((sigidx[id(s)], 1))
                        continue
                    if rng.random() < 0.6:
                        v = gen_expr.rand_value(rng, s.shape())
                        if s.name == "str":
                            v = rng.choice([0, 65, 0x7b, 0x7d, 0x20, 0x7e])
                        sets.append((sigidx[id(s)], v))
                together = rng.random() < 0.45      # every clock toggles at this event (coincident edges)
                dd = []
                for j, d in enumerate(doms):
                    c0, r0 = st[j]
                    c1, r1 = c0, r0
                    r = rng.random()
                    if together:
                        c1 = 1 - c0
                        if d["rmode"] != "norst" and r < 0.15:
                            r1 = 1 - r0
                    elif d["rmode"] == "norst":
                        if r < 0.7:
                            c1 = 1 - c0
                    else:
                        if r < 0.5:
                            c1 = 1 - c0
                        elif r < 0.72:
                            r1 = 1 - r0
                        elif r < 0.85:
                            c1, r1 = 1 - c0, 1 - r0
                    st[j] = [c1, r1]
                    dd.append([c0, c1, r0, r1])
                plan.append({"sets": sets, "dom": dd})
            case["plan"] = [p["dom"] for p in plan]
            n_runs = 2 if rng.random() < 0.8 else 3
            timed = rng.random() < 0.35
            deadline = None
            if timed:
                # the first run is cut by `run_until` right after event `deadline - 1` (preferably one with a clock toggle)
                cand = [n + 1 for n in range(n_events - 1) if any(d[0] != d[1] for d in plan[n]["dom"])]
                deadline = rng.choice(cand) if cand else rng.randint(1, max(1, n_events - 1))
            case["timed"], case["deadline"] = timed, deadline
            sim = Simulator(top)
            buf = io.StringIO()
            cur = {"rec": None}

            def take():
                t = buf.getvalue()
                buf.seek(0)
                buf.truncate()
                return t

            async def tb(ctx):
                rec = cur["rec"]
                rec["pre_out"] = take()
                for n, step in enumerate(plan):
                    for idx, v in step["sets"]:
                        ctx.set(allsigs[idx], v)
                    rec["events"].append({"env": [ctx.get(s) for s in allsigs], "out": None})
                    rec["n"] = n
                    chg, val = [], 0
                    for cd, (c0, c1, r0, r1) in zip(cds, step["dom"]):
                        if c1 != c0:
                            val |= c1 << len(chg)
                            chg.append(cd.clk)
                        if r1 != r0:
                            val |= r1 << len(chg)
                            chg.append(cd.rst)
                    if len(chg) == 1:
                        ctx.set(chg[0], val)
                    elif chg:
                        ctx.set(Cat(*chg), val)
                    rec["events"][-1]["out"] = take()
                    if timed:
                        await ctx.delay(Period(us=1))
                rec["final"] = [ctx.get(s) for s in allsigs]
            sim.add_testbench(tb)
            runs = []
            for r in range(n_runs):
                rec = {"events": [], "pre_out": None, "final": None, "n": -1}
                cur["rec"] = rec
                stop = None
                try:
                    with contextlib.redirect_stdout(buf):
                        if timed and r == 0:
                            sim.run_until(Period(us=deadline))
                        else:
                            sim.run()
                except AssertionError as e:
                    stop = [rec["n"], "A", str(e)]
                except Exception as e:
                    stop = [rec["n"], "E", errkind(e)]
                rest = take()
                if rec["pre_out"] is None:
                    rec["pre_out"] = rest       # stopped before the testbench started
                elif stop is not None and rec["events"] and rec["events"][-1]["out"] is None:
                    rec["events"][-1]["out"] = rest
                    rest = ""
                rec["post_out"] = rest
                rec["stop"] = stop
                rec["cut"] = bool(timed and r == 0 and stop is None)
                # for the histograms only (never for the verdict): synchronous processes the engine still holds as runnable
                try:
                    rec["left"] = sum(1 for p in sim._engine._processes if getattr(p, "is_comb", None) is False and p.runnable)
                except Exception:
                    rec["left"] = None
                del rec["n"]
                runs.append(rec)
                if r + 1 < n_runs:
                    sim.reset()
            case["runs"] = runs
        except Exception as e:
            case["error"] = (errkind(e), repr(e)[:300])
        out.append(case)
    return {"cases": out, "hist": hist}


# ------------------------------------------------------------------------------------------------
# judging

def judge_text(chk, what, base, impl, orc, model, old, spec):
    """impl / orc: ("ok", text) | ("err", kind); model/old/spec: decoded driver results.
    returns False if a violation / not_shown was recorded"""
    def norm(r):
        return r
    if orc is not None and orc[0] == "ok" and has_surrogate(orc[1]):
        # Lean strings cannot hold a lone surrogate: compare with CPython only
        if impl != orc:
            chk.violation(f"{what}: text differs from Python's format (surrogate code point)", dict(base, impl=impl, python=orc, classes=[]))
            return False
        return True
    target = orc if orc is not None else spec
    if impl != target:
        classes = []
        if base.get("brace") and impl[0] == "err" and impl[1] == "ValueError" and old == impl:
            classes = ["F20"]
        chk.violation(f"{what}: emitted {impl!r}, Python's format gives {target!r}", dict(base, impl=impl, python=orc, lean_spec=spec, model=model, classes=classes))
        return False
    if orc is not None and spec != orc:
        chk.not_shown("the Lean model of Python's format (pyFormat) differs from CPython", dict(base, python=orc, lean_spec=spec))
        return False
    if impl != model:
        chk.not_shown(f"{what}: impl = spec, but the Lean model differs", dict(base, impl=impl, model=model))
        return False
    return True


def run_grid(chk, quick):
    rng = chk.rng
    specs = grid_specs()
    chk.extra.setdefault("exhaustive", {})["grid_specs"] = (
        f"{len(specs)} specs = ([fill]align: none, < > =, and fills {FILLS!r} x < > =) x sign {SIGNS!r} x # x 0 x "
        f"width {WIDTHS!r} x _ x type {TYPES!r}; shapes {GRID_SHAPES!r}")
    shapes = list(GRID_SHAPES)
    if quick:
        # every spec on a seed-dependent half of the shapes, always including an unsigned byte-multiple and a signed shape
        rest = [s for s in shapes if s not in [(16, False), (8, True)]]
        rng.shuffle(rest)
        shapes = [(16, False), (8, True)] + rest[:2]
    jobs = []
    per = 3040
    for (w, sg) in shapes:
        for i in range(0, len(specs), per):
            jobs.append((rng.getrandbits(48), w, sg, specs[i:i + per], 6 if quick else 25))
    n_rows = 0
    with ProcessPoolExecutor(max_workers=min(16, os.cpu_count() or 4)) as ex:
        for job in ex.map(grid_job, jobs):
            w, sg = job["w"], job["sg"]
            sgc = "s" if sg else "u"
            reqs = []
            for r in job["rows"]:
                reqs.append(f"(fmt {hx(r['spec'])} {w} {sgc} " + " ".join(str(v) for v in r.get("vals", [])) + ")")
            resps = chk.driver.ask(reqs)
            for r, resp in zip(job["rows"], resps):
                n_rows += 1
                spec = r["spec"]
                base = {"stream": "grid", "spec": spec, "shape": [w, sg], "brace": ("{" in spec or "}" in spec)}
                parts = resp.split(" ; ")
                head = common.kv(parts[0])
                if not parts[0].startswith("fmt "):
                    chk.not_shown("driver could not evaluate a grid case", dict(base, response=resp[:300]))
                    continue
                chk.hist("grid_reject", head["rej"])
                impl_rej = r["rej"] if r["rej"] is not None else "ok"
                if impl_rej != head["rej"]:
                    # acceptance is part of the property ("invalid specifications are rejected when the statement is built")
                    if (impl_rej == "ok") != (head["rej"] == "ok"):
                        chk.violation(f"Format('{{:{spec}}}') on shape ({w},{sgc}): implementation says {impl_rej}, the documented grammar says {head['rej']}",
                                      dict(base, impl=impl_rej, expected=head["rej"], classes=[]))
                    else:
                        chk.not_shown("a spec is rejected for another reason than the model predicts", dict(base, impl=impl_rej, model=head["rej"]))
                    continue
                chk.count(1)
                if r["rej"] is not None:
                    continue
                if (head["ends"] == "1") != spec.endswith("s"):
                    chk.not_shown("endsWithS differs from str.endswith", dict(base))
                ok = True
                for j, v in enumerate(r["vals"]):
                    d = common.kv(parts[1 + j])
                    orc = oracle(v, spec)
                    b = dict(base, value=v)
                    ok &= judge_text(chk, "Print", b, r["print"][j], orc, unhx(d["m"]), unhx(d["o"]), unhx(d["s"]))
                    ok &= judge_text(chk, "eval_format", b, r["tb"][j], orc, unhx(d["tb"]), unhx(d["tb"]), unhx(d["s"]))
                    chk.count(2)
                    if not ok:
                        break
                if "assert" in r and ok:
                    v, res = r["assert"]
                    j = r["vals"].index(v)
                    d = common.kv(parts[1 + j])
                    judge_text(chk, "Assert message", dict(base, value=v), res, oracle(v, spec), unhx(d["m"]), unhx(d["o"]), unhx(d["s"]))
                    chk.count(1)
                    chk.hist("assert_messages", "checked")
                nontrivial = any(p[0] == "ok" and p[1] not in ("", str(v)) for p, v in zip(r["print"], r["vals"]))
                chk.distinct(("grid", spec, w, sg), nontrivial)
                chk.hist("grid_type", spec_kind(spec))
                if n_rows % 9973 == 0:
                    chk.sample({"spec": spec, "shape": [w, sg], "values": r["vals"][:4], "print": [p[1] for p in r["print"][:4]]})
    return n_rows


def run_reject(chk, quick):
    rng = chk.rng
    alpha = list("<>=^+- #0123456789_,bodxXcsn") + ["e", "é", "*", "{", "}", ".", "\n", "\r", "f", "%", ":"]
    small = list("<^=+ #01_,bcsn") + ["*", "\n"]
    specs = [""]
    for n in (1, 2, 3):
        specs += ["".join(p) for p in itertools.product(small, repeat=n)]
    chk.extra.setdefault("exhaustive", {})["reject_short"] = f"all {len(specs)} strings of length <= 3 over {small!r}"
    for _ in range(4000 if quick else 60000):
        n = rng.randint(1, 8)
        if rng.random() < 0.5:
            # near-misses: a valid spec with one character inserted / replaced / duplicated
            s = list(rng.choice([f + a for f in FILLS for a in ALIGNS] + ALIGNS + [""]) + rng.choice(SIGNS) + rng.choice(["", "#"])
                     + rng.choice(["", "0"]) + rng.choice(WIDTHS) + rng.choice(["", "_", ","]) + rng.choice(TYPES + ["n"]))
            for _k in range(rng.randint(0, 2)):
                op = rng.random()
                pos = rng.randint(0, len(s))
                if op < 0.4:
                    s.insert(pos, rng.choice(alpha))
                elif op < 0.7 and s:
                    s[min(pos, len(s) - 1)] = rng.choice(alpha)
                elif s:
                    s.insert(pos, s[min(pos, len(s) - 1)])
            specs.append("".join(s))
        else:
            specs.append("".join(rng.choice(alpha) for _ in range(n)))
    shapes = [(8, False), (8, True), (7, False), (0, False)]
    jobs = [(rng.getrandbits(48), specs[i:i + 1500], shapes) for i in range(0, len(specs), 1500)]
    with ProcessPoolExecutor(max_workers=min(16, os.cpu_count() or 4)) as ex:
        for res in ex.map(reject_job, jobs):
            reqs = [f"(fmt {hx(spec)} {w} {'s' if sg else 'u'})" for spec, w, sg, _r, _c in res]
            resps = chk.driver.ask(reqs)
            for (spec, w, sg, impl, carrier), resp in zip(res, resps):
                chk.count(1)
                chk.hist("reject_carrier", carrier)
                head = common.kv(resp)
                base = {"stream": "reject", "spec": spec, "shape": [w, sg], "carrier": carrier}
                if not resp.startswith("fmt "):
                    chk.not_shown("driver could not evaluate a reject case", dict(base, response=resp[:200]))
                    continue
                chk.hist("reject_reason", head["rej"])
                if impl != head["rej"]:
                    if (impl == "ok") != (head["rej"] == "ok"):
                        chk.violation(f"Format with spec {spec!r} on a {carrier} of shape ({w},{'s' if sg else 'u'}): implementation says {impl}, the grammar says {head['rej']}",
                                      dict(base, impl=impl, expected=head["rej"], classes=[]))
                    else:
                        chk.not_shown("a spec is rejected for another reason than the model predicts", dict(base, impl=impl, model=head["rej"]))
                chk.distinct(("rej", spec, w, sg, carrier), head["rej"] != "invalid")


def run_chunks(chk, quick):
    rng = chk.rng
    jobs = [(rng.getrandbits(48), 25, 3) for _ in range(32 if quick else 600)]
    with ProcessPoolExecutor(max_workers=min(16, os.cpu_count() or 4)) as ex:
        for cases in ex.map(chunks_job, jobs):
            judge_chunks(chk, cases)


def judge_chunks(chk, cases):
    live = [c for c in cases if "gen_error" not in c]
    for c in cases:
        if "gen_error" in c:
            chk.hist("chunks_generator_error", c["gen_error"][0])
    reqs = []
    for c in live:
        ctx = ser_ctx([_Shape(w, sg) for w, sg in c["shapes"]])
        reqs.append(f"(chunks {ctx} ({c['chunks']}) " + " ".join(common.ser_env(e) for e in c["envs"]) + ")")
    resps = chk.driver.ask(reqs)
    for c, req, resp in zip(live, reqs, resps):
        base = {"stream": "chunks", "mode": c["mode"], "format": c["repr"], "sigs": c["sigs"], "request": req[:1500],
                "job_args": c["job_args"],
                "brace": c["brace"]}
        parts = resp.split(" ; ")
        if parts[0] != "chunks":
            chk.not_shown("driver could not evaluate a chunks case", dict(base, response=resp[:300]))
            continue
        chk.hist("chunks_mode", c["mode"])
        for env, impl, tbr, p in zip(c["envs"], c["impl"], c["tb"], parts[1:]):
            d = common.kv(p)
            spec = unhx(d["s"])
            if c["mode"] == "assert" and impl == ("ok", None):
                impl = ("ok", "")       # an Assert whose message has no chunks at all
            b = dict(base, env=env)
            chk.count(2)
            ok = judge_text(chk, "Print/Assert text", b, impl, None, unhx(d["m"]), unhx(d["o"]), spec)
            ok &= judge_text(chk, "eval_format", b, tbr, None, unhx(d["tb"]), unhx(d["tb"]), spec)
            if not ok:
                break
        chk.distinct(("chunks", c["chunks"]), "val" in c["chunks"] and "lit" in c["chunks"])
        if "x7b" in c["chunks"]:
            chk.hist("chunks_with_literal_brace", 1)
        chk.sample({"format": c["repr"], "env": c["envs"][0], "text": c["impl"][0][1]}, limit=10)


class _Shape:
    def __init__(self, w, sg):
        self.width, self.signed = w, sg


def run_join(chk, quick):
    rng = chk.rng
    jobs = [(rng.getrandbits(48), 40, 2) for _ in range(32 if quick else 600)]
    with ProcessPoolExecutor(max_workers=min(16, os.cpu_count() or 4)) as ex:
        for cases in ex.map(join_job, jobs):
            judge_join(chk, cases)


def python_print(texts, sep, end):
    """CPython's own print() of the already formatted arguments"""
    buf = io.StringIO()
    kw = {}
    if sep is not None:
        kw["sep"] = sep
    if end is not None:
        kw["end"] = end
    print(*texts, file=buf, **kw)
    return buf.getvalue()


def judge_join(chk, cases):
    live = [c for c in cases if "gen_error" not in c]
    for c in cases:
        if "gen_error" in c:
            chk.hist("join_generator_error", c["gen_error"][0])
    reqs, index = [], []
    for ci, c in enumerate(live):
        ctx = ser_ctx([_Shape(w, sg) for w, sg in c["shapes"]])
        envs = " ".join(common.ser_env(e) for e in c["envs"])
        reqs.append(f"(chunks {ctx} ({c['chunks']}) {envs})")
        index.append((ci, None))
        for k, ac in enumerate(c["argchunks"]):
            if ac:                       # an argument without chunks formats to ""
                reqs.append(f"(chunks {ctx} ({ac}) {envs})")
                index.append((ci, k))
    n_text = len(reqs)
    for ci, c in enumerate(live):        # structural tie: Print.__init__ + _clean_chunks against Model/PrintJoin.lean
        ctx = ser_ctx([_Shape(w, sg) for w, sg in c["shapes"]])
        sep = " " if c["sep"] is None else c["sep"]
        end = "\n" if c["end"] is None else c["end"]
        reqs.append(f"(pjoin {ctx} {hx(sep)} {hx(end)} ({c['chunks']}) (" + " ".join(f"({ac})" for ac in c["argchunks"]) + "))")
    resps = chk.driver.ask(reqs)
    built = {}
    for ci, (req, resp) in enumerate(zip(reqs[n_text:], resps[n_text:])):
        built[ci] = (req, resp)
    reqs, resps = reqs[:n_text], resps[:n_text]
    whole, perarg = {}, {}
    for (ci, k), req, resp in zip(index, reqs, resps):
        parts = resp.split(" ; ")
        if parts[0] != "chunks":
            chk.not_shown("driver could not evaluate a join case", {"stream": "join", "request": req[:800], "response": resp[:300],
                                                                    "job_args": live[ci]["job_args"]})
            parts = None
        if k is None:
            whole[ci] = (req, parts)
        else:
            perarg[(ci, k)] = parts
    for ci, c in enumerate(live):
        req, parts = whole[ci]
        if parts is None or any(perarg.get((ci, k), 1) is None for k in range(len(c["argchunks"]))):
            continue
        base = {"stream": "join", "print": c["repr"], "sep": c["sep"], "end": c["end"], "argument_kinds": c["kinds"], "sigs": c["sigs"],
                "request": req[:1500], "job_args": c["job_args"], "brace": c["brace"]}
        chk.hist("join_arguments", len(c["kinds"]))
        chk.hist("join_sep", "default" if c["sep"] is None else repr(c["sep"]))
        chk.hist("join_end", "default" if c["end"] is None else repr(c["end"]))
        chk.hist("join_empty_argument_pattern", c["pattern"])
        n = len(c["kinds"])
        for k, kd in enumerate(c["kinds"]):
            if kd in ("empty-str", "empty-format", "format-of-empty-str"):
                pos = "only" if n == 1 else "first" if k == 0 else "last" if k == n - 1 else "middle"
                chk.hist("join_empty_argument_at", pos)
                chk.hist("join_empty_argument_kind", kd)
        ok = True
        for j, (env, impl, tbr) in enumerate(zip(c["envs"], c["impl"], c["tb"])):
            d = common.kv(parts[1 + j])
            texts, failed = [], None
            for k, ac in enumerate(c["argchunks"]):
                if not ac:
                    texts.append("")
                    continue
                r = unhx(common.kv(perarg[(ci, k)][1 + j])["s"])
                if r[0] != "ok":
                    failed = r
                    break
                texts.append(r[1])
            b = dict(base, env=env)
            if failed is None:
                orc = ("ok", python_print(texts, c["sep"], c["end"]))
                b["argument_texts"] = texts
                chk.hist("join_oracle", "print(*texts, sep, end) by CPython")
            else:
                orc = None                   # an argument that cannot be formatted: the whole message by the Spec
                chk.hist("join_oracle", "an argument raises: Spec text of the whole message")
            chk.count(2)
            ok = judge_text(chk, "Print(*args, sep, end) text", b, impl, orc, unhx(d["m"]), unhx(d["o"]), unhx(d["s"]))
            ok &= judge_text(chk, "eval_format of Print(*args, sep, end).message", b, tbr, orc, unhx(d["tb"]), unhx(d["tb"]), unhx(d["s"]))
            if not ok:
                break
        breq, bresp = built[ci]
        bd = common.kv(bresp) if bresp.startswith("pjoin ") else {}
        chk.hist("join_built", bd.get("built", "error"))
        chk.hist("join_clean_form", bd.get("clean", "error"))
        if bd.get("built") != "same" or bd.get("clean") != "1":
            if ok:      # no text differs on the sampled environments: the structural tie alone is broken
                chk.not_shown("correspondence Print.__init__/_clean_chunks = Model/PrintJoin.lean printChunks (theorem print_join_text)",
                              dict(base, request=breq[:1500], response=bresp[:200]))
        chk.distinct(("join", c["chunks"], tuple(c["argchunks"]), c["sep"], c["end"]),
                     len(c["kinds"]) > 1 and any(kd.startswith(("empty", "format-of-empty")) for kd in c["kinds"]))
        chk.sample({"print": c["repr"], "env": c["envs"][0], "text": c["impl"][0][1]}, limit=16)


def run_flow(chk, quick):
    rng = chk.rng
    jobs = [(rng.getrandbits(48), 10, 3, 10) for _ in range(64 if quick else 1200)]
    with ProcessPoolExecutor(max_workers=min(16, os.cpu_count() or 4)) as ex:
        for job in ex.map(flow_job, jobs, chunksize=2):
            judge_flow_job(chk, job)


def judge_flow_job(chk, job):
    for k, v in job["hist"].items():
        chk.hist("constructs", k, v)
    live = [c for c in job["cases"] if "error" not in c]
    for c in job["cases"]:
        if "error" in c:
            chk.violation(f"building or simulating a legal design with Print/Assert raises {c['error'][0]}: {c['error'][1]}",
                          dict(stream="flow", sigs=c["sigs"], prog=c.get("prog"), error=c["error"], job_seed=c["seed"], job_args=c.get("job_args"), classes=[]))
    reqs = []
    for c in live:
        ctx = ser_ctx([_Shape(w, sg) for _n, w, sg, _i in c["sigs"]])
        dom = f"(dom {c['edge']} {'norst' if c['rmode'] == 'norst' else 'rst'} {'async' if c['rmode'] == 'async' else 'sync'})"
        evs = " ".join(f"(ev {e['c0']} {e['c1']} {e['r0']} {e['r1']} " + " ".join(str(v) for v in e["env"]) + ")" for e in c["events"])
        reqs.append(f"(sim {ctx} {dom} (seq {c['stmts']}) (prog {c['prog']}) {evs})")
    resps = chk.driver.ask(reqs)
    for c, req, resp in zip(live, reqs, resps):
        judge_flow(chk, c, req, resp)


def parse_stop(s):
    if s == "none":
        return None
    i, rest = s.split(":", 1)
    if rest.startswith("E"):
        return (int(i), "E", rest[1:])
    _id, text = rest[1:].split(":", 1)
    return (int(i), "A", unhx(text)[1])


def judge_flow(chk, c, req, resp):
    base = {"stream": "flow", "sigs": c["sigs"], "edge": c["edge"], "reset": c["rmode"], "prog": c["prog"][:3000], "job_seed": c["seed"],
            "job_args": c["job_args"],
            "request": req[:6000], "brace": False}
    parts = resp.split(" ; ")
    if parts[0] != "sim" or len(parts) != len(c["events"]) + 2:
        chk.not_shown("driver could not evaluate a control-flow case", dict(base, response=resp[:300]))
        return
    chk.hist("flow_domain", f"{c['edge']}/{c['rmode']}")
    stop = common.kv(parts[-1])
    impl_stop = tuple(c["stop"]) if c["stop"] is not None else None
    n_emit = 0
    for n, (ev, p) in enumerate(zip(c["events"], parts[1:-1])):
        d = common.kv(p)
        if ev["out"] is None:
            # the simulation stopped before this event
            break
        chk.count(1)
        kind = ("clk" if ev["c0"] != ev["c1"] else "") + ("rst" if ev["r0"] != ev["r1"] else "") or "none"
        chk.hist("flow_event", kind + ("/active" if d["a"] == "1" else ""))
        impl = ev["out"]
        b = dict(base, event_index=n, event={k: ev[k] for k in ("c0", "c1", "r0", "r1", "env")})
        for key, what in (("d", "the program as written"), ("s", "the lowered statements")):
            sp = unhx(d[key])
            want = sp[1] if sp[0] == "ok" else ""
            if impl != want:
                note = " (matches the F4 behaviour: statements run on a rising asynchronous reset)" if d["f4"] == "1" and d["a"] == "0" else ""
                chk.violation(f"event {n} ({kind}, active edge={d['a']}): printed {impl!r}, active Prints of {what} give {want!r}{note}",
                              dict(b, impl=impl, expected=want, classes=[]))
                return
        for key, what in (("m", "statements as amaranth built them"), ("l", "Lean model of the DSL lowering")):
            mo = unhx(d[key])
            want = mo[1] if mo[0] == "ok" else ""
            if impl != want:
                chk.not_shown(f"control flow: impl = spec but the Lean model ({what}) differs", dict(b, impl=impl, model=want))
                return
        if impl:
            n_emit += 1
    sd, ss, sm, sl = (parse_stop(stop[k]) for k in ("d", "s", "m", "l"))
    for sp, what in ((sd, "the program as written"), (ss, "the lowered statements")):
        if impl_stop != sp:
            chk.violation(f"simulation stopped at {impl_stop!r}; by {what} the first failing edge is {sp!r}",
                          dict(base, impl=impl_stop, expected=sp, classes=[]))
            return
    for mo, what in ((sm, "statements as amaranth built them"), (sl, "Lean model of the DSL lowering")):
        if impl_stop != mo:
            chk.not_shown(f"control flow stop: impl = spec but the Lean model ({what}) differs", dict(base, impl=impl_stop, model=mo))
            return
    chk.hist("flow_stop", "none" if impl_stop is None else f"{impl_stop[1]}@{impl_stop[0]}")
    chk.distinct(("flow", c["prog"], c["edge"], c["rmode"]), n_emit > 0 or impl_stop is not None)
    if n_emit and impl_stop is not None:
        chk.sample({"prog": c["prog"][:500], "domain": f"{c['edge']}/{c['rmode']}", "stop": impl_stop,
                    "outs": [e["out"] for e in c["events"] if e["out"] is not None]}, limit=14)


def run_rerun(chk, quick):
    rng = chk.rng
    jobs = [(rng.getrandbits(48), 8, 3, 10) for _ in range(32 if quick else 800)]
    with ProcessPoolExecutor(max_workers=min(16, os.cpu_count() or 4)) as ex:
        for job in ex.map(rerun_job, jobs, chunksize=2):
            judge_rerun_job(chk, job)


def rerun_requests(c, run):
    """one `sim` request per fragment: the events this run executed, as seen by the fragment's domain"""
    ctx = ser_ctx([_Shape(w, sg) for _n, w, sg, _i in c["sigs"]])
    reqs = []
    for f in c["frags"]:
        d = c["doms"][f["dom"]]
        dom = f"(dom {d['edge']} {'norst' if d['rmode'] == 'norst' else 'rst'} {'async' if d['rmode'] == 'async' else 'sync'})"
        evs = " ".join("(ev " + " ".join(str(x) for x in c["plan"][n][f["dom"]]) + " " + " ".join(str(v) for v in e["env"]) + ")"
                       for n, e in enumerate(run["events"]))
        reqs.append(f"(sim {ctx} {dom} (seq {f['stmts']}) (prog {f['prog']}) {evs})")
    return reqs


def judge_rerun_job(chk, job):
    for k, v in job["hist"].items():
        chk.hist("constructs", k, v)
    live = [c for c in job["cases"] if "error" not in c]
    for c in job["cases"]:
        if "error" in c:
            chk.violation(f"building or simulating (run, reset, run again) a legal design with Print/Assert raises {c['error'][0]}: {c['error'][1]}",
                          dict(stream="rerun", sigs=c["sigs"], frags=c.get("frags"), error=c["error"], job_seed=c["seed"],
                               job_args=c.get("job_args"), classes=[]))
    answers = {}
    for c in live:
        for run in c["runs"]:
            for q in rerun_requests(c, run):
                answers.setdefault(q, None)
    qs = list(answers)
    for q, resp in zip(qs, chk.driver.ask(qs)):
        answers[q] = resp
    for c in live:
        judge_rerun(chk, c, answers)


def _orderings(texts):
    return {"".join(p) for p in itertools.permutations([t for t in texts if t])}


def judge_rerun(chk, c, answers):
    names = [s[0] for s in c["sigs"]]
    inits = [s[3] for s in c["sigs"]]
    nf = len(c["frags"])
    base = {"stream": "rerun", "sigs": c["sigs"], "domains": c["doms"], "fragments": [{"domain": f["dom"], "prog": f["prog"][:2000]} for f in c["frags"]],
            "plan": c["plan"], "timed": c["timed"], "deadline": c["deadline"], "job_seed": c["seed"], "job_args": c["job_args"], "brace": False}
    runs = c["runs"]
    first = runs[0]
    first_end = "deadline" if first["cut"] else "complete" if first["stop"] is None else "assert" if first["stop"][1] == "A" else "error"
    chk.hist("rerun_runs", len(runs))
    chk.hist("rerun_first_end", first_end)
    chk.hist("rerun_fragments", nf)
    chk.hist("rerun_domains", len(c["doms"]))
    chk.hist("rerun_left_runnable_after_first_run", "unknown" if first["left"] is None else first["left"])
    n_emit = 0
    for r, run in enumerate(runs):
        which = "first run" if r == 0 else f"run {r + 1} (same Simulator, after reset())"
        b = dict(base, run=r, first_run_ended=first_end, stop=run["stop"], outs=[e["out"] for e in run["events"]],
                 pre_out=run["pre_out"], post_out=run["post_out"])
        events = run["events"]
        impl_stop = tuple(run["stop"]) if run["stop"] is not None else None
        # nothing may be emitted, and no register may have moved, before the first event (there has been no edge)
        if run["pre_out"]:
            chk.violation(f"{which}: {run['pre_out']!r} printed before the first event (no clock edge has happened yet)",
                          dict(b, impl=run["pre_out"], expected="", classes=[]))
            return
        if not events:
            chk.violation(f"{which}: stopped with {impl_stop!r} before the first event (no clock edge has happened yet)",
                          dict(b, impl=impl_stop, expected=None, classes=[]))
            return
        for f in c["frags"]:
            for i in f["regs"]:
                if events[0]["env"][i] != inits[i]:
                    chk.violation(f"{which}: register {names[i]} is {events[0]['env'][i]} before the first clock edge; its initial value is {inits[i]}",
                                  dict(b, signal=names[i], impl=events[0]["env"][i], expected=inits[i], classes=[]))
                    return
        reqs = rerun_requests(c, run)
        rows = []
        for k, q in enumerate(reqs):
            parts = (answers.get(q) or "").split(" ; ")
            if parts[0] != "sim" or len(parts) != len(events) + 2:
                chk.not_shown("driver could not evaluate a rerun case", dict(b, fragment=k, request=q[:3000], response=(answers.get(q) or "")[:300]))
                return
            rows.append(([common.kv(p) for p in parts[1:-1]], common.kv(parts[-1])))
        # a register changes only at the active edges of its domain (and at a change of an asynchronous reset)
        for n in range(len(events)):
            nxt = events[n + 1]["env"] if n + 1 < len(events) else run["final"]
            if nxt is None:
                continue
            for k, f in enumerate(c["frags"]):
                _c0, _c1, r0, r1 = c["plan"][n][f["dom"]]
                if rows[k][0][n]["a"] == "0" and not (c["doms"][f["dom"]]["rmode"] == "async" and r0 != r1):
                    for i in f["regs"]:
                        if nxt[i] != events[n]["env"][i]:
                            chk.violation(f"{which}: register {names[i]} changed from {events[n]['env'][i]} to {nxt[i]} at event {n}, which is no active edge of its domain",
                                          dict(b, event_index=n, signal=names[i], classes=[]))
                            return
        for key, what, is_spec in (("d", "the programs as written", True), ("s", "the lowered statements", True),
                                   ("m", "statements as amaranth built them", False), ("l", "Lean model of the DSL lowering", False)):
            stops = [parse_stop(rows[k][1][key]) for k in range(nf)]
            idxs = [s[0] for s in stops if s is not None]
            want_idx = min(idxs) if idxs else None
            bad = None
            for n, ev in enumerate(events):
                texts = []
                for k in range(nf):
                    t = unhx(rows[k][0][n][key])
                    texts.append(t[1] if t[0] == "ok" else "")
                if impl_stop is not None and n == impl_stop[0] and n == len(events) - 1:
                    # the stopping event: the fragments evaluated before the failing one emitted everything, the failing one
                    # emitted up to the failing statement, the rest did not run (any evaluation order is accepted)
                    ok = False
                    for k in range(nf):
                        if stops[k] is None or tuple(stops[k]) != impl_stop:
                            continue
                        done = [texts[j] for j in range(nf) if j != k and texts[j] and not (stops[j] is not None and stops[j][0] == n)]
                        for m in range(len(done) + 1):
                            for sub in itertools.combinations(done, m):
                                if ev["out"] in {o + texts[k] for o in _orderings(sub)}:
                                    ok = True
                    if not ok and want_idx == n:
                        bad = (f"event {n} (where the simulation stopped with {impl_stop!r}): printed {ev['out']!r}; no evaluation order of the fragments' "
                               f"active Prints {texts!r} / failing statements {[s for s in stops if s is not None and s[0] == n]!r} ({what}) gives that",
                               dict(event_index=n, impl=ev["out"], expected=texts))
                        break
                elif ev["out"] not in _orderings(texts):
                    bad = (f"event {n}: printed {ev['out']!r}; the active Prints of the fragments ({what}) give {texts!r} (in any order)",
                           dict(event_index=n, impl=ev["out"], expected=texts))
                    break
            if bad is None:
                impl_idx = impl_stop[0] if impl_stop is not None else None
                if impl_idx != want_idx or (impl_stop is not None and not any(s is not None and tuple(s) == impl_stop for s in stops)):
                    bad = (f"simulation stopped at {impl_stop!r}; by {what} the first failing edge is {[s for s in stops if s is not None and s[0] == want_idx]!r}",
                           dict(impl=impl_stop, expected=stops))
            if bad is not None:
                if is_spec:
                    chk.violation(f"{which}: {bad[0]}", dict(b, classes=[], **bad[1]))
                else:
                    chk.not_shown(f"rerun: impl = spec but the Lean model ({what}) differs: {bad[0][:200]}", dict(b, **bad[1]))
                return
        if run["post_out"]:
            chk.violation(f"{which}: {run['post_out']!r} printed after the last event, outside any clock edge",
                          dict(b, impl=run["post_out"], expected="", classes=[]))
            return
        # a run after reset() starts from the initial state again: it must retrace the first run
        if r > 0:
            for n in range(min(len(events), len(first["events"]))):
                e0, e1 = first["events"][n]["env"], events[n]["env"]
                if e0 != e1:
                    i = next(i for i in range(len(e0)) if e0[i] != e1[i])
                    chk.violation(f"{which}: signal {names[i]} is {e1[i]} before event {n}; in the first run, from the same initial state and with the same inputs, it was {e0[i]}",
                                  dict(b, event_index=n, signal=names[i], impl=e1[i], expected=e0[i], classes=[]))
                    return
            if first["final"] is not None and run["final"] != first["final"]:
                chk.violation(f"{which}: final signal values {run['final']!r} differ from those of the first run {first['final']!r}",
                              dict(b, impl=run["final"], expected=first["final"], classes=[]))
                return
            if not first["cut"] and (len(events) != len(first["events"]) or run["stop"] != first["stop"]):
                chk.violation(f"{which}: ended with {impl_stop!r} after {len(events)} events; the first run ended with {first['stop']!r} after {len(first['events'])}",
                              dict(b, impl=run["stop"], expected=first["stop"], classes=[]))
                return
        chk.count(len(events))
        n_emit += sum(1 for e in events if e["out"])
        for n in range(len(events)):
            woken = sum(1 for k in range(nf) if rows[k][0][n]["w"] == "1")
            chk.hist("rerun_fragments_woken_per_event", woken)
            if impl_stop is not None and n == impl_stop[0]:
                chk.hist("rerun_fragments_woken_at_stop", woken)
        if r > 0:
            chk.hist("reruns", 1)
    chk.distinct(("rerun", tuple(f["prog"] for f in c["frags"]), json.dumps(c["doms"]), json.dumps(c["plan"])),
                 n_emit > 0 or any(run["stop"] is not None for run in runs))
    if nf > 1 and first["stop"] is not None:
        chk.sample({"stream": "rerun", "fragments": [f["prog"][:200] for f in c["frags"]], "domains": c["doms"], "first_run_stop": first["stop"],
                    "outs_first": [e["out"] for e in first["events"]], "outs_second": [e["out"] for e in runs[1]["events"]]}, limit=18)


def run_brace(chk, quick):
    """F20: a `{` or `}` fill character (dedicated stream, never mixed into the grid)"""
    rng = chk.rng
    cases = []
    for fill in "{}":
        for al in ALIGNS:
            for rest in ["5", "5d", "+6x", "#8b", "3c", "4s", "", "x"]:
                cases.append(fill + al + rest)
    from amaranth.hdl import unsigned
    reqs, rows = [], []
    for spec in cases:
        shape = unsigned(8)
        if "=" in spec and spec[-1:] in ("c", "s"):
            continue
        v = rng.choice([0, 65, 0x7b, 200])
        rows.append((spec, v, run_single("print", shape, spec, v), run_single("tb", shape, spec, v), run_single("assert", shape, spec, v)))
        reqs.append(f"(fmt {hx(spec)} 8 u {v})")
    resps = chk.driver.ask(reqs)
    reported = 0
    for (spec, v, pr, tb, asr), resp in zip(rows, resps):
        parts = resp.split(" ; ")
        d = common.kv(parts[1])
        base = {"stream": "brace-fill", "spec": spec, "shape": [8, False], "value": v, "brace": True}
        orc = oracle(v, spec)
        chk.count(3)
        bad = [r for r in (pr, asr, tb) if r != orc]
        chk.hist("brace_fill", "agrees with Python" if not bad else "differs from Python", 1)
        # every failing case is counted above; only the first few are written out as replays so that
        # this one finding cannot crowd other violations out of the report
        if bad and reported >= 6:
            continue
        reported += 1 if bad else 0
        judge_text(chk, "Print", base, pr, orc, unhx(d["m"]), unhx(d["o"]), unhx(d["s"]))
        judge_text(chk, "Assert message", base, asr, orc, unhx(d["m"]), unhx(d["o"]), unhx(d["s"]))
        judge_text(chk, "eval_format", base, tb, orc, unhx(d["tb"]), unhx(d["tb"]), unhx(d["s"]))
        chk.distinct(("brace", spec), True)


def run(chk):
    if not chk.lean():
        chk.not_shown("Lean build of Properties/C20 failed", chk.build_log[-3000:])
        return
    quick = chk.tier == "quick"
    from amaranth.hdl import Format
    src = Format._FORMAT_SPEC_PATTERN.pattern
    chk.obligations.append(("format-spec regex source equals the one the Lean recogniser was proved against",
                            src == REGEX_SOURCE, "" if src == REGEX_SOURCE else src))
    if src != REGEX_SOURCE:
        chk.not_shown("Format._FORMAT_SPEC_PATTERN changed: the Lean recogniser parseSpecL was proved against another regular expression",
                      {"now": src, "proved_against": REGEX_SOURCE})
    import time
    timing = chk.extra.setdefault("timing_s", {})
    # (the rerun stream comes last so that the random streams of the older ones are what they were)
    for name, fn in (("reject", run_reject), ("chunks", run_chunks), ("flow", run_flow), ("grid", run_grid), ("brace", run_brace),
                     ("rerun", run_rerun), ("join", run_join)):
        if os.environ.get("VERIF_C20_ONLY") not in (None, "", name):      # development aid: one stream only
            continue
        t0 = time.time()
        fn(chk, quick)
        timing[name] = round(time.time() - t0, 1)
    chk.cov["rule"] = (
        "(a) grid: every spec of the enumerated accepted grammar x shapes x boundary values (corners of the shape, code points up to "
        "0x110000 incl. surrogates for c, valid / invalid UTF-8 byte strings for s), printed by a real simulation (stdout captured), "
        "evaluated by eval_format on the same simulator state, and (sampled) carried by a failing Assert; each compared with CPython's "
        "format() evaluated by the harness, the Lean Spec text and the Lean Model (compiled path repaired / as found, eval_format); "
        "(b) all short strings over the grammar's alphabet plus random and near-miss strings: accept / ValueError reason; "
        "(c) random Formats with literal braces, unicode, several fields with expression arguments, Print(sep=, end=), Assert messages; "
        "(c') Print statements with 1..5 positional arguments (strings, Formats, values and expressions), arguments that format to "
        "nothing ('', Format(''), Format('{}', '')) in first / middle / last position or everywhere, sep and end defaulted or given: "
        "the text of every argument alone from the Lean Spec, joined by CPython's own print(*texts, sep=, end=) - the oracle - and "
        "compared with the simulation's stdout and eval_format (and the Lean Model / Spec on the message amaranth built); "
        "(d) random Module-DSL programs (If/Elif/Else, Switch/Case/Default, nesting <= 3) with Prints, Asserts and Assumes in posedge / "
        "negedge domains without reset, with synchronous and with asynchronous reset, driven by random events (clock toggle, reset toggle, "
        "both at once, neither): text written at every event and the event / message at which Simulator.run() raises, compared with the "
        "Lean Spec on the program as written and on the lowered statements, and with the Lean Model; "
        "(d') designs with 1..3 clocked fragments (own programs and registers, optionally reading each other's registers) in 1..3 "
        "hand-driven domains with coincident edges, a fixed plan of events run two or three times on the same Simulator with reset() in "
        "between (first run ended by completion, by a failing Assert/Assume/exception in one of the woken fragments, or by a run_until "
        "deadline right after an event): for every run, nothing printed and no register moved before the first event, the text of every "
        "event equals the fragments' active Prints (Spec, per fragment, any evaluation order), the stopping event and message, registers "
        "change only at active edges of their domain (or a change of its asynchronous reset), nothing is printed after the last event, and a later run retraces the first "
        "(signal values before every event and at the end). "
        "distinct = distinct (spec, shape) / format / program; non-trivial = some text beyond str(value) is produced / something is "
        "emitted or the simulation stops")
    chk.assumptions += [
        "Python strings are modelled as lists of Unicode scalar values: results containing a lone surrogate (c with 0xD800..0xDFFF) are "
        "compared with CPython only",
        "format(value, 'c') raises OverflowError for values >= 0x110000 and value_to_string raises UnicodeDecodeError for invalid UTF-8: "
        "the simulator propagates both; the check compares the exception kinds (Python's own format raises the same)",
        "eval_format is exercised directly on the simulator state (its only caller is the VCD writer)",
        "Cover statements and combinational Prints are outside the property and not generated",
    ]


def replay(chk, path):
    """re-run a recorded failing input on the current tree: prints what the implementation, Python's own
    format, the Lean Spec and the Lean Model say; exit 1 if they still disagree"""
    rep = json.load(open(path))["replay"]
    chk.driver = common.Driver(EXE)
    stream = rep.get("stream")
    if stream in ("grid", "brace-fill", "reject"):
        from amaranth.hdl import signed, unsigned
        spec, (w, sg) = rep["spec"], rep["shape"]
        shape = signed(w) if sg else unsigned(w)
        rows = reject_job((0, [spec], [(w, sg)]))
        impl_rej = next((r[3] for r in rows if r[4] == rep.get("carrier", "sig")), rows[0][3])
        v = rep.get("value")
        resp = chk.driver.ask([f"(fmt {hx(spec)} {w} {'s' if sg else 'u'}" + (f" {v}" if v is not None else "") + ")"])[0]
        parts = resp.split(" ; ")
        model_rej = common.kv(parts[0]).get("rej")
        print(f"spec {spec!r} shape ({w},{'s' if sg else 'u'}): Format says {impl_rej}, the grammar says {model_rej}")
        bad = impl_rej != model_rej
        if v is not None and impl_rej == "ok":
            d = common.kv(parts[1])
            orc = oracle(v, spec)
            for kind in ("print", "assert", "tb"):
                r = run_single(kind, shape, spec, v)
                print(f"  value {v}: {kind:6} {r!r}   python {orc!r}   spec {unhx(d['s'])!r}   model {unhx(d['tb' if kind == 'tb' else 'm'])!r}")
                bad |= r != orc and not (orc[0] == "ok" and has_surrogate(orc[1]) and r == orc)
        return common.EXIT_VIOLATION if bad else common.EXIT_OK
    if stream == "chunks":
        judge_chunks(chk, chunks_job(tuple(rep["job_args"])))
    elif stream == "join":
        judge_join(chk, join_job(tuple(rep["job_args"])))
    elif stream == "flow":
        judge_flow_job(chk, flow_job(tuple(rep["job_args"])))
    elif stream == "rerun":
        judge_rerun_job(chk, rerun_job(tuple(rep["job_args"])))
    else:
        print("unknown replay stream", stream)
        return common.EXIT_INFRA
    for summary, r in chk.violations:
        print("VIOLATION", summary[:300])
        print("  ", {k: r[k] for k in ("format", "print", "env", "event_index", "event", "prog", "run", "fragments", "outs", "pre_out") if k in r})
    for what, _d in chk.unshown:
        print("NOT SHOWN", what)
    return common.EXIT_VIOLATION if (chk.violations or chk.unshown) else common.EXIT_OK
