"""C07 - every emitted RTLIL document is structurally well-formed.

Translation validation: whole designs are converted with `amaranth.back.rtlil.convert(design, ports=...)`
(half of them with `emit_src=True`, the default of `convert`, half without source locations),
the text goes to the Lean reader (`Model/Rtlil/Parse`) and the validator (`Model/Rtlil/SrcAttr.checkAll` =
`Model/Rtlil/WF.check`, proved sound against `Spec/RtlilWF.WellFormed` in `Properties/C07.wf_sound`, plus the
clause for a given attribute named `src`, `Properties/C07.wf_src_sound`); a rejected document is a violation.

The designs of the generator are conflict-free by construction (every signal bit has one owner), except that
a tenth of them uses a bit of an I/O port twice (inside one I/O value, `Cat(pins[0:2], pins[1:3])`, or in two
buffers): amaranth must refuse exactly those (DriverConflict naming the I/O port) and convert all the others.

Stream `fieldclash` (gen_hier `field_clash`): structured (`lib.data`) signals - struct, array, nested, union and flexible
layouts, zero-width and enumeration fields, layouts two of whose own field paths join to one name (`{"f": {"g": 1}, "f.g": 3}`,
`{"g": Array(2, 2), "g[0]": 1}`) - together with memories, I/O ports, top-level ports and other signals that carry the very
names amaranth gives the alias wires of the fields (`sig.f`, `sig.f.g`, `sig[0]`, `sig[0].f`, `sig[0][1]`), in a module
that reads the structured signal: all of these must convert (names stay unique, the alias gives way).  Stream
`fieldclash_cells` (`field_clash_cells`) also gives these names to `Instance`s and submodules (finding F39, repaired).
"""
import os
import random
import re
from concurrent.futures import ProcessPoolExecutor

from .. import common
from ..common import errkind

LEVEL = "translation_validation"
EXE = "amodel_c07"

# exceptions by which amaranth *rejects* a design (the design does not elaborate: outside the property)
REJECTIONS = {"DriverConflict", "CombinationalCycle", "DomainError", "NameError", "other:DuplicateElaboratable",
              "other:DomainRequirementFailed"}
# ... but the designs of `gen_hier` give every signal bit exactly one driver, so a DriverConflict is expected exactly
# when the design uses a bit of an I/O port twice (`Built.io_dup`), and then it must be the I/O port conflict
IO_CONFLICT = re.compile(r"^Bit \d+ of I/O port .* used twice")

F_DOLLAR = "F19"      # a user name of the form x$k collides with a de-duplicated / synthesised name
F_SPACE = "F23"       # a name containing white space is printed verbatim: the text is not RTLIL
F_DOT = "F24"         # a signal named like the field wire of a structured signal (`s.f`)
F_WINDOW = "F25"      # emit_assign does not clip the window at an array element shorter than the array
F_ZEROIO = "F26"      # zero-width IOPort as a top-level port
F_FIELDCELL = "F39"   # an Instance or submodule named like the field alias wire of a structured signal (`s.f`, `s[0]`):
                      # `emit_signal_fields` runs before `emit_submodules`/`emit_cells`, the repair of F24 did not see cell names


def esc(s):
    return '"' + s.replace("\\", "\\\\").replace('"', '\\"').replace("\n", "\\n") + '"'


def convert_case(built, emit_src=False):
    from amaranth.back import rtlil
    return rtlil.convert(built.top, ports=built.ports, emit_src=emit_src)


def names_of(built):
    out = [s.name for s in built.pool]
    ports = built.ports
    if isinstance(ports, dict):
        out += list(ports)
    else:
        out += [p[0] for p in ports if isinstance(p, tuple)]
    return out


def design_case(seed, opts):
    """one design of the dedicated generator -> dict"""
    from .. import gen_hier as gen_design
    rng = random.Random(seed)
    hist = {}
    case = {"seed": seed, "opts": opts,
            "stream": opts.get("odd") or ("f25" if opts.get("allow_f25") else "zero_io" if opts.get("zero_io") else
                                          "fieldclash_cells" if opts.get("field_clash_cells") else
                                          "fieldclash" if opts.get("field_clash") else "main")}
    try:
        built = gen_design.gen_design(rng, hist, **opts)
    except Exception as e:
        case["generator_error"] = (errkind(e), repr(e)[:300])
        case["hist"] = hist
        return case
    case["hist"] = hist
    case["names"] = sorted(set(names_of(built)))
    case["shapes"] = [c for c, on in ((F_WINDOW, built.has_f25), (F_ZEROIO, any(len(io) == 0 for io in built.ioports))) if on]
    case["foreign"] = "(foreign " + " ".join(built.foreign) + ")"
    case["io_dup"] = list(built.io_dup_kinds) if built.io_dup else []
    fc = built.field_clash if opts.get("field_clash") else None
    if fc:
        case["field_clash"] = {"signals": [[n, t, sorted(set(sufs))] for n, t, sufs in fc["signals"]],
                               "placed": [list(x) for x in fc["placed"]]}
    # source locations: drawn after the design is complete (the design of a seed does not depend on it)
    case["emit_src"] = rng.random() < 0.5 if opts.get("src_attrs") else False
    hist["emit_src=" + str(case["emit_src"])] = 1
    try:
        case["text"] = convert_case(built, case["emit_src"])
    except Exception as e:
        import traceback
        tb = traceback.extract_tb(e.__traceback__)
        where = f"{os.path.basename(tb[-1].filename)}:{tb[-1].name}" if tb else "?"
        case["error"] = (errkind(e), (str(e) or repr(e))[:300], where)
    if fc and "text" in case:
        for k in fc_realized(case["text"], fc):
            hist["field_clash_realized=" + k] = 1
    return case


def fc_realized(text, fc):
    """which kinds of object carry, in some module of the emitted text, the name of the alias wire of a field of a
    structured signal whose own wire is declared in the same module (diagnostics: the collision really took place).
    `self`: two field paths of the signal itself join to one name"""
    mods, cur = [], None
    for line in text.split("\n"):
        t = line.split()
        if not t:
            continue
        if t[0] == "module":
            cur = {}
            mods.append(cur)
        elif cur is not None and t[0] == "wire":
            cur[t[-1]] = "port" if any(x in ("input", "output", "inout") for x in t[1:-1]) else "wire"
        elif cur is not None and t[0] == "memory":
            cur[t[-1]] = "memory"
        elif cur is not None and t[0] == "cell" and len(t) == 3:
            cur[t[2]] = "cell"
    signals = {nm for kind, nm in fc["placed"] if kind == "signal"}
    out = set()
    for decl in mods:
        for base, _tag, sufs in fc["signals"]:
            if decl.get("\\" + base) not in ("wire", "port"):
                continue
            if len(set(sufs)) < len(sufs):
                out.add("self")
            for suf in set(sufs):
                kind = decl.get("\\" + base + suf)
                if kind in ("memory", "cell", "port"):
                    out.add(kind)
                elif kind == "wire" and base + suf in signals:
                    out.add("signal")
    return sorted(out)


def c02_case(seed):
    """a single-module design from the C02 program generator, every signal a port"""
    from amaranth.hdl import Signal, Module, unsigned
    from amaranth.back import rtlil
    from .. import gen_expr, gen_prog
    rng = random.Random(seed)
    hist = {}
    case = {"seed": seed, "opts": {}, "stream": "c02", "foreign": "(foreign)", "names": []}
    inputs = [Signal(gen_expr.rand_shape(rng, 5), name=f"i{k}") for k in range(rng.randint(2, 4))]
    offs = [Signal(unsigned(rng.randint(0, 3)), name=f"o{k}") for k in range(rng.randint(1, 2))]
    inputs = inputs + offs
    mk = lambda pre, k: Signal(sh := gen_expr.rand_shape(rng, 6), name=f"{pre}{k}", init=gen_expr.rand_value(rng, sh))
    combT = [mk("c", k) for k in range(rng.randint(1, 3))]
    syncT = [mk("s", k) for k in range(rng.randint(1, 3))]
    offc = [s for s in inputs if not s.shape().signed and len(s) <= 3]
    g_comb = gen_expr.Gen(rng, inputs + syncT, maxw=6)
    g_sync = gen_expr.Gen(rng, inputs + syncT + combT, maxw=6)

    class Fresh:
        def __init__(self, tg): self.tg = tg
        def target(self, d):
            self.tg.used = set()
            return self.tg.target(d)
    try:
        items = gen_prog.gen_items(rng, g_comb, g_sync, Fresh(gen_expr.TargetGen(rng, combT, offc, hist=hist)),
                                   Fresh(gen_expr.TargetGen(rng, syncT, offc, hist=hist)), rng.randint(1, 4), hist)
        m = Module()
        gen_prog.build(m, items)
    except Exception as e:
        case["generator_error"] = (errkind(e), repr(e)[:300])
        case["hist"] = hist
        return case
    case["hist"] = {"c02_" + k: v for k, v in hist.items()}
    try:
        case["text"] = rtlil.convert(m, ports=inputs + combT + syncT, emit_src=False)
    except Exception as e:
        case["error"] = (errkind(e), (str(e) or repr(e))[:300], "?")
    return case


def job(args):
    """generate, convert and validate a batch (the Lean driver runs inside the worker, so batches are parallel)"""
    kind, seeds, opts, exe = args
    out = []
    for s in seeds:
        out.append(c02_case(s) if kind == "c02" else design_case(s, opts))
    todo = [c for c in out if "text" in c]
    if todo:
        resps = common.Driver(exe).ask([f"(wf {esc(c['text'])} {c['foreign']})" for c in todo])
        for c, r in zip(todo, resps):
            c["resp"] = r
    return out


def line_of(text, resp):
    """first line of the text the verdict points at (diagnostics)"""
    lines = text.split("\n")
    if resp.get("parse") == "error":
        n = int(resp.get("line", "0"))
        return n, lines[n - 1] if 0 < n <= len(lines) else ""
    item = resp.get("item", "")
    mod = resp.get("module", "")
    start = next((k for k, l in enumerate(lines) if l.strip() == f"module {mod}"), 0)
    m = re.match(r"(cell) (\S+) (\S+)|(wire|name|process) (\S+)", item)
    key = None
    if m:
        key = f"cell {m.group(2)} {m.group(3).rstrip(':')}" if m.group(1) else m.group(5)
    if key:
        for k in range(start, len(lines)):
            if key in lines[k]:
                return k + 1, lines[k]
    return start + 1, lines[start] if lines else ""


def classify(case, what):
    """known findings, by structure of the *input* (never by the outcome alone)"""
    names = case.get("names", [])
    cls = []
    if any("$" in n for n in names):
        cls.append(F_DOLLAR)
    if any(re.search(r"\s", n) for n in names):
        cls.append(F_SPACE)
    if any(("." in n or "[" in n) for n in names) and case.get("opts", {}).get("layouts"):
        cls.append(F_DOT)
    if any(kind in ("instance", "submodule") for kind, _n in (case.get("field_clash") or {}).get("placed", [])):
        cls.append(F_FIELDCELL)
    return cls + case.get("shapes", [])


def report(chk, summary, replay):
    """chk.violation, but a violation without a finding class is never lost to the cap on stored violations"""
    before = len(chk.violations)
    if chk.violation(summary, replay) and len(chk.violations) == before and not replay.get("classes"):
        chk.violations.insert(0, (summary, replay))
        chk.violations.pop()


def judge(chk, case, resp):
    replay = {"design_seed": case["seed"], "stream": case["stream"], "opts": case.get("opts"), "emit_src": case.get("emit_src", False),
              "how": "harness.checks.c07.design_case(design_seed, opts) (c02_case(design_seed) for stream c02)"}
    gen = case["stream"] != "c02"          # a design of gen_hier: conflict-free by construction, but for `io_dup`
    io_dup = case.get("io_dup") or []
    for k, v in case.get("hist", {}).items():
        chk.hist("constructs", k, v)
    if "generator_error" in case:
        chk.hist("outcome", "generator_error:" + case["generator_error"][0])
        chk.extra["generator_errors"] = chk.extra.get("generator_errors", 0) + 1
        chk.extra["generator_error_example"] = case["generator_error"][1]
        return
    chk.count(1)
    if "error" in case:
        kind, msg, where = case["error"]
        if kind == "DriverConflict" and gen:
            if io_dup and IO_CONFLICT.match(msg):
                chk.hist("outcome", "rejected:DriverConflict(I/O port bit used twice, as expected)")
                for k in io_dup:
                    chk.hist("io_dup_refused", k)
                chk.distinct(("io_dup_refused", case["seed"]), True)
                return
            chk.hist("outcome", "refused:DriverConflict(unexpected)")
            report(chk, f"a design in which every signal bit and every I/O port bit has exactly one driver is refused with "
                          f"DriverConflict in {where}: {msg[:140]} (stream {case['stream']}, design seed {case['seed']})",
                          dict(replay, kind="refused", error=[kind, msg, where], io_dup=io_dup, names=case.get("names"),
                               classes=classify(case, "refused")))
            return
        if kind in REJECTIONS:
            chk.hist("outcome", "rejected:" + kind)
            return
        chk.hist("outcome", "raises:" + kind)
        report(chk, f"rtlil.convert of an elaboratable design raises {kind} in {where}: {msg[:120]} "
                      f"(stream {case['stream']}, design seed {case['seed']})",
                      dict(replay, kind="raises", error=[kind, msg, where], names=case.get("names"), classes=classify(case, "raises"),
                           **({"field_clash": case["field_clash"]} if case.get("field_clash") else {})))
        return
    text = case["text"]
    d = dict(tok.split("=", 1) for tok in resp.split("\t") if "=" in tok)
    if d.get("parse") == "error":
        ln, src = line_of(text, d)
        chk.hist("outcome", "parse_error")
        report(chk, f"emitted RTLIL does not parse: line {ln} `{src.strip()[:100]}` ({d.get('msg')}) "
                      f"(stream {case['stream']}, design seed {case['seed']})",
                      dict(replay, kind="parse", line=ln, source=src, msg=d.get("msg"), names=case.get("names"),
                           classes=classify(case, "parse")))
        return
    if d.get("parse") != "ok":
        chk.not_shown("driver could not read a request", {"response": resp[:300], "replay": replay})
        return
    if d.get("roundtrip") != "ok":
        chk.not_shown("parse(print(parse text)) differs from parse text (reader/printer self-test)", replay)
    if d.get("wf") == "fail":
        ln, src = line_of(text, d)
        chk.hist("outcome", "wf_fail:" + d.get("clause", "?"))
        report(chk, f"emitted RTLIL is not well-formed: clause {d.get('clause')} in module {d.get('module')}: {d.get('item')} "
                      f"(line {ln} `{src.strip()[:80]}`; stream {case['stream']}, design seed {case['seed']})",
                      dict(replay, kind="wf", clause=d.get("clause"), module=d.get("module"), item=d.get("item"), line=ln,
                           source=src, names=case.get("names"), classes=classify(case, "wf")))
        return
    if d.get("instances", "ok") != "ok":
        ty, _, n = d["instances"].rpartition(":")
        chk.hist("outcome", "instance_count")
        report(chk, f"foreign instance of type {ty} occurs {n} times in the emitted RTLIL, expected exactly once "
                      f"(stream {case['stream']}, design seed {case['seed']})",
                      dict(replay, kind="instances", type=ty, count=n, names=case.get("names"), classes=[]))
        return
    if io_dup:
        # well-formed all the same (the repeated bit is only read, or the port is bidirectional), but the refusal
        # the emitter relies on for "one driver per I/O port bit" did not happen
        chk.hist("outcome", "io_dup_converted")
        for k in io_dup:
            chk.hist("io_dup_converted", k)
        chk.not_shown("a design that uses a bit of an I/O port twice is converted instead of refused (the emitted document "
                      "is well-formed: the repeated bit is not driven twice)", dict(replay, io_dup=io_dup))
        return
    chk.hist("outcome", "ok")
    chk.hist("outcome_by_emit_src", f"ok emit_src={case.get('emit_src', False)}")
    chk.hist("modules_emitted", d.get("modules"))
    nontrivial = int(d.get("cells", "0")) + int(d.get("procs", "0")) > 0
    chk.distinct(text, nontrivial)
    if nontrivial and case["stream"] == "main":
        chk.sample({"design_seed": case["seed"], "modules": d.get("modules"), "wires": d.get("wires"), "cells": d.get("cells"),
                    "procs": d.get("procs"), "text_head": text[:300]}, limit=3)


def witness_f19(chk):
    """the recorded witness of F19 is replayed on every run: `a`, `a$3`, `a` in one module"""
    from amaranth.hdl import Signal, Module, Cat
    from amaranth.back import rtlil
    m = Module()
    s1, s2, s3, o = Signal(name="a"), Signal(name="a$3"), Signal(name="a"), Signal(3, name="o")
    m.d.comb += o.eq(Cat(s1, s2, s3))
    try:
        rtlil.convert(m, ports=[o], emit_src=False)
        chk.extra["f19_witness"] = "converts (no longer fails)"
    except Exception as e:
        chk.extra["f19_witness"] = "raises " + errkind(e)
        chk.violation("signals named `a`, `a$3`, `a` in one module: rtlil.convert raises " + errkind(e) + " in _add_name",
                      {"kind": "raises", "witness": "prelim/repro/c07_add_name_collision.py", "names": ["a", "a$3", "a"],
                       "classes": [F_DOLLAR]})


def observations(chk):
    """four behaviours of the unchanged tree that the text of the property does not clearly decide: replayed on every run
    and written to the evidence (`coverage.observations`); none of them is judged (never a violation)"""
    from amaranth.hdl import Signal, Module, IOPort, IOBufferInstance, ClockSignal, Fragment, Elaboratable
    from amaranth.back import rtlil
    obs = {}
    # (a) a top-level IOPort of which only a part is used, as an output: the port wire is the whole IOPort
    #     (`_compute_io_ports`: "each IOPort is added in its entirety") and its unused bits have no driver
    try:
        m = Module()
        pins, x = IOPort(4, name="pins"), Signal(name="x")
        m.submodules += IOBufferInstance(pins[3], o=x)
        text = rtlil.convert(m, ports=[pins, x], emit_src=False)
        r = dict(tok.split("=", 1) for tok in chk.driver.ask([f"(wf {esc(text)} (foreign))"])[0].split("\t") if "=" in tok)
        obs["partially_used_output_ioport"] = ("IOBufferInstance(pins[3], o=x) on IOPort(4): " +
                                               (f"wf=fail {r.get('clause')}: {r.get('item')}" if r.get("wf") == "fail" else f"wf={r.get('wf')}"))
        if r.get("wf") == "fail":
            # recorded finding F38 (known_findings.txt): read literally this breaks "every wire bit ... has exactly one
            # driver"; the generator completes partial uses, so only this witness shape is classified
            chk.violation(f"partially used top-level output IOPort: clause {r.get('clause')}: {r.get('item')}",
                          dict(stream="observation", design="IOBufferInstance(pins[3], o=x) on IOPort(4), ports=[pins, x]",
                               text=text, classes=["F38"] if (r.get("clause") == "exactly-one-driver" and "\\pins" in str(r.get("item"))
                                                             and "0 drivers" in str(r.get("item"))) else []))
    except Exception as e:
        obs["partially_used_output_ioport"] = "raises " + errkind(e)
    # (b) ClockSignal() listed in ports= while the `sync` domain is created automatically: clk becomes an input port twice
    try:
        m = Module()
        s = Signal(4, name="s")
        m.d.sync += s.eq(s + 1)
        rtlil.convert(m, ports=[s, ClockSignal()], emit_src=False)
        obs["clocksignal_port_of_auto_domain"] = "converts"
    except Exception as e:
        obs["clocksignal_port_of_auto_domain"] = f"raises {errkind(e)}: {str(e).split(':')[0]}"
    # (c) an Elaboratable whose elaborate() returns one stored Fragment: Fragment.get prepends to its `origins` every time
    try:
        f = Fragment()

        class Stored(Elaboratable):
            def elaborate(self, platform):
                return f
        e = Stored()
        lens = []
        for _ in range(3):
            Fragment.get(e, None)
            lens.append(len(f.origins))
        try:
            rtlil.convert(e, ports=[], emit_src=False)
            second = "converts"
        except Exception as ex:
            second = "raises " + errkind(ex)
        obs["stored_fragment_origins"] = f"len(origins) after 1, 2, 3 Fragment.get: {lens}; rtlil.convert afterwards {second}"
    except Exception as e:
        obs["stored_fragment_origins"] = "raises " + errkind(e)
    # (d) a negative integer *attribute* of an Instance: RTLIL has no `signed` marker for attributes (parameters have one), the
    #     value is emitted as its two's complement of max(32, needed) bits, so -7 and 2**32-7 (and -(1<<40) and 1<<40) give
    #     the same text: the bit vector is exactly the given value's, the integer is determined only modulo 2**width
    try:
        from amaranth.hdl import Instance
        lines = {}
        for tag, v in (("-7", -7), ("2**32-7", 2 ** 32 - 7), ("-(1<<40)", -(1 << 40)), ("1<<40", 1 << 40)):
            m = Module()
            o = Signal(name="o")
            m.submodules.u = Instance("ext", a_weight=v, p_weight=v, o_o=o)
            text = rtlil.convert(m, ports=[o], emit_src=False)
            lines[tag] = [l.strip() for l in text.split("\n") if "\\weight" in l]
        obs["negative_int_attribute"] = (
            f"a_weight=-7 -> `{lines['-7'][0]}` (parameter: `{lines['-7'][1]}`); same attribute text as a_weight=2**32-7: "
            f"{lines['-7'][0] == lines['2**32-7'][0]}; a_weight=-(1<<40) same attribute text as a_weight=1<<40: "
            f"{lines['-(1<<40)'][0] == lines['1<<40'][0]}; the parameter texts differ: "
            f"{lines['-7'][1] != lines['2**32-7'][1] and lines['-(1<<40)'][1] != lines['1<<40'][1]}")
    except Exception as e:
        obs["negative_int_attribute"] = "raises " + errkind(e)
    chk.extra["observations"] = obs


def run(chk):
    if not chk.lean():
        chk.not_shown("Lean build of Properties/C07 failed", chk.build_log[-3000:])
        return
    rng = chk.rng
    quick = chk.tier == "quick"
    n_main = 1400 if quick else 16000
    n_c02 = 300 if quick else 3000
    n_odd = 120 if quick else 1000
    n_fc = 200 if quick else 2000
    base = dict(instances=True, memories=True, iobufs=True, layouts=True, io_cat=True, src_attrs=True)
    plan = [("design", n_main, dict(base)),
            ("design", n_odd, dict(base, odd="dollar")),
            ("design", n_odd, dict(base, odd="space")),
            ("design", n_odd, dict(base, odd="dot")),
            ("design", n_odd, dict(base, allow_f25=True)),
            ("design", n_odd, dict(base, zero_io=True)),
            ("c02", n_c02, {}),
            # appended after the older streams: their design seeds are the ones they always had
            ("design", n_fc, dict(base, field_clash=True)),
            ("design", n_odd, dict(base, field_clash=True, field_clash_cells=True))]
    args = []
    for kind, n, opts in plan:
        seeds = [rng.getrandbits(48) for _ in range(n)]
        for k in range(0, n, 25):
            args.append((kind, seeds[k:k + 25], opts, EXE))
    witness_f19(chk)
    observations(chk)
    with ProcessPoolExecutor(max_workers=min(16, os.cpu_count() or 4)) as ex:
        for cases in ex.map(job, args, chunksize=1):
            for c in cases:
                judge(chk, c, c.get("resp"))
    if chk.extra.get("generator_errors", 0) > 0.05 * sum(n for _k, n, _o in plan):
        chk.not_shown("the design generator itself fails on more than 5% of the seeds (nothing is being checked)",
                      {"generator_errors": chk.extra["generator_errors"], "example": chk.extra.get("generator_error_example")})
    chk.cov["rule"] = (
        "whole designs: module trees of depth <= 4 (1-8 modules, a quarter of them empty, at top/inner/leaf positions), a pool of "
        "3-11 signals with names drawn with replacement from 12 names shared with ports, submodules, clock and reset signals, "
        "private names, zero-width, unused, undriven and partially driven signals, per-bit owners in different modules and "
        "domains, reads from every module (routing through ancestors, descendants, siblings), 1-3 clock domains, memories with "
        "sync/comb/transparent read ports and granular write ports, Instances with int/big/negative/str/float/Const "
        "parameters and attributes (an attribute literally named `src` on two fifths of the generic instances), IOPorts with I/O buffers, "
        "I/O buffers and instance ports on concatenations of slices of one or two IOPorts (split, swapped, bit by bit, a part and "
        "separately the rest; in a tenth of the designs one bit twice inside the value or in two uses: these must be refused, "
        "all others must convert), lib.data structured signals, ports given as list, dict or tuples, half of the designs "
        "converted with emit_src=True; plus single-module designs of the C02 program generator; plus three streams with odd user names "
        "(x$k, white space, dotted) and two streams with the constructs of recorded findings (array-element targets shorter than "
        "the array under a part-select, zero-width IOPorts); plus a stream in which 1-3 more structured signals (struct, array, "
        "array of struct, array of array, nested, union, flexible layouts, zero-width and enumeration fields, layouts two of whose "
        "own field paths join to one name) meet memories, I/O ports, top-level ports and other signals named like the alias wires "
        "of their fields (sig.f, sig.f.g, sig[0], sig[0].f, sig[0][1]) inside a module that reads the structured signal "
        "(distribution.constructs field_clash_*; field_clash_realized=<kind> counts the designs whose emitted text declares such "
        "a name as memory / port / signal wire / cell next to the structured signal's own wire); a further "
        "stream names Instances and submodules that way as well. distinct = distinct emitted text; non-trivial = the document has a cell or process")
    chk.extra["programs"] = chk.cov["evaluations"]
    chk.extra["disagreements_checked"] = chk.cov["evaluations"]
    chk.extra["trusted_base"] = [
        "the RTLIL grammar subset and the port/parameter table of the Yosys internal cell library as transcribed in "
        "Model/Rtlil/Parse.lean and Spec/RtlilWF.lean (no Yosys in the sandbox to cross-check)"]
    chk.assumptions += [
        "universality over designs is sampled (translation validation); soundness of the validator is proved (wf_sound)",
        "the expected type/parameters/attributes/ports of foreign instances are computed by the harness from the Python values",
        "a generated source location (`src`) on a foreign cell is not compared; a given attribute named `src` is (wf_src_sound)",
        "a DriverConflict is a legitimate refusal only for a design of the generator that uses an I/O port bit twice; the generator "
        "gives every other bit of every signal and port exactly one owner, so any other DriverConflict is reported",
        "declaration-before-use order of wires inside a module is not checked (the reader collects items by kind)",
        "a field alias wire that gives way to another object of its name is not required to exist (aliases are debugging aids)"]
