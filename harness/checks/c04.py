"""C04 - emitted RTLIL is behaviourally equivalent to the simulated design.

Translation validation: a whole design is built twice from one seed; one copy is converted to RTLIL
(`back.rtlil.convert_fragment` on the prepared `Design`, explicit ports), the other is simulated with the real
`Simulator` under a random stimulus of hand-driven clock edges (also coincident ones), reset changes and input
changes; the text and the stimulus go to the Lean evaluator (`Model/Rtlil/{Parse,WF,Eval,Cells}`), which returns
the value of every named signal after the initial settle and after every event; the two traces are compared.
"""
import os
import random
from concurrent.futures import ProcessPoolExecutor

from .. import common
from ..common import errkind

LEVEL = "translation_validation"
EXE = "amodel_c04"

REJECTIONS = {"DriverConflict", "CombinationalCycle", "DomainError", "NameError", "other:DuplicateElaboratable",
              "other:DomainRequirementFailed"}
F_ALIAS = "F9"       # simulator loses a write through an aliased concatenation under a slice/part-select
F_WINDOW = "F25"     # (fixed) emit_assign window not clipped at a short array element
F_DUPTF = "F29"      # a write port listed twice in transparent_for: TRANSPARENCY_MASK built with sum() instead of |
F_SPART = "F27"      # part-select of a signed value: `$shift` shifts zeros in above max(A_WIDTH, Y_WIDTH), the simulator the sign


def has_signed_part(fragment):
    """structural classifier of F27: some right-hand side contains a part-select (non-constant offset) of a signed value
    whose window can reach beyond max(len(value), width) bits"""
    from amaranth.hdl import _ast as A

    def val(v):
        if isinstance(v, A.Part):
            reach = ((1 << len(v.offset)) - 1) * v.stride + v.width
            return ((v.value.shape().signed and reach > max(len(v.value), v.width))
                    or val(v.value) or val(v.offset))
        if isinstance(v, A.Operator):
            return any(val(o) for o in v.operands)
        if isinstance(v, A.Slice):
            return val(v.value)
        if isinstance(v, A.Concat):
            return any(val(p) for p in v.parts)
        if isinstance(v, A.SwitchValue):
            return val(v.test) or any(val(e) for _p, e in v.cases)
        return False

    def lhs(v):
        # on the left only offsets and array indices are read
        if isinstance(v, A.Part):
            return val(v.offset) or lhs(v.value)
        if isinstance(v, A.Slice):
            return lhs(v.value)
        if isinstance(v, A.Concat):
            return any(lhs(p) for p in v.parts)
        if isinstance(v, A.SwitchValue):
            return val(v.test) or any(lhs(e) for _p, e in v.cases)
        if isinstance(v, A.Operator):
            return any(lhs(o) for o in v.operands)
        return False

    def stmts(ss):
        for st in ss:
            if isinstance(st, A.Assign):
                if val(st.rhs) or lhs(st.lhs):
                    return True
            elif isinstance(st, A.Switch):
                if val(st.test) or any(stmts(body) for _p, body, _l in st.cases):
                    return True
        return False

    def frag(f):
        if any(stmts(ss) for ss in f.statements.values()):
            return True
        return any(frag(sf) for sf, _n, _l in f.subfragments if hasattr(sf, "statements"))
    return frag(fragment)


def esc(s):
    return '"' + s.replace("\\", "\\\\").replace('"', '\\"').replace("\n", "\\n") + '"'


def ops_design(rng, hist):
    """the operator grid: one flat module whose outputs are single operators applied to operands of every form the
    emitter treats specially when it shortens operands — plain signals of both signednesses, literals (every value of
    small widths: repeated top bits, all ones, zero), operands whose top nets coincide (`Cat(x, x[-1])`, sign
    extensions), zero-width operands — with the operand forms crossed per operator"""
    from amaranth.hdl import Signal, Module, ClockDomain, Const, Cat, signed, unsigned
    from .. import gen_hier
    import operator as O
    b = gen_hier.Built()
    m = Module()
    cd = ClockDomain("sync")
    m.domains += cd
    b.domains = [("sync", cd, "pos", "sync")]
    au = Signal(unsigned(rng.randint(1, 6)), name="au", init=rng.randint(0, 1))
    as_ = Signal(signed(rng.randint(1, 6)), name="as", init=-1)
    n = Signal(unsigned(rng.randint(1, 3)), name="n")
    ns = Signal(signed(rng.randint(1, 3)), name="ns")
    ins = [au, as_, n, ns]

    def operand(kind):
        if kind == "sig":
            return rng.choice(ins)
        if kind == "const":
            w = rng.randint(0, 4)
            sg = rng.random() < 0.4 and w > 0
            v = rng.randint(-(1 << (w - 1)), (1 << (w - 1)) - 1) if sg else (rng.randint(0, (1 << w) - 1) if w else 0)
            return Const(v, signed(w) if sg else unsigned(w))
        if kind == "dup":
            x = rng.choice(ins)
            return Cat(x, x[-1]) if rng.random() < 0.6 else Cat(x, x[-1], x[-1])
        if kind == "dup_s":
            x = rng.choice(ins)
            return Cat(x, x[-1]).as_signed()
        if kind == "ext":
            x = rng.choice(ins)
            return (x + Const(0, signed(1) if x.shape().signed else unsigned(1)))   # widened by one position
        return Const(0, unsigned(0))
    kinds = ["sig", "sig", "const", "const", "dup", "dup_s", "ext", "empty"]
    binops = [("+", O.add), ("-", O.sub), ("*", O.mul), ("//", O.floordiv), ("%", O.mod), ("==", O.eq), ("!=", O.ne),
              ("<", O.lt), ("<=", O.le), (">", O.gt), (">=", O.ge), ("&", O.and_), ("|", O.or_), ("^", O.xor),
              ("<<", O.lshift), (">>", O.rshift), (">>", O.rshift)]
    pool = list(ins)
    roles = ["input"] * len(ins)
    for k in range(rng.randint(6, 14)):
        name, fn = rng.choice(binops)
        ka, kb = rng.choice(kinds), rng.choice(kinds)
        a, bb = operand(ka), operand(kb)
        if name in ("<<", ">>"):
            if bb.shape().signed:
                bb = bb.as_unsigned()
            if name == "<<" and len(bb) > 3:
                bb = bb[:3]
        try:
            e = fn(a, bb)
        except Exception:
            continue
        hist[f"grid:{name}:{'s' if a.shape().signed else 'u'}{'s' if bb.shape().signed else 'u'}:{ka}/{kb}"] = 1
        o = Signal(e.shape(), name=f"o{k}")
        if rng.random() < 0.8:
            m.d.comb += o.eq(e)
        else:
            m.d.sync += o.eq(e)
        pool.append(o); roles.append("driven")
    b.top, b.pool, b.mem_obs = m, pool, []
    b.ports = [s for s in pool] + [cd.clk, cd.rst]
    b.has_f9 = b.has_f25 = b.has_dup_tf = False
    b.n_leaves = len(pool) - len(ins)
    b.foreign, b.inputs, b.ioports, b.roles, b.ranges = [], ins, [], roles, {}
    return b


def mem_design(rng, hist):
    """the memory grid: one small memory whose port signals are top-level inputs, so that the stimulus makes reads and
    writes of the same row coincide all the time: 1-3 write ports (mostly one domain, optional granularity), 1-2 read
    ports (combinational, or synchronous with a transparency set that is any subset of the write ports of its domain,
    in any order)"""
    from amaranth.hdl import Signal, Module, ClockDomain, signed, unsigned
    from amaranth.lib.memory import Memory
    from .. import gen_hier, gen_expr
    b = gen_hier.Built()
    m = Module()
    kinds = [rng.choice(["sync", "sync", "none", "async"])] + ([rng.choice(["sync", "none"])] if rng.random() < 0.35 else [])
    b.domains = []
    for k, kind in enumerate(kinds):
        name = ["sync", "d1"][k]
        cd = ClockDomain(name, clk_edge=rng.choice(["pos", "pos", "neg"]), reset_less=(kind == "none"), async_reset=(kind == "async"))
        m.domains += cd
        b.domains.append((name, cd, cd.clk_edge, kind))
    w = rng.randint(1, 6)
    gran = w // 2 if (w % 2 == 0 and rng.random() < 0.4) else None
    depth = rng.choice([1, 2, 2, 3, 4])
    shape = unsigned(w) if gran or rng.random() < 0.7 else signed(w)
    mem = Memory(shape=shape, depth=depth, init=[gen_expr.rand_value(rng, shape) for _ in range(rng.randint(0, depth))])
    m.submodules.mem = mem
    pool, wps = [], []
    for k in range(rng.randint(1, 3)):
        di = 0 if rng.random() < 0.8 else rng.randrange(len(kinds))
        wp = mem.write_port(domain=b.domains[di][0], granularity=gran)
        ins = [Signal(len(wp.addr), name=f"wa{k}"), Signal(shape, name=f"wd{k}"), Signal(len(wp.en), name=f"we{k}")]
        m.d.comb += [wp.addr.eq(ins[0]), wp.data.eq(ins[1]), wp.en.eq(ins[2])]
        pool += ins
        wps.append((wp, di))
    hist[f"memgrid:write_ports={len(wps)}"] = 1
    b.mem_obs = []
    outs = []
    for k in range(rng.randint(1, 2)):
        if rng.random() < 0.25:
            rp = mem.read_port(domain="comb")
            ra = Signal(len(rp.addr), name=f"ra{k}")
            m.d.comb += rp.addr.eq(ra)
            pool.append(ra)
            hist["memgrid:read_comb"] = 1
        else:
            di = 0 if rng.random() < 0.8 else rng.randrange(len(kinds))
            same = [wp for wp, dj in wps if dj == di]
            tf = [wp for wp in same if rng.random() < 0.7]
            rng.shuffle(tf)
            rp = mem.read_port(domain=b.domains[di][0], transparent_for=tuple(tf))
            ra, re = Signal(len(rp.addr), name=f"ra{k}"), Signal(1, name=f"re{k}", init=1)
            m.d.comb += [rp.addr.eq(ra), rp.en.eq(re)]
            pool += [ra, re]
            hist[f"memgrid:read_sync_transparent_for={len(tf)}of{len(same)}"] = 1
        out = Signal(shape, name=f"rd{k}")
        m.d.comb += out.eq(rp.data)
        outs.append(out)
    pool += outs
    b.top, b.pool = m, pool
    b.ports = list(pool) + [s for _n, cd, _e, kind in b.domains for s in ([cd.clk] + ([cd.rst] if kind != "none" else []))]
    b.has_f9 = b.has_f25 = b.has_dup_tf = False
    b.n_leaves = 0
    b.foreign, b.inputs, b.ioports, b.ranges = [], pool[:len(pool) - len(outs)], [], {}
    b.roles = ["input"] * (len(pool) - len(outs)) + ["driven"] * len(outs)
    return b


def build(seed, opts, drop=frozenset()):
    from .. import gen_hier as gen_design
    rng = random.Random(seed)
    hist = {}
    if opts.get("ops_grid"):
        return ops_design(rng, hist), hist, rng
    if opts.get("mem_grid"):
        return mem_design(rng, hist), hist, rng
    b = gen_design.gen_design(rng, hist, instances=False, iobufs=False, all_ports=True, drop=drop, **opts)
    return b, hist, rng


def make_stimulus(rng, b, drive, n_events):
    """events: lists of (kind, index, value); kind 'in' = pool input, 'clk'/'rst' = domain signal"""
    from .. import gen_expr
    clk = [0] * len(b.domains)
    rst = [0] * len(b.domains)
    events = []
    for _ in range(n_events):
        r = rng.random()
        if r < 0.5 or not (drive or any(k != "none" for _n, _c, _e, k in b.domains)):
            # clock event: a non-empty set of domains toggles (coincident edges included)
            ds = [d for d in range(len(b.domains)) if rng.random() < 0.5] or [rng.randrange(len(b.domains))]
            ev = []
            for d in ds:
                clk[d] ^= 1
                ev.append(("clk", d, clk[d]))
            events.append(ev)
        else:
            ev = []
            for i in drive:
                if rng.random() < 0.5:
                    ev.append(("in", i, gen_expr.rand_value(rng, b.pool[i].shape())))
            for d, (_n, _cd, _e, kind) in enumerate(b.domains):
                if kind != "none" and rng.random() < 0.25:
                    rst[d] ^= 1
                    ev.append(("rst", d, rst[d]))
            if not ev:
                d = rng.randrange(len(b.domains))
                clk[d] ^= 1
                ev.append(("clk", d, clk[d]))
            events.append(ev)
    return events


def simulate(b, events, observed, observed_mem=()):
    from amaranth.hdl import Cat
    from amaranth.sim import Simulator
    sim = Simulator(b.top)
    rows = []

    def sig_of(kind, i):
        if kind == "in":
            return b.pool[i]
        return b.domains[i][1].clk if kind == "clk" else b.domains[i][1].rst

    async def tb(ctx):
        def obs():
            rows.append([ctx.get(b.pool[i]) & ((1 << len(b.pool[i])) - 1) for i in observed]
                        + [ctx.get(b.mem_obs[j]) & ((1 << len(b.mem_obs[j])) - 1) for j in observed_mem])
        obs()
        for ev in events:
            sigs = [sig_of(k, i) for k, i, _v in ev]
            packed = 0
            pos = 0
            for (k, i, v), s in zip(ev, sigs):
                packed |= (v & ((1 << len(s)) - 1)) << pos
                pos += len(s)
            ctx.set(Cat(*sigs), packed)
            obs()
    sim.add_testbench(tb)
    sim.run()
    return rows


def design_case(seed, opts, n_events=None, drop=frozenset(), events=None):
    """-> dict with the request for the Lean evaluator and the simulator's trace.
    `drop`: assignment leaves left out of the design; `events`: a fixed stimulus (both used when minimising)"""
    from amaranth.hdl import Fragment
    from amaranth.back import rtlil
    case = {"seed": seed, "opts": opts,
            "stream": "ops" if opts.get("ops_grid") else "mem" if opts.get("mem_grid") else "f9" if opts.get("allow_f9") else "f25" if opts.get("allow_f25") else "dup_tf" if opts.get("dup_tf") else "main"}
    try:
        b1, hist, _ = build(seed, opts, drop)
        b2, _h, rng = build(seed, opts, drop)
    except Exception as e:
        case["generator_error"] = (errkind(e), repr(e)[:300])
        case["hist"] = {}
        return case
    case["hist"] = hist
    case["shapes"] = [c for c, on in ((F_ALIAS, b1.has_f9), (F_WINDOW, b1.has_f25), (F_DUPTF, b1.has_dup_tf)) if on]
    try:
        top_fragment = Fragment.get(b1.top, None)
        if has_signed_part(top_fragment):
            case["shapes"].append(F_SPART)
        design = top_fragment.prepare(ports=b1.ports, hierarchy=("top",))
        port_name = {id(sig): name for name, sig, _dir in design.ports}
        text, name_map = rtlil.convert_fragment(design, name="top", emit_src=False)
    except Exception as e:
        import traceback
        tb = traceback.extract_tb(e.__traceback__)
        where = f"{os.path.basename(tb[-1].filename)}:{tb[-1].name}" if tb else "?"
        case["error"] = (errkind(e), (str(e) or repr(e))[:300], where)
        return case
    case["text"] = text
    # observation points: every pool signal that has a wire somewhere
    observed, points = [], []
    for i, s in enumerate(b1.pool):
        if s in name_map:
            path = name_map[s]
            observed.append(i)
            points.append(" ".join("\\" + x for x in path[1:]))
    # ... and the data outputs of memory read ports
    observed_mem = []
    for j, s in enumerate(b1.mem_obs):
        if s in name_map:
            observed_mem.append(j)
            points.append(" ".join("\\" + x for x in name_map[s][1:]))
    # inputs that are top-level ports can be driven
    # (a signal with an owner for which the statement generator produced no assignment is an input too, so the
    # direction is read off the emitted top module)
    import re
    top_text = text.split("\nend\n", 1)[0]
    input_wires = set(re.findall(r"^  wire width \d+ input \d+\s+(?:signed )?\\(\S+)$", top_text, flags=re.M))
    # ... and a signal that occurs on a left-hand side at all (even if every assignment to it falls outside of it) is
    # a driven signal for the simulator: it is not driven from the testbench either
    lhs_ids = set()

    def collect_lhs(f):
        for ss in getattr(f, "statements", {}).values():
            for st in ss:
                for sig in st._lhs_signals():
                    lhs_ids.add(id(sig))
        for sf, _n, _l in f.subfragments:
            collect_lhs(sf)
    collect_lhs(top_fragment)
    drive = [i for i, s in enumerate(b1.pool)
             if id(s) in port_name and port_name[id(s)] in input_wires and id(s) not in lhs_ids]
    if events is None:
        events = make_stimulus(rng, b1, drive, n_events if n_events is not None else rng.randint(5, 40))
    case["n_leaves"] = b1.n_leaves
    # every top-level input starts at the initial value of its signal (also those that are never driven later)
    init = [("\\" + port_name[id(s)], s.init & ((1 << len(s)) - 1)) for s in b1.pool
            if id(s) in port_name and port_name[id(s)] in input_wires]

    def wire_of(kind, i):
        if kind == "in":
            return "\\" + port_name[id(b1.pool[i])]
        cd = b1.domains[i][1]
        return "\\" + port_name[id(cd.clk if kind == "clk" else cd.rst)]
    for _n, cd, _e, kind in b1.domains:
        init.append(("\\" + port_name[id(cd.clk)], 0))
        if kind != "none":
            init.append(("\\" + port_name[id(cd.rst)], 0))
    ev_s = " ".join("(" + " ".join(f"({esc(wire_of(k, i))} {v & ((1 << len(b1.pool[i])) - 1) if k == 'in' else v})" for k, i, v in ev) + ")"
                    for ev in events)
    case["request"] = (f"(run {esc(text)} (init {' '.join(f'({esc(n)} {v})' for n, v in init)}) (events {ev_s}) "
                       f"(obs {' '.join(esc(p) for p in points)}))")
    case["events"] = events
    case["points"] = points
    case["observed_names"] = [b1.pool[i].name for i in observed] + [b1.mem_obs[j].name for j in observed_mem]
    case["async"] = [k for _n, _c, _e, k in b1.domains]
    try:
        case["sim"] = simulate(b2, events, observed, observed_mem)
    except Exception as e:
        case["sim_error"] = (errkind(e), (str(e) or repr(e))[:300])
    return case


def job(args):
    seeds, opts, exe = args
    out = [design_case(s, opts) for s in seeds]
    todo = [c for c in out if "request" in c and "sim" in c]
    if todo:
        resps = common.Driver(exe).ask([c["request"] for c in todo])
        for c, r in zip(todo, resps):
            c["resp"] = r
            if not c.get("shapes"):
                del c["request"]
    return out


def first_mismatch(case, resp):
    """(event index, observation index) of the first disagreement, None if the traces agree, "reject" if no trace"""
    d = dict(tok.split("=", 1) for tok in resp.split("\t") if "=" in tok)
    if d.get("eval") != "ok":
        return "reject"
    model, sim = parse_rows(d["trace"]), case["sim"]
    model1 = parse_rows(d["trace1"]) if d.get("xdep") == "1" else model
    stop = int(d.get("collide", "-1"))
    for t, (mr, m1, sr) in enumerate(zip(model, model1, sim)):
        if 0 <= stop <= t:
            break
        for j in range(len(sr)):
            if mr[j] == m1[j] and mr[j] != sr[j]:
                return t, j
    return None


def minimise(seed, opts, events, exe=EXE, budget=160):
    """cheap minimisation of a disagreeing case: the stimulus is already cut after the first disagreeing event; here
    assignment leaves are dropped (halves, quarters, ... single leaves) as long as some observed signal still disagrees"""
    drv = common.Driver(exe)

    def fails(drop):
        c = design_case(seed, opts, drop=frozenset(drop), events=events)
        if "request" not in c or "sim" not in c:
            return None
        mm = first_mismatch(c, drv.ask([c["request"]])[0])
        return c if isinstance(mm, tuple) else None
    base = fails(set())
    if base is None:
        return None
    n = base["n_leaves"]
    drop, best = set(), base
    size = max(1, n // 2)
    trials = 0
    while size >= 1 and trials < budget:
        changed = False
        for start in range(0, n, size):
            chunk = {k for k in range(start, min(n, start + size)) if k not in drop}
            if not chunk:
                continue
            trials += 1
            c = fails(drop | chunk)
            if c is not None:
                drop |= chunk
                best = c
                changed = True
            if trials >= budget:
                break
        if not changed or size == 1:
            size //= 2 if size > 1 else 2
            if size == 0:
                break
    best["dropped"] = sorted(drop)
    return best


def report(chk, summary, replay):
    """chk.violation, but a violation without a finding class is never lost to the cap on stored violations"""
    before = len(chk.violations)
    if chk.violation(summary, replay) and len(chk.violations) == before and not replay.get("classes"):
        chk.violations.insert(0, (summary, replay))
        chk.violations.pop()


def parse_rows(s):
    return [[int(x) for x in row.split(",")] if row else [] for row in s.split(";")]


def attribute(chk, case, t, k):
    """which recorded finding, if any, explains the disagreement of observation `k` after event `t`?
    A design merely *containing* the shape of a finding explains nothing by itself:
    * F27 (`$shift` of a signed operand zero-fills, the simulator reads the sign): the RTLIL is evaluated once more with
      that one cell read as an arithmetic shift; the finding explains the disagreement iff this reading gives the
      simulator's value for that observation;
    * F9 (the simulator loses a write through an aliased concatenation): the design is rebuilt without the assignments
      whose target has that shape, with the same stimulus; the finding explains the disagreement iff the two sides
      then agree on that observation at that event.
    Returns the list of classes that explain it (empty: a violation of its own)."""
    shapes = case.get("shapes", [])
    out = []
    if F_SPART in shapes and "request" in case:
        if "alt27" not in case:
            resp = common.Driver(EXE).ask(["(run27" + case["request"][len("(run"):]])[0]
            d = dict(tok.split("=", 1) for tok in resp.split("\t") if "=" in tok)
            case["alt27"] = parse_rows(d["trace"]) if d.get("eval") == "ok" else None
        alt = case["alt27"]
        if alt is not None and t < len(alt) and alt[t][k] == case["sim"][t][k]:
            out.append(F_SPART)
    if F_ALIAS in shapes and not out:
        try:
            b, _h, _r = build(case["seed"], case["opts"])
            leaves = getattr(b, "f9_leaves", None)
            if leaves:
                c2 = design_case(case["seed"], case["opts"], drop=frozenset(leaves), events=case["events"][:t])
                if "request" in c2 and "sim" in c2 and case["points"][k] in c2["points"]:
                    k2 = c2["points"].index(case["points"][k])
                    resp = common.Driver(EXE).ask([c2["request"]])[0]
                    d = dict(tok.split("=", 1) for tok in resp.split("\t") if "=" in tok)
                    if d.get("eval") == "ok":
                        m2 = parse_rows(d["trace"])
                        if t < len(m2) and t < len(c2["sim"]) and m2[t][k2] == c2["sim"][t][k2]:
                            out.append(F_ALIAS)
        except Exception as e:                      # attribution is best effort; failing to attribute means reporting
            chk.hist("outcome", "attribution_error:" + errkind(e))
    # the remaining (repaired) classes are kept as they were: they suppress nothing
    out += [c for c in shapes if c in (F_WINDOW, F_DUPTF)]
    return out


def judge(chk, case):
    replay = {"design_seed": case["seed"], "stream": case["stream"], "opts": case.get("opts"),
              "how": "harness.checks.c04.design_case(design_seed, opts) rebuilds the design, the RTLIL text, the stimulus "
                     "(events) and the simulator trace"}
    for k, v in case.get("hist", {}).items():
        chk.hist("constructs", k, v)
    if "generator_error" in case:
        chk.hist("outcome", "generator_error:" + case["generator_error"][0])
        chk.extra["generator_errors"] = chk.extra.get("generator_errors", 0) + 1
        chk.extra["generator_error_example"] = case["generator_error"][1]
        return
    if "error" in case:
        kind, msg, where = case["error"]
        if kind in REJECTIONS:
            chk.hist("outcome", "rejected:" + kind)
            return
        chk.count(1)
        chk.hist("outcome", "convert_raises:" + kind)
        chk.violation(f"rtlil.convert of an elaboratable design raises {kind} in {where}: {msg[:120]} (design seed {case['seed']})",
                      dict(replay, kind="raises", error=[kind, msg, where], classes=[]))
        return
    if "sim_error" in case:
        kind, msg = case["sim_error"]
        if kind in REJECTIONS:
            chk.hist("outcome", "rejected_by_simulator:" + kind)
            return
        chk.count(1)
        chk.hist("outcome", "simulator_raises:" + kind)
        chk.violation(f"the design converts to RTLIL but the simulator raises {kind}: {msg[:120]} (design seed {case['seed']})",
                      dict(replay, kind="sim_raises", error=[kind, msg], classes=[]))
        return
    chk.count(1)
    d = dict(tok.split("=", 1) for tok in case["resp"].split("\t") if "=" in tok)
    if d.get("eval") != "ok":
        chk.hist("outcome", "evaluator_rejects")
        chk.violation(f"the Lean reader/validator/evaluator rejects the emitted RTLIL: {case['resp'][:200]} (design seed {case['seed']})",
                      dict(replay, kind="rejected", response=case["resp"][:500], classes=[]))
        return
    model = parse_rows(d["trace"])
    model1 = parse_rows(d["trace1"]) if d.get("xdep") == "1" else model
    sim = case["sim"]
    chk.hist("events", len(case["events"]))
    chk.hist("observed_signals", len(case["points"]))
    chk.hist("domains", "+".join(sorted(case["async"])))
    nontrivial = any(row != sim[0] for row in sim[1:])
    if len(model) != len(sim):
        chk.not_shown("trace length differs", dict(replay, model=len(model), sim=len(sim)))
        return
    undefined = 0
    # two write ports writing different data to the same bits of a row in one event: the RTLIL leaves the row
    # undefined (no priority between the ports: PRIORITY_MASK 0) while the simulator's result depends on its process
    # order (different clocks) or port order, and what a transparent read port forwards on the order of its
    # transparency list; nothing after that event is compared
    stop = int(d.get("collide", "-1"))
    if stop >= 0:
        chk.hist("outcome", "write_write_collision")
        chk.extra["write_collisions"] = chk.extra.get("write_collisions", 0) + 1
    for t, (mr, m1, sr) in enumerate(zip(model, model1, sim)):
        if 0 <= stop <= t:
            undefined += len(sr) * (len(sim) - t)
            break
        for k in range(len(sr)):
            if mr[k] != m1[k]:
                # the RTLIL value depends on the resolution of an undefined (x) value: it is undefined here, and the
                # property only speaks about what the RTLIL defines; counted, not compared
                undefined += 1
                continue
            if mr[k] != sr[k]:
                classes = attribute(chk, case, t, k)
                chk.hist("attribution", ",".join(classes) or ("none" if case.get("shapes") else "no finding shape in the design"))
                ev = case["events"][t - 1] if t > 0 else None
                chk.hist("outcome", "mismatch")
                replay2 = dict(replay, kind="mismatch", event_index=t, events=case["events"][:t], signal=case["observed_names"][k],
                               wire=case["points"][k], simulator=sr[k], rtlil=mr[k], sim_row=sr, rtlil_row=mr,
                               points=case["points"], classes=classes)
                if chk.extra.get("minimised", 0) < 3 and not classes:
                    chk.extra["minimised"] = chk.extra.get("minimised", 0) + 1
                    try:
                        best = minimise(case["seed"], case["opts"], case["events"][:t])
                        if best is not None:
                            replay2["minimised"] = {"dropped_leaves": best["dropped"], "of": best["n_leaves"],
                                                    "rtlil": best["text"][:6000]}
                    except Exception as e:              # minimisation is best effort
                        replay2["minimise_error"] = repr(e)[:200]
                report(chk,
                    f"after event {t} ({ev}) signal {case['observed_names'][k]} (wire {case['points'][k]!r}) is {sr[k]} in the "
                    f"simulator but {mr[k]} in the RTLIL (stream {case['stream']}, design seed {case['seed']})", replay2)
                chk.extra["undefined_in_rtlil"] = chk.extra.get("undefined_in_rtlil", 0) + undefined
                return
    chk.extra["undefined_in_rtlil"] = chk.extra.get("undefined_in_rtlil", 0) + undefined
    chk.extra["observations_compared"] = chk.extra.get("observations_compared", 0) + sum(len(r) for r in sim) - undefined
    if undefined:
        chk.hist("outcome", "ok_with_undefined_observations")
    chk.hist("outcome", "ok")
    chk.distinct(case["text"], nontrivial)
    if nontrivial and case["stream"] == "main":
        chk.sample({"design_seed": case["seed"], "events": len(case["events"]), "observed": case["points"][:8],
                    "last_row": sim[-1][:8], "text_head": case["text"][:200]}, limit=3)


def witness_f27(chk):
    """the recorded witness of F27, replayed on every run: a = signed(4) = -1, a.bit_select(2, 4)"""
    from amaranth.hdl import Signal, Module, signed
    from amaranth.back import rtlil
    from amaranth.sim import Simulator

    def design():
        m = Module()
        a, off, o = Signal(signed(4), name="a"), Signal(2, name="off"), Signal(4, name="o")
        m.d.comb += o.eq(a.bit_select(off, 4))
        return m, a, off, o
    m, a, off, o = design()
    got = {}

    async def tb(ctx):
        ctx.set(a, -1)
        ctx.set(off, 2)
        got["sim"] = ctx.get(o)
    sim = Simulator(m)
    sim.add_testbench(tb)
    sim.run()
    m, a, off, o = design()
    text = rtlil.convert(m, ports=[a, off, o], emit_src=False)
    req = f'(run {esc(text)} (init ("\\\\a" 0) ("\\\\off" 0)) (events (("\\\\a" 15) ("\\\\off" 2))) (obs "\\\\o"))'
    d = dict(tok.split("=", 1) for tok in chk.driver.ask([req])[0].split("\t") if "=" in tok)
    rt = parse_rows(d["trace"])[1][0] if d.get("eval") == "ok" else None
    chk.extra["f27_witness"] = {"simulator": got["sim"], "rtlil": rt}
    if rt != got["sim"]:
        chk.violation(f"a = signed(4) -1: a.bit_select(2, 4) is {got['sim']} in the simulator but {rt} in the RTLIL ($shift, A_SIGNED)",
                      {"kind": "mismatch", "witness": "prelim/repro/c04_signed_part_select_shift.py", "classes": [F_SPART]})


def witness_f9(chk):
    """the recorded witness of F9, replayed on every run: Cat(t, t).bit_select(o, 1).eq(1) in the sync domain"""
    from amaranth.hdl import Signal, Module, Cat, Period
    from amaranth.back import rtlil
    from amaranth.sim import Simulator

    def design():
        m = Module()
        t, o = Signal(2, name="t"), Signal(1, name="o")
        m.d.sync += Cat(t, t).bit_select(o, 1).eq(1)
        return m, t, o
    m, t, o = design()
    got = {}

    async def tb(ctx):
        await ctx.tick()
        got["sim"] = ctx.get(t)
    sim = Simulator(m)
    sim.add_clock(Period(MHz=1))
    sim.add_testbench(tb)
    sim.run()
    m, t, o = design()
    text = rtlil.convert(m, ports=[t, o], emit_src=False)
    req = (f'(run {esc(text)} (init ("\\\\clk" 0) ("\\\\rst" 0) ("\\\\o" 0)) '
           f'(events (("\\\\clk" 1))) (obs "\\\\t"))')
    d = dict(tok.split("=", 1) for tok in chk.driver.ask([req])[0].split("\t") if "=" in tok)
    rt = parse_rows(d["trace"])[1][0] if d.get("eval") == "ok" else None
    chk.extra["f9_witness"] = {"simulator": got.get("sim"), "rtlil": rt, "driver": None if rt is not None else d}
    if rt is not None and rt != got.get("sim"):
        chk.violation(f"Cat(t, t).bit_select(o, 1).eq(1) at a clock edge: t is {got['sim']} in the simulator but {rt} in the RTLIL",
                      {"kind": "mismatch", "witness": "harness/checks/c04.py witness_f9", "classes": [F_ALIAS]})



# ------------------------------------------------------------------------------------------------
# stream `emit`: the emitter model (Model/Rtlil/EmitExpr.lean, theorem C04.emit_expr_correct) against the real emitter

def emit_unshare(v):
    """the same value as a *tree* of fresh AST nodes (signals are kept): `emit_rhs` caches by object identity, so an
    object that occurs twice is emitted once; the model's expressions are trees"""
    from amaranth.hdl import _ast as A
    v = A.Value.cast(v)
    if isinstance(v, A.Const):
        return A.Const(v.value, v.shape())
    if isinstance(v, A.Signal):
        return v
    if isinstance(v, A.Operator):
        return A.Operator(v.operator, [emit_unshare(o) for o in v.operands])
    if isinstance(v, A.Slice):
        return A.Slice(emit_unshare(v.value), v.start, v.stop)
    if isinstance(v, A.Part):
        return A.Part(emit_unshare(v.value), emit_unshare(v.offset), v.width, v.stride)
    if isinstance(v, A.Concat):
        return A.Concat([emit_unshare(p) for p in v.parts])
    if isinstance(v, A.SwitchValue):
        return A.SwitchValue(emit_unshare(v.test), [(pats, emit_unshare(val)) for pats, val in v.cases])
    raise TypeError(f"cannot rebuild {v!r}")


def emit_unencodable(v):
    """why the model's expression syntax cannot tell this value from another one that the emitter treats differently
    (None: it can).  `Expr` writes a choice as a chain of cases ending in the empty constant and a default as the
    single all-don't-care pattern, so (a) a choice without cases is the empty constant (its test is lost), (b) a
    two-case choice `0…0` / *written* all-don't-care pattern reads as the `Mux` form, which the code only recognises with
    a real default, (c) likewise a default first case over a zero-width test, (d) a unary `+` is dropped"""
    from amaranth.hdl import _ast as A
    if isinstance(v, (A.Const, A.Signal)):
        return None
    if isinstance(v, A.Operator):
        if len(v.operands) == 1 and v.operator == "+":
            return "unary_plus"
        subs = list(v.operands)
    elif isinstance(v, A.Slice):
        subs = [v.value]
    elif isinstance(v, A.Part):
        subs = [v.value, v.offset]
    elif isinstance(v, A.Concat):
        subs = list(v.parts)
    elif isinstance(v, A.SwitchValue):
        n = len(v.test)
        if len(v.cases) == 0:
            return "choice_without_cases"
        if len(v.cases) == 2:
            p0, p1 = v.cases[0][0], v.cases[1][0]
            zero_like = p0 == ("0" * n,) or (p0 is None and n == 0)
            dash_like = p1 is None or p1 == ("-" * n,)
            if zero_like and dash_like and not (p0 == ("0" * n,) and p1 is None):
                return "mux_form_with_written_dont_care"
        subs = [v.test] + [val for _p, val in v.cases]
    else:
        return "other:" + type(v).__name__
    for x in subs:
        r = emit_unencodable(x)
        if r:
            return r
    return None


def _spec_tokens(toks, pos):
    """one sigspec starting at toks[pos] -> (canonical chunks as raw (name|const, selector) list, braces?, new pos)"""
    def chunk(pos):
        t = toks[pos]
        if pos + 1 < len(toks) and toks[pos + 1].startswith("["):
            return (t, toks[pos + 1]), pos + 2
        return (t, ""), pos + 1
    if toks[pos] == "{":
        pos += 1
        out = []
        while toks[pos] != "}":
            c, pos = chunk(pos)
            out.append(c)
        return (out, True), pos + 1
    c, pos = chunk(pos)
    return ([c], False), pos


def emit_canon_text(text):
    r"""the body of the (single) emitted module in the canonical form the driver prints for the model (see
    Driver/C04Main.lean): generated names `$k` — and `\out` — renamed in order of first occurrence in cells/processes
    -> (canonical string, {cell type: count})"""
    lines = [ln.strip() for ln in text.split("\n")]
    lines = [ln for ln in lines if ln and not ln.startswith("attribute ")]
    widths = {}
    nodes = []          # ("cell", type, [(param, value)], [(port, spec)]) | ("proc", body)
    result = None
    names = []

    for ln in lines:
        t = ln.split()
        if t[0] == "wire":
            widths[t[-1]] = int(t[2])

    def see(spec):
        for n, _sel in spec[0]:
            if (n.startswith("$") or n == "\\out") and widths.get(n) != 0 and n not in names:
                names.append(n)

    def parse_body(i):
        """statements until `end`/`case` -> (list of items, index of the terminating line)"""
        items = []
        while True:
            toks = lines[i].split()
            if toks[0] == "assign":
                l, p = _spec_tokens(toks, 1)
                r, p = _spec_tokens(toks, p)
                see(l); see(r)
                items.append(("assign", l, r))
                i += 1
            elif toks[0] == "switch":
                sel, _p = _spec_tokens(toks, 1)
                see(sel)
                i += 1
                cases = []
                while lines[i].split()[0] == "case":
                    pats = [x.strip() for x in lines[i][4:].split(",") if x.strip()]
                    body, i = parse_body(i + 1)
                    cases.append((pats, body))
                assert lines[i] == "end", lines[i]
                i += 1
                items.append(("switch", sel, cases))
            else:
                return items, i
    i = 0
    hist = {}
    while i < len(lines):
        toks = lines[i].split()
        if toks[0] == "wire":
            widths[toks[-1]] = int(toks[2])
            i += 1
        elif toks[0] == "cell":
            ty = toks[1]
            hist[ty] = hist.get(ty, 0) + 1
            params, conns = [], []
            i += 1
            while lines[i] != "end":
                t = lines[i].split()
                if t[0] == "parameter":
                    params.append((t[-2], t[-1]))
                elif t[0] == "connect":
                    spec, _p = _spec_tokens(t, 2)
                    see(spec)
                    conns.append((t[1], spec))
                else:
                    raise ValueError("unexpected line in cell: " + lines[i])
                i += 1
            i += 1
            nodes.append(("cell", ty, params, conns))
        elif toks[0] == "process":
            hist["process"] = hist.get("process", 0) + 1
            body, i = parse_body(i + 1)
            assert lines[i] == "end", lines[i]
            i += 1
            nodes.append(("proc", body))
        elif toks[0] == "connect":
            lhs, p = _spec_tokens(toks, 1)
            rhs, p = _spec_tokens(toks, p)
            if lhs == ([("\\out", "")], False):
                result = rhs
            else:
                raise ValueError("unexpected connect: " + lines[i])
            i += 1
        elif toks[0] in ("module", "end"):
            i += 1
        else:
            raise ValueError("unexpected line: " + lines[i])
    if result is None:
        w = widths.get("\\out", 0)
        result = ([("\\out", "[0]" if w == 1 else f"[{w - 1}:0]")], False) if w else ([], True)
    see(result)

    def ren(n):
        # a zero-width wire carries nothing; the backend reuses the wire of any zero-width signal for zero-width outputs
        if widths.get(n) == 0:
            return "_0"
        return f"w{names.index(n)}" if n in names else n

    def spec_s(spec):
        cs = " ".join(ren(n) + sel for n, sel in spec[0])
        return "{" + cs + "}" if spec[1] else cs

    def body_s(items):
        out = ""
        for it in items:
            if it[0] == "assign":
                out += f"assign {spec_s(it[1])} {spec_s(it[2])};"
            else:
                out += f"switch {spec_s(it[1])}[" + "".join(f"case {','.join(p)}:{body_s(b)}|" for p, b in it[2]) + "]"
        return out
    parts = ["wires " + " ".join(f"{ren(n)}:{widths[n]}" for n in names if n in widths)]
    for nd in nodes:
        if nd[0] == "cell":
            parts.append(f"cell {nd[1]} " + ",".join(f"{k}={v}" for k, v in nd[2]) + " " + ",".join(f"{k}={spec_s(sp)}" for k, sp in nd[3]))
        else:
            parts.append("proc " + body_s(nd[1]))
    parts.append("result " + spec_s(result))
    return " ## ".join(parts), hist


def emit_ops(v, hist):
    """histogram of the AST node kinds of an expression"""
    from amaranth.hdl import _ast as A
    if isinstance(v, A.Const):
        k, subs = "const", []
    elif isinstance(v, A.Signal):
        k, subs = "sig", []
    elif isinstance(v, A.Operator):
        k, subs = f"op{len(v.operands)}:{v.operator}", list(v.operands)
    elif isinstance(v, A.Slice):
        k, subs = "slice", [v.value]
    elif isinstance(v, A.Part):
        k, subs = "part:" + ("signed" if v.value.shape().signed else "unsigned") + (":stride" if v.stride != 1 else ""), [v.value, v.offset]
    elif isinstance(v, A.Concat):
        k, subs = "cat", list(v.parts)
    elif isinstance(v, A.SwitchValue):
        n = len(v.test)
        mux = len(v.cases) == 2 and v.cases[0][0] == ("0" * n,) and v.cases[1][0] is None
        k, subs = ("switch:mux" if mux else f"switch:cases{min(len(v.cases), 4)}"), [v.test] + [val for _p, val in v.cases]
    else:
        k, subs = "other", []
    hist[k] = hist.get(k, 0) + 1
    for x in subs:
        emit_ops(x, hist)


def emit_case(seed):
    """one expression: real `rtlil.convert` of `out.eq(expr)` in canonical form, the request for the model"""
    from amaranth.hdl import Signal, Module
    from amaranth.back import rtlil
    from .. import gen_expr
    rng = random.Random(seed)
    case = {"seed": seed}
    try:
        sigs = gen_expr.make_signals(rng, rng.randint(1, 4), maxw=rng.choice([3, 5, 8]))
        g = gen_expr.Gen(rng, sigs, maxw=rng.choice([3, 5, 8]))
        expr = g.expr(rng.choice([1, 2, 2, 3, 3, 4]))
        why = emit_unencodable(expr)
        if why:
            case["skip"] = why
            return case
        expr = emit_unshare(expr)
        envs = [[gen_expr.rand_value(rng, s.shape()) for s in sigs] for _ in range(4)]
    except Exception as e:
        case["generator_error"] = (errkind(e), repr(e)[:300])
        return case
    ops = {}
    emit_ops(expr, ops)
    case["ops"] = ops
    sigidx = {id(s): k for k, s in enumerate(sigs)}
    case["expr"] = common.ser_value(expr, sigidx)
    case["ctx"] = common.ser_ctx([s.shape() for s in sigs])
    case["envs"] = envs
    case["request"] = f"(emit {case['ctx']} {case['expr']} " + " ".join(common.ser_env(e) for e in envs) + ")"
    try:
        out = Signal(expr.shape(), name="out")
        m = Module()
        m.d.comb += out.eq(expr)
        text = rtlil.convert(m, ports=sigs + [out], emit_src=False)
    except Exception as e:
        case["error"] = (errkind(e), (str(e) or repr(e))[:300])
        return case
    case["text"] = text
    case["width"] = len(expr)
    try:
        case["canon"], case["cells"] = emit_canon_text(text)
    except Exception as e:
        case["canon_error"] = repr(e)[:300]
    return case


def emit_job(args):
    seeds, exe = args
    out = [emit_case(s) for s in seeds]
    todo = [c for c in out if "request" in c]
    if todo:
        for c, r in zip(todo, common.Driver(exe).ask([c["request"] for c in todo])):
            c["resp"] = r
    return out


def emit_resimulate(case):
    """the real emitted text under the RTLIL evaluator against the real simulator, on the case's environments
    -> (rtlil values | None, simulator values | None)"""
    from amaranth.hdl import Signal, Module
    from amaranth.sim import Simulator
    from .. import gen_expr
    rng = random.Random(case["seed"])
    sigs = gen_expr.make_signals(rng, rng.randint(1, 4), maxw=rng.choice([3, 5, 8]))
    g = gen_expr.Gen(rng, sigs, maxw=rng.choice([3, 5, 8]))
    expr = emit_unshare(g.expr(rng.choice([1, 2, 2, 3, 3, 4])))
    envs = case["envs"]
    w = len(expr)
    out = Signal(expr.shape(), name="out")
    m = Module()
    m.d.comb += out.eq(expr)
    sim_vals = []

    async def tb(ctx):
        for env in envs:
            for s, v in zip(sigs, env):
                ctx.set(s, v)
            sim_vals.append(ctx.get(out) & ((1 << w) - 1))
    try:
        sim = Simulator(m)
        sim.add_testbench(tb)
        sim.run()
    except Exception:
        sim_vals = None
    if w == 0:
        return [0] * len(envs), sim_vals
    live = [(k, s) for k, s in enumerate(sigs) if len(s)]
    init = " ".join(f'({esc(chr(92) + s.name)} 0)' for _k, s in live)
    evs = " ".join("(" + " ".join(f"({esc(chr(92) + s.name)} {env[k] & ((1 << len(s)) - 1)})" for k, s in live) + ")" for env in envs)
    req = f'(run {esc(case["text"])} (init {init}) (events {evs}) (obs {esc(chr(92) + "out")}))'
    d = dict(tok.split("=", 1) for tok in common.Driver(EXE).ask([req])[0].split("\t") if "=" in tok)
    rt = [row[0] for row in parse_rows(d["trace"])[1:]] if d.get("eval") == "ok" and d.get("xdep") == "0" else None
    return rt, sim_vals


def emit_judge(chk, case):
    if "generator_error" in case:
        chk.hist("emit_outcome", "generator_error:" + case["generator_error"][0])
        return
    if "skip" in case:
        chk.hist("emit_outcome", "not_encodable:" + case["skip"])
        return
    if "error" in case:
        chk.count(1)
        chk.hist("emit_outcome", "convert_raises:" + case["error"][0])
        chk.violation(f"rtlil.convert of out.eq(expr) raises {case['error'][0]}: {case['error'][1][:120]} (emit seed {case['seed']})",
                      {"kind": "raises", "stream": "emit", "emit_seed": case["seed"], "expr": case["expr"], "ctx": case["ctx"], "classes": []})
        return
    chk.count(1)
    for k, v in case["ops"].items():
        chk.hist("emit_operators", k, v)
    for k, v in case.get("cells", {}).items():
        chk.hist("emit_cell_types", k, v)
    d = dict(tok.split("=", 1) for tok in case["resp"].split("\t") if "=" in tok)
    replay = {"stream": "emit", "emit_seed": case["seed"], "ctx": case["ctx"], "expr": case["expr"], "envs": case["envs"],
              "how": "harness.checks.c04.emit_case(emit_seed) rebuilds the expression, converts out.eq(expr) and prints the "
                     "canonical cell list; `(emit ctx expr env*)` to amodel_c04 prints the model's"}
    if d.get("emit") != "ok" or "canon" not in case:
        chk.hist("emit_outcome", "driver_or_reader_error")
        chk.not_shown("emit stream: the driver or the text canonicaliser failed", dict(replay, resp=case["resp"][:300], err=case.get("canon_error")))
        return
    ev, rtl = d.get("ev", "").split(","), d.get("rtl", "").split(",")
    inside = d.get("part") == "1"
    chk.hist("emit_depth_cells", min(sum(case["cells"].values()), 12))
    if d["canon"] != case["canon"]:
        # the model of the emitter is not the emitter: is the property broken on this expression?
        chk.hist("emit_outcome", "cells_differ")
        rt, sv = emit_resimulate(case)
        if rt is not None and sv is not None and rt != sv and inside:
            chk.violation(f"out.eq(expr): the emitted RTLIL gives {rt} and the simulator {sv} on the same inputs (emit seed {case['seed']})",
                          dict(replay, kind="mismatch", rtlil=rt, simulator=sv, classes=[]))
        elif rt is not None and sv is not None and rt != sv:
            chk.violation(f"out.eq(expr) with a signed part-select: RTLIL {rt}, simulator {sv} (emit seed {case['seed']})",
                          dict(replay, kind="mismatch", rtlil=rt, simulator=sv, classes=[F_SPART]))
        else:
            chk.not_shown("emit stream: the cells the model emits differ from the cells rtlil.convert emits (the RTLIL still "
                          "agrees with the simulator on the inputs tried)", dict(replay, model=d["canon"][:3000], real=case["canon"][:3000]))
        return
    chk.distinct(case["canon"], nontrivial=bool(case["cells"]))
    if ev != rtl:
        if not inside:
            # finding F27: the emitted `$shift` of a signed value; the cells are what the code emits, and they do not compute
            # the simulator's value (the theorem's side condition excludes exactly these expressions)
            chk.hist("emit_outcome", "same_cells_value_differs_F27")
            chk.violation(f"out.eq(expr) with a part-select of a signed value reaching above it: the emitted cells give {ev}, the "
                          f"simulator model {rtl} (emit seed {case['seed']})", dict(replay, kind="mismatch", rtlil=ev, simulator=rtl, classes=[F_SPART]))
        else:
            chk.hist("emit_outcome", "same_cells_value_differs")
            chk.not_shown("emit stream: the model's cells, run in the RTLIL evaluator, do not give evalRtl although the expression "
                          "satisfies the hypotheses of emit_expr_correct_partial", dict(replay, cells=ev, evalRtl=rtl))
        return
    chk.hist("emit_outcome", "same_cells" + ("" if inside else "_signed_part_outside_but_values_agree"))
    if case["cells"]:
        chk.sample({"stream": "emit", "expr": case["expr"][:200], "canon": case["canon"][:300]}, limit=8)


def run(chk):
    if not chk.lean():
        chk.not_shown("Lean build of Properties/C04 failed", chk.build_log[-3000:])
        return
    witness_f27(chk)
    witness_f9(chk)
    rng = chk.rng
    quick = chk.tier == "quick"
    n_main = 600 if quick else 12000
    n_side = 60 if quick else 800
    base = dict(memories=True, layouts=True)
    plan = [(n_main, dict(base)), (n_side, dict(base, allow_f9=True)), (n_side, dict(base, allow_f25=True)),
            (n_side, dict(base, dup_tf=True)), (2 * n_side, dict(ops_grid=True)), (2 * n_side, dict(mem_grid=True))]
    args = []
    for n, opts in plan:
        seeds = [rng.getrandbits(48) for _ in range(n)]
        for k in range(0, n, 10):
            args.append((seeds[k:k + 10], opts, EXE))
    # stream `emit`: the emitter model of `emit_expr_correct_partial` against the real emitter, expression by expression
    n_emit = 2000 if quick else 40000
    emit_seeds = [rng.getrandbits(48) for _ in range(n_emit)]
    emit_args = [(emit_seeds[k:k + 50], EXE) for k in range(0, n_emit, 50)]
    with ProcessPoolExecutor(max_workers=min(16, os.cpu_count() or 4)) as ex:
        for cases in ex.map(job, args, chunksize=1):
            for c in cases:
                judge(chk, c)
        for cases in ex.map(emit_job, emit_args, chunksize=1):
            for c in cases:
                emit_judge(chk, c)
    eo = chk.extra.get("distribution", {}).get("emit_outcome", {})
    chk.extra["emit_stream"] = {"expressions": n_emit, "same_cells": sum(v for k, v in eo.items() if k.startswith("same_cells")),
                                "outcomes": dict(eo)}
    if sum(v for k, v in eo.items() if k.startswith("same_cells")) < 0.8 * n_emit:
        chk.not_shown("emit stream: fewer than 80% of the generated expressions reached the cell-by-cell comparison", dict(eo))
    if chk.extra.get("generator_errors", 0) > 0.05 * sum(n for n, _o in plan):
        chk.not_shown("the design generator itself fails on more than 5% of the seeds (nothing is being checked)",
                      {"generator_errors": chk.extra["generator_errors"], "example": chk.extra.get("generator_error_example")})
    chk.cov["rule"] = (
        "whole designs (harness/gen_hier.py: module trees of depth <= 4, signals driven in one module and read in ancestors, "
        "descendants and siblings, per-bit owners, partially driven / undriven / zero-width / private signals, expressions and "
        "statement trees of the C01/C02 generators, 1-3 clock domains pos/neg edge with sync, async or no reset, memories with "
        "sync/comb/transparent read ports and granular write ports; no Instances, no I/O buffers), each simulated for 5-40 "
        "events (clock toggles of a random set of domains, input and reset changes) and evaluated from its RTLIL text; every "
        "named signal compared after every event. distinct = distinct RTLIL text; non-trivial = some observed value changes. "
        "Stream emit: expressions of the C01 generator (harness/gen_expr.py, depth 1-4, 1-4 signals of width 0-8, rebuilt as "
        "trees of fresh AST nodes) assigned to one output; rtlil.convert's cells, parameters, connections, process bodies, "
        "wire widths and the sigspec connected to the output, in emission order and up to generated names, compared with "
        "what Model/Rtlil/EmitExpr.lean emits (the function emit_expr_correct_partial is about); the model's cells are also "
        "run in the RTLIL evaluator on 4 environments and compared with evalRtl; distinct = distinct canonical cell list")
    chk.extra["programs"] = chk.cov["evaluations"]
    chk.extra["disagreements_checked"] = chk.cov["evaluations"]
    chk.extra["trusted_base"] = [
        "the semantics of the RTLIL cells, processes, memories and hierarchy as transcribed from the Yosys manual in "
        "Model/Rtlil/Cells.lean and Model/Rtlil/Eval.lean (no Yosys in the sandbox to cross-check the transcription)"]
    chk.assumptions += [
        "per-design equivalence is translation validation over sampled designs and stimuli, not a theorem; for right-hand-side "
        "expressions the emitter is proved (C04.emit_expr_correct_partial) about a model that the emit stream compares with "
        "the real emitter cell by cell",
        "emit stream, outside the model: emit_rhs caches by object identity (an AST object used twice is emitted once; the "
        "stream rebuilds every expression as a tree), src attributes, generated names (compared up to renaming; zero-width "
        "wires all count as one), and three AST forms the model's expression syntax cannot tell apart from others (a choice "
        "without cases, the Mux form written with an explicit all-don't-care pattern, unary plus) which are counted and skipped",
        "data inputs and resets never change in the same event as a clock edge (no setup/hold races); coincident edges of "
        "different clocks are exercised",
        "undefined (x) RTLIL values (read-port INIT_VALUE, reads outside a memory, unguarded division by zero) are resolved "
        "to all-zeros and to all-ones; an observation that differs between the two is undefined in the RTLIL and is not "
        "compared (coverage.undefined_in_rtlil counts them); an x that cancels out under both resolutions is not detected",
        "two write ports that write different data to the same bits of a row in one event: no port has priority in the "
        "RTLIL (PRIORITY_MASK 0), so the row is undefined there, while the simulator's result depends on process or port "
        "order and a transparent read port forwards in the order of its transparency list; the trace of that design is "
        "not compared from that event on (coverage.write_collisions)"]


def replay(chk, path):
    """rebuild the recorded design from its seed, convert and simulate it again on the current tree, evaluate the
    RTLIL with the Lean evaluator and print where the two differ; exit 1 if they still do"""
    import json
    rep = json.load(open(path))["replay"]
    if rep.get("stream") == "emit":
        case = emit_case(int(rep["emit_seed"]))
        if "request" in case:
            case["resp"] = common.Driver(EXE).ask([case["request"]])[0]
        emit_judge(chk, case)
        for summary, _r in chk.violations:
            print("VIOLATION", summary[:400])
        for fid, n in chk.known_seen.items():
            print(f"KNOWN-FINDING {fid} (seen {n}x)")
        for what, _d in chk.unshown:
            print("NOT SHOWN", what)
        if not chk.violations and not chk.unshown and not chk.known_seen:
            print("not reproduced on the current tree")
        return common.EXIT_VIOLATION if (chk.violations or chk.unshown) else common.EXIT_OK
    seed, opts = int(rep["design_seed"]), rep.get("opts") or {}
    if isinstance(opts, str):
        import ast
        opts = ast.literal_eval(opts)
    case = design_case(seed, opts)
    if "request" in case and "sim" in case:
        case["resp"] = common.Driver(EXE).ask([case["request"]])[0]
    judge(chk, case)
    flush = globals().get("flush_reports")
    if flush:
        flush(chk)
    for summary, r in chk.violations:
        print("VIOLATION", summary[:400])
        for k in ("event_index", "events", "signal", "wire", "simulator", "rtlil"):
            if k in r:
                print(f"   {k}: {str(r[k])[:600]}")
    for fid, n in chk.known_seen.items():
        print(f"KNOWN-FINDING {fid} (seen {n}x)")
    for what, _d in chk.unshown:
        print("NOT SHOWN", what)
    if not chk.violations and not chk.unshown:
        print("not reproduced on the current tree")
    return common.EXIT_VIOLATION if (chk.violations or chk.unshown) else common.EXIT_OK
