"""C10 - shape casting and constant normalisation are exact and minimal.

Ties Model/ShapeCast.lean (and ceilLog2/bitsFor of Model/Shape.lean) to the working tree of /repo:
every case is run on the real code (Shape.cast, Const, Const.cast, Signal(init=), MemoryData(init=) and
assignments to `.init` afterwards, enumeration class hierarchies, layout constants, bits_for, ceil_log2) and sent to the native driver `amodel_c10`, which answers with the Model value
and an independently computed Spec value (brute-force narrowest shape over the enumerated elements,
`constOf`, `denote`). impl != spec -> VIOLATION; impl == spec everywhere but impl != model -> not shown.
"""
import enum
import itertools
import warnings

from .. import common
from ..common import errkind, kv

LEVEL = "proof"
EXE = "amodel_c10"

ENUM_POOL = [-9, -8, -5, -4, -2, -1, 0, 1, 2, 3, 4, 7, 8, 15, 16]


# ------------------------------------------------------------------------------------------------
# helpers

def shs(shape):
    return f"{shape.width},{'s' if shape.signed else 'u'}"


def ser_shape(shape):
    return f"{shape.width} {'s' if shape.signed else 'u'}"


class Section:
    """collects (request, impl, case) triples, asks the driver once, compares"""

    def __init__(self, chk, name):
        self.chk, self.name = chk, name
        self.reqs, self.impls, self.cases = [], [], []
        self.broken = []       # impl != model while impl == spec
        self.last = []         # parsed driver responses of the last flush, in the order of add()

    def add(self, req, impl, case, nontrivial=True, key=None):
        self.reqs.append(req)
        self.impls.append(impl)
        self.cases.append(case)
        self.chk.distinct((self.name, req if key is None else key), nontrivial)
        return len(self.reqs) - 1

    def flush(self, spec_of=lambda d: d.get("spec"), model_of=lambda d: d.get("model"),
              impl_for_spec=lambda impl: impl, classify=lambda case, impl, d: []):
        chk = self.chk
        resps = chk.driver.ask(self.reqs)
        chk.count(len(self.reqs))
        f15 = 0
        self.last = []
        for req, impl, case, resp in zip(self.reqs, self.impls, self.cases, resps):
            if resp.startswith("error"):
                raise common.Infra(f"driver rejected {req!r}: {resp}")
            d = kv(resp)
            self.last.append(d)
            spec, model = spec_of(d), model_of(d)
            if spec is not None and impl_for_spec(impl) != spec:
                classes = classify(case, impl, d)
                if "F15" in classes:
                    f15 += 1
                    chk.hist("F15_overflow", self.name)
                    if f15 > 3:
                        continue
                chk.violation(f"{self.name}: {case}: code gives {impl}, property requires {spec}",
                              {"section": self.name, "case": case, "request": req, "impl": impl,
                               "spec": spec, "model": model, "classes": classes})
            elif impl != model:
                self.broken.append({"case": case, "request": req, "impl": impl, "model": model, "spec": spec})
        if self.broken:
            chk.not_shown(f"{self.name}: the code agrees with the Spec but no longer with the Lean model "
                          f"({len(self.broken)} cases)", self.broken[:10])
        n = len(self.reqs)
        self.reqs, self.impls, self.cases = [], [], []
        return n


def guarded(f):
    """run f; returns (value, None) or (None, errkind)"""
    try:
        return f(), None
    except Exception as e:  # noqa: BLE001 - every exception kind is an observation
        return None, errkind(e)


def with_warnings(f):
    """returns (value | None, errkind | None, warnkind) where warnkind in none/signed/trunc/offbyone/other"""
    with warnings.catch_warnings(record=True) as ws:
        warnings.simplefilter("always")
        val, err = guarded(f)
    kind = "none"
    for w in ws:
        msg = str(w.message)
        if "is signed, but the" in msg:
            kind = "signed"
        elif "will be truncated" in msg:
            kind = "trunc"
        elif "equals the non-inclusive end" in msg:
            kind = "offbyone"
        elif issubclass(w.category, DeprecationWarning):
            continue
        else:
            kind = "other:" + msg[:40]
    return val, err, kind


# ------------------------------------------------------------------------------------------------
# sections

def ring(kmax, ds=(-2, -1, 0, 1, 2)):
    out = set()
    for k in range(kmax + 1):
        for d in ds:
            out.add((1 << k) + d)
            out.add(-(1 << k) + d)
    return sorted(out)


def run_ranges(chk, quick):
    from amaranth.hdl import Shape
    sec = Section(chk, "range")

    def add(a, b, k):
        r = range(a, b, k)
        val, err = guarded(lambda: Shape.cast(r))
        sec.add(f"(range {a} {b} {k})", shs(val) if err is None else err, f"range({a}, {b}, {k})",
                nontrivial=True)
        chk.hist("range_step_sign", "pos" if k > 0 else "neg")

    # exhaustive box
    lim, slim = (40, 9) if quick else (70, 12)
    steps = [k for k in range(-slim, slim + 1) if k != 0]
    nbox = 0
    for a in range(-lim, lim + 1):
        for b in range(-lim, lim + 1):
            for k in steps:
                add(a, b, k)
                nbox += 1
    # ring around every power of two up to 2^70
    nring = 0
    kmax = 70
    for k in range(kmax + 1):
        p = 1 << k
        stops = [p + d for d in (-2, -1, 0, 1, 2)] + [-p + d for d in (-2, -1, 0, 1, 2)]
        starts = [0, 1, -1, 2] + [-p + d for d in (-1, 0, 1)] + [p - 3, (p >> 1) - 1, -(p >> 1)]
        sts = [1, -1, 2, 3, -3, 7, max(1, p >> 1), -max(1, p >> 1), p + 1]
        for b in stops:
            for a in starts:
                for st in sts:
                    add(a, b, st)
                    nring += 1
    # random large ranges
    rng = chk.rng
    nrand = 2000 if quick else 200000
    for _ in range(nrand):
        ka, kb, ks = rng.randrange(0, 80), rng.randrange(0, 80), rng.randrange(0, 80)
        a = rng.choice((-1, 1)) * ((1 << ka) + rng.randrange(-3, 4)) if rng.random() < 0.8 else rng.randrange(-5, 6)
        b = rng.choice((-1, 1)) * ((1 << kb) + rng.randrange(-3, 4))
        st = rng.choice((-1, 1)) * max(1, (1 << ks) + rng.randrange(-3, 4)) if rng.random() < 0.5 \
            else rng.choice((1, -1, 2, -2, 3, 5))
        add(a, b, st)

    def classify(case, impl, d):
        return ["F15"] if impl == "OverflowError" and d.get("old") == "overflow" else []
    sec.flush(classify=classify)
    chk.extra.setdefault("exhaustive", {})["ranges"] = \
        f"all range(a, b, k), a, b in [-{lim}, {lim}], k in [-{slim}, {slim}] without 0: {nbox}; power-of-two ring up to 2^{kmax}: {nring}; random up to 2^80: {nrand}"
    # malformed / not a range
    bad = 0
    for obj in ("x", 1.5, None, [1, 2], -1, (3, True)):
        _val, err = guarded(lambda: Shape.cast(obj))
        chk.count()
        if err != "TypeError":
            bad += 1
            chk.violation(f"Shape.cast({obj!r}) did not raise TypeError ({err})", {"obj": repr(obj), "classes": []})


def run_enums(chk, quick):
    from amaranth.hdl import Shape
    import amaranth.lib.enum as aenum
    sec = Section(chk, "enum")
    kinds = {"Enum": enum.Enum, "IntEnum": enum.IntEnum, "amaranth.Enum": aenum.Enum}

    def add(vals, kind):
        names = {f"M{i}": v for i, v in enumerate(vals)}
        val, err = guarded(lambda: Shape.cast(kinds[kind]("E", names)))
        # aliases (repeated values) are not members: the model sees the distinct values in order
        seen = []
        for v in vals:
            if v not in seen:
                seen.append(v)
        sec.add("(enum" + "".join(f" {v}" for v in seen) + ")", shs(val) if err is None else err,
                f"{kind}{list(vals)}", nontrivial=len(seen) > 0)
        chk.hist("enum_members", len(vals))

    n = 0
    for size in (0, 1, 2, 3):
        for vals in itertools.permutations(ENUM_POOL, size):
            for kind in kinds:
                add(vals, kind)
                n += 1
    rng = chk.rng
    nrand = 300 if quick else 20000
    for _ in range(nrand):
        size = rng.randrange(1, 8)
        vals = []
        for _i in range(size):
            if rng.random() < 0.5:
                vals.append(rng.choice((-1, 1)) * ((1 << rng.randrange(0, 70)) + rng.randrange(-2, 3)))
            else:
                vals.append(rng.randrange(-20, 21))
        add(tuple(vals), rng.choice(list(kinds)))
    sec.flush()
    chk.extra.setdefault("exhaustive", {})["enums"] = \
        f"all ordered selections of <= 3 distinct members from {ENUM_POOL} as enum.Enum, enum.IntEnum, amaranth.lib.enum.Enum: {n}; random (<= 7 members, values up to 2^70, aliases allowed): {nrand}"
    # malformed: non-integer member
    _val, err = guarded(lambda: Shape.cast(enum.Enum("E", {"A": "x"})))
    chk.count()
    if err != "TypeError":
        chk.violation(f"Shape.cast of a string-valued enum did not raise TypeError ({err})", {"classes": []})


def run_consts(chk, quick):
    from amaranth.hdl import Const, Shape
    sec = Section(chk, "const")
    n = 0
    vlim, wlim = (300, 9) if quick else (1100, 12)
    for w in range(0, wlim + 1):
        for sg in (False, True):
            if sg and w == 0:
                continue
            shape = Shape(w, sg)
            for v in range(-vlim, vlim + 1):
                c = Const(v, shape)
                sec.add(f"(const {v} {ser_shape(shape)})", str(c.value), f"Const({v}, {shape!r})")
                n += 1
    rng = chk.rng
    nrand = 3000 if quick else 200000
    for _ in range(nrand):
        w = rng.randrange(0, 90)
        sg = rng.random() < 0.5 and w > 0
        v = rng.choice((-1, 1)) * ((1 << rng.randrange(0, 100)) + rng.randrange(-3, 4))
        if rng.random() < 0.3:
            v = rng.randrange(-(1 << 90), 1 << 90)
        shape = Shape(w, sg)
        c = Const(v, shape)
        sec.add(f"(const {v} {ser_shape(shape)})", str(c.value), f"Const({v}, {shape!r})")
    sec.flush()

    sec = Section(chk, "const-int-shape")
    for w in range(0, 10):
        for v in range(-300, 301):
            val, err = guarded(lambda: Const(v, w))
            impl = f"{val.value},{shs(val.shape())}" if err is None else err
            sec.add(f"(constint {v} {w})", impl, f"Const({v}, {w})")
    sec.flush(spec_of=lambda d: None)

    sec = Section(chk, "const-auto")
    vals = list(range(-1100, 1101)) + ring(200)
    for v in vals:
        c = Const(v)
        sec.add(f"(constauto {v})", f"{c.value},{shs(c.shape())}", f"Const({v})")
    sec.flush()

    sec = Section(chk, "const-range-shape")
    for a in range(-5, 6):
        for b in range(-5, 6):
            for k in (1, -1, 2, -3):
                for v in range(-9, 10):
                    val, err, warn = with_warnings(lambda: Const(v, range(a, b, k)))
                    impl = f"{val.value},{shs(val.shape())},{1 if warn == 'offbyone' else 0}" if err is None else err
                    sec.add(f"(constrange {v} {a} {b} {k})", impl, f"Const({v}, range({a}, {b}, {k}))")
    sec.flush(impl_for_spec=lambda impl: impl.split(",")[0])
    chk.extra.setdefault("exhaustive", {})["consts"] = \
        f"Const(v, Shape(w, sg)) for |v| <= {vlim}, w <= {wlim}, both signednesses: {n}; Const(v, w) same box; Const(v) for |v| <= 1100 and +-2^k+d, k <= 200; Const(v, range) on a small box; random (v up to 2^100, w < 90): {nrand}"


# ---- constant trees ----

def gen_tree(rng, depth, allow_bad):
    """abstract tree: ('c', v, w, sg) | ('cat', [t]) | ('slice', t, a, b) | ('bad', t)"""
    r = rng.random()
    if depth == 0 or r < 0.3:
        w = rng.choice((0, 1, 1, 2, 3, 4, 5, 8, 9, 16, 33, 64, 65)) if rng.random() < 0.3 else rng.randrange(0, 7)
        sg = rng.random() < 0.5 and w > 0
        lo, hi = (-(1 << (w - 1)), (1 << (w - 1))) if sg else (0, 1 << w)
        if rng.random() < 0.3:
            v = rng.choice((lo, hi - 1, 0 if lo <= 0 < hi else lo, -1 if lo <= -1 else lo))
        else:
            v = rng.randrange(lo, hi)
        return ("c", v, w, sg)
    if allow_bad and r < 0.36:
        return ("bad", gen_tree(rng, depth - 1, False))
    if r < 0.68:
        return ("cat", [gen_tree(rng, depth - 1, allow_bad) for _ in range(rng.randrange(0, 4))])
    return ("slice", gen_tree(rng, depth - 1, allow_bad), rng.random(), rng.random())


def build_tree(t):
    from amaranth.hdl import Const, Shape, Cat
    if t[0] == "c":
        return Const(t[1], Shape(t[2], t[3]))
    if t[0] == "cat":
        return Cat(*[build_tree(p) for p in t[1]])
    if t[0] == "bad":
        return ~build_tree(t[1])
    e = build_tree(t[1])
    n = len(e)
    a = int(t[2] * (n + 1))
    b = a + int(t[3] * (n - a + 1))
    return e[a:b]


def tree_depth(t):
    if t[0] == "c":
        return 0
    if t[0] == "cat":
        return 1 + max([tree_depth(p) for p in t[1]] or [0])
    return 1 + tree_depth(t[1])


def neg_const_below_top(t):
    """does the tree contain a negative constant as a part of a concatenation (its two's complement sign bits must not
    reach the parts above it, nor the bits above the concatenation)"""
    if t[0] == "c":
        return False
    if t[0] == "cat":
        return any((p[0] == "c" and p[1] < 0) or neg_const_below_top(p) for p in t[1])
    return neg_const_below_top(t[1])


def wrap_to(v, w, sg):
    v &= (1 << w) - 1
    if sg and w and v >> (w - 1):
        v -= 1 << w
    return v


def run_trees_evaluated(chk, quick, sec, accepted):
    """"constant-casting a concatenation or slice of constants equals evaluating it": every accepted tree is evaluated
    (a) by a compiled circuit - `m.d.comb += target.eq(tree)` for an unsigned target of exactly the tree's width and for a
    wider target (unsigned / signed alternately), read in simulation - and (b) by `ctx.get(tree)` in a testbench; all
    three readings are compared with the value the driver's Spec gives for the tree (not with Const.cast's)."""
    from amaranth.hdl import Module, Signal, Shape
    from amaranth.sim import Simulator
    todo = accepted if quick else accepted[:30000]
    extra = (1, 2, 3, 7, 33)
    batch = 250
    nrun = 0
    nviol = [0]

    def violation(msg, rep):
        nviol[0] += 1
        if nviol[0] <= 10:
            chk.violation(msg, rep)
        else:
            chk.hist("tree_evaluated", "further violations (not listed)")
    for b0 in range(0, len(todo), batch):
        m = Module()
        items = []
        for n, (idx, t, e, c) in enumerate(todo[b0:b0 + batch], start=b0):
            parts = (sec.last[idx].get("spec") or "").split(",")
            if len(parts) != 3:
                continue            # the Spec does not call it a constant: reported by the const-cast section already
            v, w, sg = int(parts[0]), int(parts[1]), parts[2] == "s"
            same = Signal(Shape(w, False), name=f"same{n}")
            wsg = n % 2 == 1
            wide = Signal(Shape(w + extra[n % len(extra)], wsg), name=f"wide{n}")
            m.d.comb += [same.eq(e), wide.eq(e)]
            # the tree has the value v of shape (w, sg); assignment extends by the tree's signedness, then truncates
            items.append((t, e, c, v, [("same-width unsigned", same, wrap_to(v, w, False)),
                                       ("wider " + ("signed" if wsg else "unsigned"), wide,
                                        wrap_to(v, len(wide), wsg))]))
        got = {}

        async def tb(ctx):
            for k, (_t, e, _c, _v, targets) in enumerate(items):
                got[k] = [ctx.get(e)] + [ctx.get(sig) for _n, sig, _x in targets]

        def simulate():
            with warnings.catch_warnings():
                warnings.simplefilter("ignore")
                sim = Simulator(m)
                sim.add_testbench(tb)
                sim.run()
        _v, err = guarded(simulate)
        if err is not None:
            chk.violation(f"const-cast-evaluated: simulating a design that assigns {len(items)} Cat/Slice trees of constants "
                          f"raises {err}", {"section": "const-cast-evaluated", "error": err,
                                            "trees": [repr(it[1])[:200] for it in items[:5]], "classes": []})
            continue
        for k, (t, e, c, v, targets) in enumerate(items):
            nrun += 1
            chk.hist("tree_evaluated", "trees")
            if neg_const_below_top(t):
                chk.hist("tree_evaluated", "trees with a negative constant as a part of a Cat")
            r = got.get(k) or [None] * (1 + len(targets))
            if r[0] != v:
                violation(f"const-cast-evaluated: ctx.get({e!r}) gives {r[0]}, property requires {v} "
                              f"(Const.cast: {c.value})",
                              {"section": "const-cast-evaluated", "how": "ctx.get", "expr": repr(e)[:600], "impl": r[0],
                               "spec": v, "cast": c.value, "classes": []})
            for (tname, sig, want), have in zip(targets, r[1:]):
                chk.hist("tree_evaluated_target", tname)
                if have != want:
                    violation(f"const-cast-evaluated: compiled `m.d.comb += Signal({sig.shape()!r}).eq({e!r})` reads "
                                  f"{have}, property requires {want} (tree value {v}, Const.cast: {c.value})",
                                  {"section": "const-cast-evaluated", "how": "comb assignment, " + tname,
                                   "target": repr(sig.shape()), "expr": repr(e)[:600], "impl": have, "spec": want,
                                   "tree_value": v, "cast": c.value, "classes": []})
                    break
    chk.count(3 * nrun)
    chk.extra.setdefault("exhaustive", {})["const-cast-evaluated"] = \
        (f"{nrun} of the accepted Cat/Slice/Const trees of the const-cast stream, each assigned in m.d.comb to an unsigned "
         f"target of its own width and to a target 1/2/3/7/33 bits wider (unsigned and signed alternately), {batch} trees per "
         f"Simulator, and read with ctx.get(tree); expected values from the driver's Spec")


def run_trees(chk, quick):
    from amaranth.hdl import Const
    sec = Section(chk, "const-cast")
    rng = chk.rng
    ntree = 4000 if quick else 250000
    exprs = []
    accepted = []
    for i in range(ntree):
        t = gen_tree(rng, rng.randrange(1, 5), allow_bad=(i % 10 == 0))
        e = build_tree(t)
        val, err = guarded(lambda: Const.cast(e))
        impl = f"{val.value},{shs(val.shape())}" if err is None else err
        req = f"(cast {common.ser_value(e, {})})"
        idx = sec.add(req, impl, repr(e)[:300], nontrivial=t[0] != "c")
        chk.hist("tree_depth", tree_depth(t))
        chk.hist("tree_root", t[0])
        chk.hist("tree_outcome", "ok" if err is None else err)
        if err is None:
            exprs.append((e, val))
            accepted.append((idx, t, e, val))
        if i < 3:
            chk.sample({"tree": repr(e)[:200], "Const.cast": impl})
    sec.flush()
    run_trees_evaluated(chk, quick, sec, accepted)
    # the evaluated constant is also what the simulator reads for the tree (cross-check, real code only)
    from amaranth.hdl import Module
    from amaranth.sim import Simulator
    sample = exprs[: (200 if quick else 2000)]
    got = {}

    async def tb(ctx):
        for i, (e, _c) in enumerate(sample):
            got[i] = ctx.get(e)
    sim = Simulator(Module())
    sim.add_testbench(tb)
    sim.run()
    chk.count(len(sample))
    for i, (e, c) in enumerate(sample):
        if got.get(i) != c.value:
            chk.violation(f"Const.cast({e!r}).value = {c.value} but the simulator evaluates the tree to {got.get(i)}",
                          {"expr": repr(e), "cast": c.value, "sim": got.get(i), "classes": []})


# ---- initial values ----

def ser_init(init):
    import enum
    if init is None:
        return "none"
    if isinstance(init, int) and not isinstance(init, enum.Enum):
        return f"(int {init})"
    # enumeration members (IntEnum included) are constants of their enumeration's shape
    return f"(expr {common.ser_value(init, {})})"


def ser_shapearg(shape):
    if isinstance(shape, range):
        return f"(range {shape.start} {shape.stop} {shape.step})"
    return f"(shape {ser_shape(shape)})"


def init_cases(chk, quick):
    """(shape-like, init) pairs"""
    from amaranth.hdl import Shape
    rng = chk.rng
    cases = []
    for w in range(0, 7):
        for sg in (False, True):
            if sg and w == 0:
                continue
            for v in range(-70, 71):
                cases.append((Shape(w, sg), v))
            cases.append((Shape(w, sg), None))
    box = range(-6, 7)
    for a in box:
        for b in box:
            for k in (1, 2, 3, -1, -2, -3):
                for v in list(range(-9, 10)) + [None]:
                    cases.append((range(a, b, k), v))
    # large ranges / values near the ends
    for k in (8, 31, 32, 62, 63, 64, 70):
        p = 1 << k
        for r in (range(p), range(-p, p), range(0, p + 1), range(p, 0, -1), range(0, p, 3)):
            for v in (0, -1, 1, p - 1, p, p + 1, -p, -p - 1, p - 2, 3, 2):
                cases.append((r, v))
    ntree = 300 if quick else 5000
    for i in range(ntree):
        t = gen_tree(rng, rng.randrange(0, 3), allow_bad=(i % 15 == 0))
        w = rng.randrange(0, 9)
        sg = rng.random() < 0.5 and w > 0
        cases.append((Shape(w, sg), build_tree(t)))
    # constant expressions (Const, Cat/slices of constants, plain and integer Enum members) as initial values of
    # range-shaped signals: accepted exactly when their value is an element of the range (finding F35)
    import enum
    from amaranth.hdl import Const, signed, unsigned

    class Plain(enum.Enum):
        A = 3
        B = 12
        Z = 0

    class IntE(enum.IntEnum):
        A = 2
        B = 9
    members = [Plain.A, Plain.B, Plain.Z, IntE.A, IntE.B]
    for r in (range(10), range(0), range(1), range(3, 4), range(-4, 4), range(0, 16, 3), range(12, 2, -2), range(13)):
        for v in list(range(-6, 17)):
            for sh in (unsigned(5), signed(6), unsigned(max(1, v.bit_length())) if v >= 0 else signed((-v).bit_length() + 1)):
                try:
                    cases.append((r, Const(v, sh)))
                except Exception:
                    pass
        for mbr in members:
            cases.append((r, mbr))
    for i in range(ntree // 3):
        t = gen_tree(rng, rng.randrange(0, 3), allow_bad=(i % 15 == 0))
        a, b = rng.randint(-9, 9), rng.randint(-9, 20)
        cases.append((range(a, b, rng.choice([1, 1, 2, 3, -1, -2])), build_tree(t)))
    return cases


def mem_model(d):
    m = d.get("model")
    if m is None or m == "ValueError":
        return m
    rows = m.split(";")
    for r in rows:                       # the first failing element aborts the construction
        if not r.startswith("ok,"):
            return r
    return ";".join(",".join(r.split(",")[:2]) for r in rows)


def mem_spec(d):
    s = d.get("spec")
    if s is None:
        return "ValueError" if d.get("model") == "ValueError" else None
    for r in s.split(";"):
        if not r.startswith("ok,"):
            return r
    return s


def run_inits(chk, quick):
    from amaranth.hdl import Signal, Shape, Module
    from amaranth.hdl._mem import MemoryData
    from amaranth.lib.memory import Memory
    from amaranth.sim import Simulator
    cases = init_cases(chk, quick)

    def classify(case, impl, d):
        return ["F15"] if impl == "OverflowError" and "range(" in case else []

    sec = Section(chk, "signal-init")
    sigs = []
    for shape, init in cases:
        val, err, warn = with_warnings(lambda: Signal(shape, init=init, name="s"))
        impl = f"ok,{val.init},{warn}" if err is None else err
        sec.add(f"(init {ser_init(init)} {ser_shapearg(shape)})", impl, f"Signal({shape!r}, init={init!r})"[:300],
                nontrivial=init is not None)
        chk.hist("signal_init_outcome", impl.split(",")[0] + ("," + warn if err is None else ""))
        if err is None:
            sigs.append(val)
    strip = lambda impl: ",".join(impl.split(",")[:2]) if impl.startswith("ok,") else impl  # noqa: E731
    nsig = sec.flush(impl_for_spec=strip, classify=classify)

    # read the initial values back through the simulator
    step = max(1, len(sigs) // (400 if quick else 4000))
    sample = sigs[::step]
    got = {}

    async def tb(ctx):
        for i, s in enumerate(sample):
            got[i] = ctx.get(s)
    sim = Simulator(Module())
    sim.add_testbench(tb)
    sim.run()
    chk.count(len(sample))
    for i, s in enumerate(sample):
        if got.get(i) != s.init:
            chk.violation(f"{s.shape()!r} signal with init {s.init} reads {got.get(i)} at time 0",
                          {"shape": repr(s.shape()), "init": s.init, "sim": got.get(i), "classes": []})

    # memories: rows are wrapped the same way
    sec = Section(chk, "memory-init")
    rng = chk.rng
    nmem = 1500 if quick else 20000
    mems = []
    by_shape = {}
    for shape, init in cases:
        by_shape.setdefault(repr(shape), (shape, []))[1].append(init)
    shapes = list(by_shape.values())
    plain_shapes = [x for x in shapes if not isinstance(x[0], range)]
    for _ in range(nmem):
        shape, inits = rng.choice(plain_shapes if rng.random() < 0.5 else shapes)
        depth = rng.choice((0, 1, 2, 3, 4, 5, 8))
        nel = rng.randrange(0, depth + 1) if rng.random() < 0.9 else depth + rng.randrange(1, 3)
        elems = [rng.choice(inits) for _ in range(nel)]
        if isinstance(shape, range) and shape and rng.random() < 0.8:
            # mostly rows taken from the range itself, so that whole memories are accepted
            inside = [shape[0], shape[-1], shape[0] + shape.step * rng.randrange(0, 4)]
            elems = [rng.choice(inside) if rng.random() < 0.9 else e for e in elems]
        elems = [0 if e is None else e for e in elems]   # rows cannot be None for plain shapes

        def build():
            return MemoryData(shape=shape, depth=depth, init=elems)
        val, err, _w = with_warnings(build)
        if err is None:
            impl = ";".join(f"ok,{r}" for r in val.init)
            mems.append((shape, depth, elems, list(val.init)))
        else:
            impl = err
        req = f"(mem {depth} {ser_shapearg(shape)}" + "".join(" " + ser_init(e) for e in elems) + ")"
        sec.add(req, impl, f"MemoryData(shape={shape!r}, depth={depth}, init={elems!r})"[:300], nontrivial=nel > 0)
        chk.hist("memory_outcome", "ok" if err is None else err)

    sec.flush(spec_of=mem_spec, model_of=mem_model, classify=classify)

    # warnings raised for memory rows: the same kinds as for a signal, checked per single-row memory
    sec = Section(chk, "memory-row-warning")
    for shape, init in cases[:: max(1, len(cases) // (600 if quick else 6000))]:
        if init is None:
            continue
        val, err, warn = with_warnings(lambda: MemoryData(shape=shape, depth=1, init=[init]))
        impl = f"ok,{val.init[0]},{warn}" if err is None else err
        sec.add(f"(init {ser_init(init)} {ser_shapearg(shape)})", impl,
                f"MemoryData(shape={shape!r}, depth=1, init=[{init!r}])"[:300])
    sec.flush(impl_for_spec=strip, classify=classify)

    # simulate a few memories and read the rows back
    from amaranth.hdl import Module as _M
    msample = [m for m in mems if m[1] > 0][: (40 if quick else 400)]
    m = _M()
    insts = []
    for i, (shape, depth, elems, rows) in enumerate(msample):
        mem = Memory(shape=shape, depth=depth, init=elems)
        m.submodules[f"m{i}"] = mem
        insts.append((mem, rows))
    got = {}

    async def tb2(ctx):
        for i, (mem, rows) in enumerate(insts):
            got[i] = [ctx.get(mem.data[j]) for j in range(len(rows))]
    with warnings.catch_warnings():
        warnings.simplefilter("ignore")
        sim = Simulator(m)
        sim.add_testbench(tb2)
        sim.run()
    chk.count(len(insts))
    for i, (mem, rows) in enumerate(insts):
        if got.get(i) != rows:
            chk.violation(f"memory rows {rows} read back as {got.get(i)} at time 0",
                          {"shape": repr(msample[i][0]), "init": repr(msample[i][2]), "rows": rows,
                           "sim": got.get(i), "classes": []})
    chk.extra.setdefault("exhaustive", {})["inits"] = \
        (f"Signal(Shape(w, sg), init=v) for w <= 6, |v| <= 70 and init=None; Signal(range(a, b, k), init=v) for a, b in [-6, 6], "
         f"k in +-1..3, v in [-9, 9] and None; ranges of 2^k elements with inits at the ends; constant-tree inits; {nsig} signals, "
         f"{nmem} memories")


# ---- abstract initialisers and row/field shapes shared by the streams below ----
#
# The streams below describe every case abstractly (tuples of integers), build the amaranth objects from the
# description, and serialise the description - never an object the code under test computed - for the driver.

class _PlainE(enum.Enum):
    A = 3
    B = 12
    Z = 0


class _IntE(enum.IntEnum):
    A = 2
    B = 9


class _NegE(enum.Enum):
    M = -3
    Z = 0
    P = 2


class _WideE(enum.IntEnum):
    LO = 0
    NEG = -129
    HI = 1000


ENUM_CLASSES = [_PlainE, _IntE, _NegE, _WideE]


def model_enum_shapes(chk, classes):
    """(width, signed) of each enumeration class according to the Lean side (model and spec must agree)"""
    reqs = ["(enum" + "".join(f" {m.value}" for m in cls) + ")" for cls in classes]
    out = []
    for req, resp in zip(reqs, chk.driver.ask(reqs)):
        d = kv(resp)
        if resp.startswith("error") or d.get("model") != d.get("spec"):
            raise common.Infra(f"driver: model and spec shapes of {req} differ: {resp}")
        w, sg = d["spec"].split(",")
        out.append((int(w), sg == "s"))
    return out


def fmt_row(r):
    """a stored row / field must be a plain int; anything else is shown with its type"""
    return str(r) if type(r) is int else f"{type(r).__name__}:{r!r}"


def shape_bounds(w, sg):
    return (-(1 << (w - 1)), 1 << (w - 1)) if sg else (0, 1 << w)


def gen_abs_const(rng, w, sg):
    lo, hi = shape_bounds(w, sg)
    if rng.random() < 0.4:
        v = rng.choice((lo, hi - 1, -1 if lo <= -1 else hi - 1, 0 if lo <= 0 else lo))
    else:
        v = rng.randrange(lo, hi)
    return ("const", v, w, sg)


def gen_abs_init(rng, W, sg, trees=True, allow_bad=False):
    """abstract initialiser for a row / field of model shape (W, sg):
    ('int', v) | ('const', v, w, sg) | ('member', class index, member index) | ('tree', t)"""
    r = rng.random()
    if r < 0.40:
        lo, hi = shape_bounds(W, sg)
        k = rng.random()
        if k < 0.35:
            v = rng.randrange(lo, hi)
        elif k < 0.7:
            v = rng.randrange(lo - (1 << W) - 3, hi + (1 << W) + 3)
        else:
            v = rng.choice((-1, 1)) * ((1 << rng.randrange(0, W + 4)) + rng.randrange(-2, 3))
        return ("int", v)
    if r < 0.72:
        w = max(0, W + rng.choice((-3, -2, -1, -1, 0, 0, 1, 1, 2, 5)))
        return gen_abs_const(rng, w, rng.random() < 0.5 and w > 0)
    if r < 0.86 or not trees:
        ci = rng.randrange(len(ENUM_CLASSES))
        return ("member", ci, rng.randrange(len(ENUM_CLASSES[ci])))
    return ("tree", gen_tree(rng, rng.randrange(1, 3), allow_bad))


def abs_build(a):
    from amaranth.hdl import Const, Shape
    if a[0] == "int":
        return a[1]
    if a[0] == "const":
        return Const(a[1], Shape(a[2], a[3]))
    if a[0] == "member":
        return list(ENUM_CLASSES[a[1]])[a[2]]
    return build_tree(a[1])


def abs_ser(a, eshapes):
    """driver ARG of an abstract initialiser; an enumeration member is the constant of its value in the shape the
    Lean side gives its enumeration"""
    if a is None:
        return "none"
    if a[0] == "int":
        return f"(int {a[1]})"
    if a[0] == "const":
        return f"(expr (c {a[1]} {a[2]} {'s' if a[3] else 'u'}))"
    if a[0] == "member":
        w, sg = eshapes[a[1]]
        return f"(expr (c {list(ENUM_CLASSES[a[1]])[a[2]].value} {w} {'s' if sg else 'u'}))"
    return f"(expr {common.ser_value(build_tree(a[1]), {})})"   # structure of the constructed Cat/Slice tree


def abs_class(a, W, sg):
    if a[0] == "int":
        lo, hi = shape_bounds(W, sg)
        return "int-in-range" if lo <= a[1] < hi else ("int-negative" if a[1] < 0 else "int-too-wide")
    if a[0] == "const":
        rel = "narrower" if a[2] < W else ("wider" if a[2] > W else "same-width")
        return f"const-{rel}-{'s' if a[3] else 'u'}"
    return a[0]


def gen_plain_shape(rng, eshapes, ranges=True):
    """abstract row / field shape -> (description, (W, sg) used for generation, amaranth shape-like, driver SHAPE)"""
    from amaranth.hdl import Shape
    r = rng.random()
    if r < 0.12:
        ci = rng.randrange(len(ENUM_CLASSES))
        w, sg = eshapes[ci]
        return ("enum", ci), (w, sg), ENUM_CLASSES[ci], f"(shape {w} {'s' if sg else 'u'})"
    if ranges and r < 0.27:
        a, b = rng.randint(-9, 9), rng.randint(-9, 20)
        k = rng.choice((1, 1, 2, 3, -1, -2))
        w = max(abs(a), abs(b)).bit_length() + 1      # only steers the value generator
        return ("range", a, b, k), (w, a < 0 or b < 0), range(a, b, k), f"(range {a} {b} {k})"
    w = rng.choice((0, 1, 1, 2, 3, 4, 5, 8, 8, 9, 16, 33))
    sg = rng.random() < 0.5 and w > 0
    obj = w if (not sg and rng.random() < 0.2) else Shape(w, sg)     # `shape=8` is unsigned(8)
    return ("shape", w, sg), (w, sg), obj, f"(shape {w} {'s' if sg else 'u'})"


def fmt_slice(sl):
    f = lambda x: "" if x is None else str(x)  # noqa: E731
    return f"{f(sl.start)}:{f(sl.stop)}" + ("" if sl.step is None else f":{sl.step}")


def run_mem_assign(chk, quick, eshapes):
    """rows assigned after construction - `mem.init[i] = v`, `mem.init[a:b] = [...]`, `mem.init[a:b:s] = [...]`,
    `mem.init = [...]` - are wrapped like rows given to the constructor (model: memInit / initValue per row)"""
    from amaranth.hdl import Module
    from amaranth.hdl._mem import MemoryData
    from amaranth.lib.memory import Memory
    from amaranth.sim import Simulator
    rng = chk.rng
    ncase = 2000 if quick else 30000
    sec_op = Section(chk, "memory-assign")
    sec_fin = Section(chk, "memory-assign-rows")
    finished = []

    def classify(case, impl, d):
        return ["F15"] if impl == "OverflowError" and "range(" in case else []

    def gen_vals(n, sdesc, W, sg, bad):
        vals = []
        for _ in range(n):
            if sdesc[0] == "range" and rng.random() < 0.9:
                r = range(*sdesc[1:])
                vals.append(("int", rng.choice(r) if r else 0))
            elif sdesc[0] == "enum" and rng.random() < 0.5:
                vals.append(("member", sdesc[1], rng.randrange(len(ENUM_CLASSES[sdesc[1]]))))
            else:
                vals.append(gen_abs_init(rng, W, sg, allow_bad=bad))
        return vals

    for ci in range(ncase):
        sdesc, (W, sg), shape, shape_ser = gen_plain_shape(rng, eshapes)
        depth = rng.choice((0, 1, 2, 3, 4, 4, 5, 6, 8))
        kind = rng.choice(("MemoryData", "Memory"))
        bad = ci % 8 == 0
        chk.hist("mem_assign_shape", sdesc[0] if sdesc[0] != "shape" else
                 ("width0" if W == 0 else ("signed" if sg else "unsigned")))
        # constructor rows: nothing, or integers (always accepted by plain shapes; elements of a range shape)
        nctor = 0 if rng.random() < 0.5 else rng.randrange(0, depth + 1)
        if sdesc[0] == "range":
            r = range(*sdesc[1:])
            ctor = [("int", rng.choice(r)) for _ in range(nctor)] if r else []
        else:
            ctor = [("int", rng.randrange(-(2 << W), (2 << W) + 1)) for _ in range(nctor)]
        args = [a for a in ctor] + [None] * (depth - len(ctor))     # None: a row nothing was stored in (holds 0)
        text = f"{kind}(shape={shape!r}, depth={depth}, init={[abs_build(a) for a in ctor]!r})"

        def build():
            cls = MemoryData if kind == "MemoryData" else Memory
            return cls(shape=shape, depth=depth, init=[abs_build(a) for a in ctor])
        mem, err, _w = with_warnings(build)
        impl = ";".join("ok," + fmt_row(r) for r in mem.init) if err is None else err
        sec_op.add(f"(mem {depth} {shape_ser}" + "".join(" " + abs_ser(a, eshapes) for a in ctor) + ")", impl, text[:400],
                   nontrivial=len(ctor) > 0, key=("ctor", ci))
        failed = err is not None
        nops = rng.randrange(1, 5)
        for oi in range(nops):
            if failed:
                break
            k = rng.random()
            if k < 0.28 and depth > 0:
                op = "item"
                idx = rng.randrange(-depth, depth)
                targets = [idx % depth]
                vals = gen_vals(1, sdesc, W, sg, bad)
                objs = [abs_build(a) for a in vals]
                optext = f".init[{idx}] = {objs[0]!r}"

                def apply():
                    mem.init[idx] = objs[0]
            elif k < 0.85:
                ext = rng.random() < 0.45
                op = "extslice" if ext else "slice"
                bound = lambda: rng.choice((None, rng.randint(-depth - 1, depth + 1)))  # noqa: E731
                sl = slice(bound(), bound(), rng.choice((2, 3, -1, -2, 2)) if ext else rng.choice((None, None, 1)))
                if not ext and rng.random() < 0.5 and depth > 0:
                    a = rng.randrange(0, depth)
                    sl = slice(a, rng.randrange(a, depth + 1), sl.step)      # ordinary non-empty windows
                targets = list(range(*sl.indices(depth)))
                chk.hist("mem_assign_slice_rows", len(targets))
                vals = gen_vals(len(targets), sdesc, W, sg, bad)
                objs = [abs_build(a) for a in vals]
                optext = f".init[{fmt_slice(sl)}] = {objs!r}"

                def apply():
                    mem.init[sl] = objs
            else:
                op = "whole"
                n = rng.randrange(0, depth + 1) if rng.random() < 0.9 else depth + rng.randrange(1, 3)
                targets = list(range(depth))
                vals = gen_vals(n, sdesc, W, sg, bad)
                objs = [abs_build(a) for a in vals]
                optext = f".init = {objs!r}"

                def apply():
                    mem.init = objs
            _v, err, _w = with_warnings(apply)
            text = (text + "; " + optext)[:600]
            for a in vals:
                chk.hist("mem_assign_value", abs_class(a, W, sg))
            chk.hist("mem_assign_op", op)
            chk.hist("mem_assign_outcome", "ok" if err is None else err)
            nrows = depth if op == "whole" else len(vals)
            if err is None:
                impl = ";".join("ok," + fmt_row(mem.init[j]) for j in targets)
            else:
                impl = err
                failed = True
            sec_op.add(f"(mem {nrows} {shape_ser}" + "".join(" " + abs_ser(a, eshapes) for a in vals) + ")", impl,
                       f"{text} -> rows {targets}", nontrivial=len(vals) > 0, key=("op", ci, oi))
            if err is None:
                if op == "whole":
                    args = list(vals) + [None] * (depth - len(vals))
                else:
                    for j, a in zip(targets, vals):
                        args[j] = a
        if failed:
            continue
        # every row afterwards: the last initialiser stored there (or 0), wrapped; untouched rows unchanged
        impl = ";".join("ok," + fmt_row(r) for r in mem.init)
        i = sec_fin.add(f"(mem {depth} {shape_ser}" + "".join(" " + abs_ser(a, eshapes) for a in args) + ")", impl,
                        f"{text}; list(.init)", nontrivial=depth > 0, key=("rows", ci))
        if depth > 0:
            finished.append((i, kind, mem, text))
        if ci < 2:
            chk.sample({"memory": text[:300], "rows": impl})
    sec_op.flush(spec_of=mem_spec, model_of=mem_model, classify=classify)
    sec_fin.flush(spec_of=mem_spec, model_of=mem_model, classify=classify)

    # the rows the simulator starts from: compared with the Spec rows of the driver (not with `.init`)
    sample = finished[:: max(1, len(finished) // (80 if quick else 800))]
    m = Module()
    insts = []
    for n, (i, kind, mem, text) in enumerate(sample):
        spec = mem_spec(sec_fin.last[i])
        if not spec or not all(r.startswith("ok,") for r in spec.split(";")):
            continue
        memory = Memory(mem) if kind == "MemoryData" else mem
        m.submodules[f"m{n}"] = memory
        insts.append((memory, [r.split(",")[1] for r in spec.split(";")], text))
    got = {}

    async def tb(ctx):
        for n, (memory, rows, _t) in enumerate(insts):
            got[n] = [fmt_row(ctx.get(memory.data[j])) for j in range(len(rows))]

    def simulate():
        with warnings.catch_warnings():
            warnings.simplefilter("ignore")
            sim = Simulator(m)
            sim.add_testbench(tb)
            sim.run()
    _v, err = guarded(simulate)
    chk.count(len(insts))
    chk.hist("mem_assign_simulated", "memories", len(insts))
    if err is not None:
        chk.violation(f"memory-assign: simulating memories whose rows were assigned after construction raises {err}",
                      {"section": "memory-assign-sim", "error": err, "memories": [t for _m, _r, t in insts][:5],
                       "classes": []})
    else:
        for n, (memory, rows, text) in enumerate(insts):
            if got.get(n) != rows:
                chk.violation(f"memory-assign: {text}: the simulator starts from rows {got.get(n)}, "
                              f"property requires {rows}",
                              {"section": "memory-assign-sim", "case": text, "sim": got.get(n), "spec": rows,
                               "classes": []})
    chk.extra.setdefault("exhaustive", {})["memory-assign"] = \
        (f"random: {ncase} memories (MemoryData and lib.memory.Memory; unsigned/signed/width-0/int/range/plain-enum row "
         f"shapes) with 1-4 assignments each after construction (single row, slice, extended slice, whole `init`); values: "
         f"in-range / negative / too wide integers, Const of narrower, equal, wider width and either signedness, enum members, "
         f"Cat/Slice trees; rows read back after every assignment and at the end, {len(insts)} memories simulated")


def run_enum_hier(chk, quick):
    """enumerations derived from member-less base enumerations; the order in which the classes of one hierarchy are cast
    is varied (base first / derived first / base never / random, classes cast repeatedly, several derived classes)"""
    from amaranth.hdl import Shape, Signal, Value
    import amaranth.lib.enum as aenum
    rng = chk.rng
    kinds = {"Enum": enum.Enum, "IntEnum": enum.IntEnum, "amaranth.Enum": aenum.Enum, "amaranth.IntEnum": aenum.IntEnum}
    patterns = ("base-first", "derived-first", "base-never", "random")
    ncase = 480 if quick else 8000
    sec = Section(chk, "enum-hier")
    secm = Section(chk, "enum-hier-member")
    secv = Section(chk, "enum-hier-member-value")
    for ci in range(ncase):
        kind = list(kinds)[(ci // len(patterns)) % len(kinds)]
        pattern = patterns[ci % len(patterns)]
        nbase = rng.choice((1, 1, 2))
        nder = rng.randrange(1, 4)
        dvals = []
        for _ in range(nder):
            size = rng.choice((0, 1, 1, 2, 2, 3, 4))
            vals = []
            while len(vals) < size:
                v = rng.choice((-1, 1)) * ((1 << rng.randrange(0, 40)) + rng.randrange(-2, 3)) if rng.random() < 0.3 \
                    else rng.choice(ENUM_POOL + [5, 6, -3, 1000, -129])
                if v not in vals:
                    vals.append(v)
            dvals.append(vals)
        # classes: member-less bases B0 (<- B1), then the derived classes, each under one of the bases
        with warnings.catch_warnings():
            warnings.simplefilter("ignore")
            bases = [kinds[kind]("B0", {})]
            for bi in range(1, nbase):
                bases.append(bases[-1](f"B{bi}", {}))
            parents = [rng.randrange(nbase) if rng.random() < 0.3 else nbase - 1 for _ in range(nder)]
            derived = [bases[parents[j]](f"D{j}", {f"M{k}": v for k, v in enumerate(dvals[j])}) for j in range(nder)]
        classes = bases + derived
        values = [[] for _ in bases] + dvals
        names = [f"B{bi}" for bi in range(nbase)] + [f"D{j}(B{parents[j]})" for j in range(nder)]
        bidx, didx = list(range(nbase)), list(range(nbase, nbase + nder))
        if pattern == "base-first":
            order = (bidx if rng.random() < 0.5 else bidx[::-1]) + rng.sample(didx, len(didx))
            order += [rng.choice(bidx + didx) for _ in range(rng.randrange(0, 3))]
        elif pattern == "derived-first":
            order = rng.sample(didx, len(didx)) + bidx + rng.sample(didx, len(didx))
        elif pattern == "base-never":
            order = rng.sample(didx, len(didx)) + [rng.choice(didx) for _ in range(rng.randrange(0, 3))]
        else:
            order = [rng.choice(bidx + didx) for _ in range(rng.randrange(2, 9))]
        desc = f"{kind} hierarchy " + ", ".join(f"{n}={v}" for n, v in zip(names, values))
        otext = " ".join(names[c].split("(")[0] for c in order)
        chk.hist("enum_hier_kind", kind)
        chk.hist("enum_hier_pattern", pattern)
        chk.hist("enum_hier_bases", nbase)
        chk.hist("enum_hier_derived", nder)
        seen = set()
        for pos, c in enumerate(order):
            cls, vals = classes[c], values[c]
            req = "(enum" + "".join(f" {v}" for v in vals) + ")"
            val, err, _w = with_warnings(lambda: Shape.cast(cls))
            state = ("base" if c < nbase else "derived") + ("-again" if c in seen else "-first") + \
                ("" if c < nbase else ("-after-base" if any(b in seen for b in bidx) else "-before-base"))
            chk.hist("enum_hier_cast", state)
            seen.add(c)
            where = f"{desc}; casts in the order {otext}; cast #{pos + 1}"
            sec.add(req, shs(val) if err is None else err, f"{where}: Shape.cast({names[c]})",
                    nontrivial=len(vals) > 0, key=(ci, pos))
            if not vals:
                continue
            # a member used as a value, and as the initial value of a signal of the enumeration
            mi = rng.randrange(len(vals))
            member = list(cls)[mi]
            cv, err, _w = with_warnings(lambda: Value.cast(member))
            secm.add(req, shs(cv.shape()) if err is None else err, f"{where}: Value.cast({names[c]}.M{mi}).shape()",
                     key=(ci, pos, "v"))
            if err is None:
                secv.add(f"(const {vals[mi]} {ser_shape(cv.shape())})", str(cv.value),
                         f"{where}: Value.cast({names[c]}.M{mi}).value", key=(ci, pos, "vv"))
            sv, err, _w = with_warnings(lambda: Value.cast(Signal(cls, init=member)))
            secm.add(req, shs(sv.shape()) if err is None else err,
                     f"{where}: Signal({names[c]}, init=M{mi}).shape()", key=(ci, pos, "s"))
            if err is None:
                secv.add(f"(const {vals[mi]} {ser_shape(sv.shape())})", str(sv.init),
                         f"{where}: Signal({names[c]}, init=M{mi}).init", key=(ci, pos, "sv"))
        if ci < 2:
            chk.sample({"enum hierarchy": desc, "cast order": otext})
    sec.flush()
    secm.flush()
    secv.flush()
    chk.extra.setdefault("exhaustive", {})["enum-hier"] = \
        (f"random: {ncase} hierarchies (enum.Enum, enum.IntEnum, shape-less amaranth.lib.enum.Enum/IntEnum; 1-2 member-less "
         f"bases, 1-3 derived classes of 0-4 members, negative and wide values), cast orders base-first / derived-first / "
         f"base-never / random with repeats; per cast Shape.cast, a member as value and as Signal init")


def run_layouts(chk, quick, eshapes):
    """layout-shaped constants and signal initial values: every field holds its initialiser (int, enum member, Const of
    narrower / equal / wider width and either signedness) wrapped to the FIELD's shape, at the field's offset.
    The driver gives constNorm / constOf per field (`init` request); offsets and the placement are computed here from the
    abstract description (sum of the widths before the field; element index * width; 0 in a union)."""
    from amaranth.hdl import Const, Shape, Signal
    from amaranth.lib import data
    import types
    rng = chk.rng
    ncase = 2500 if quick else 40000
    reqs, pend = [], []
    for ci in range(ncase):
        lk = rng.choice(("struct", "struct", "struct", "array", "array", "union", "structcls"))
        fields = []          # (key, (W, sg), amaranth shape, driver SHAPE, offset)
        if lk == "array":
            _sd, wsg, obj, ser = gen_plain_shape(rng, eshapes, ranges=False)
            n = rng.randrange(1, 5)
            fields = [(j, wsg, obj, ser, j * wsg[0]) for j in range(n)]
            total = n * wsg[0]
            layout = data.ArrayLayout(obj, n)
            ltext = f"ArrayLayout({obj!r}, {n})"
        else:
            off = 0
            total = 0
            for j in range(rng.randrange(1, 5)):
                _sd, wsg, obj, ser = gen_plain_shape(rng, eshapes, ranges=False)
                if wsg[0] > 16:
                    wsg, obj, ser = (7, True), Shape(7, True), "(shape 7 s)"
                fields.append((f"f{j}", wsg, obj, ser, 0 if lk == "union" else off))
                off += wsg[0]
                total = max(total, wsg[0]) if lk == "union" else off
            members = {k: obj for k, _w, obj, _s, _o in fields}
            if lk == "union":
                layout = data.UnionLayout(members)
            else:
                layout = data.StructLayout(members)
            ltext = f"{'Union' if lk == 'union' else 'Struct'}Layout({members!r})"
        byname = {f[0]: f for f in fields}
        # initialisers
        keys = [f[0] for f in fields]
        if lk == "union":
            chosen = [rng.choice(keys)]
        else:
            chosen = [k for k in keys if rng.random() < 0.8] or [rng.choice(keys)]
            rng.shuffle(chosen)
        init_abs = {k: gen_abs_init(rng, *byname[k][1], trees=False) for k in chosen}
        defaults = {}
        target = layout
        if lk == "structcls":
            defaults = {k: gen_abs_init(rng, *byname[k][1], trees=False) for k in keys if rng.random() < 0.5}
            ns = {"__annotations__": {k: byname[k][2] for k in keys}}
            ns.update({k: abs_build(a) for k, a in defaults.items()})
            target = types.new_class(f"S{ci}", (data.Struct,), {}, lambda d: d.update(ns))
            ltext = f"Struct class over {ltext} with defaults {({k: abs_build(a) for k, a in defaults.items()})!r}"[:300]
        seq = lk == "array" and rng.random() < 0.4
        if seq:
            # sequence form: elements 0..k-1 in order
            k = rng.randrange(1, len(keys) + 1)
            init_abs = {j: gen_abs_init(rng, *byname[j][1], trees=False) for j in range(k)}
            init_obj = [abs_build(a) for a in init_abs.values()]
        else:
            init_obj = {k: abs_build(a) for k, a in init_abs.items()}
        # effective field assignments in order: class defaults first (declaration order), overridden in place
        effective = dict(defaults)
        effective.update(init_abs)
        items = list(effective.items())
        for k, a in items:
            chk.hist("layout_field_init", abs_class(a, *byname[k][1]))
        chk.hist("layout_kind", lk + ("-seq" if seq else ""))
        chk.hist("layout_total_width", total)
        obs = {}
        with warnings.catch_warnings():
            warnings.simplefilter("ignore")
            if lk == "structcls":
                obs["const"] = guarded(lambda: target.const(init_obj).as_bits())
            else:
                obs["const"] = guarded(lambda: layout.const(init_obj).as_bits())
            obs["Const(init, layout)"] = guarded(lambda: Const(init_obj, target).as_bits())
            obs["Signal(layout, init=)"] = guarded(lambda: Signal(target, init=init_obj).as_value().init)
            if lk not in ("union",) and obs["const"][1] is None:
                c = layout.const(init_obj) if lk != "structcls" else target.const(init_obj)
                for k, a in items:
                    if not isinstance(byname[k][2], type):      # plain Shape / int fields read back as int
                        obs[f"const[{k!r}]"] = guarded(lambda: c[k])
        text = f"{ltext}, init={init_obj!r}"[:500]
        for k, a in items:
            reqs.append(f"(init {abs_ser(a, eshapes)} {byname[k][3]})")
        pend.append((ci, text, [(k, byname[k][1], byname[k][4]) for k, _a in items], obs))
        chk.distinct(("layout", ci, text), True)
        if ci < 2:
            chk.sample({"layout": text, "bits": obs["const"][0]})
    resps = chk.driver.ask(reqs)
    pos = 0
    broken = []
    nobs = 0
    for ci, text, items, obs in pend:
        exp = {"spec": 0, "model": 0}
        fieldvals = {}
        for k, (w, _sg), off in items:
            resp = resps[pos]
            req = reqs[pos]
            pos += 1
            if resp.startswith("error"):
                raise common.Infra(f"driver rejected {req!r}: {resp}")
            d = kv(resp)
            vals = {}
            for side in ("spec", "model"):
                parts = d.get(side, "").split(",")
                if parts[0] != "ok":
                    raise common.Infra(f"driver: field initialiser {req!r} is not a constant: {resp}")
                vals[side] = int(parts[1])
                mask = ((1 << w) - 1) << off
                exp[side] = (exp[side] & ~mask) | ((vals[side] << off) & mask)
            fieldvals[k] = vals
        for name, (val, err) in obs.items():
            nobs += 1
            impl = val if err is None else err
            if name.startswith("const["):
                k = [k for k in fieldvals if name == f"const[{k!r}]"][0]
                want = fieldvals[k]
                impl = fmt_row(impl) if err is None else err
                want = {s: str(v) for s, v in want.items()}
            else:
                want = exp
            if impl != want["spec"]:
                chk.violation(f"layout-const: {text}: {name} gives {impl if isinstance(impl, str) else hex(impl)}, "
                              f"property requires {want['spec'] if isinstance(want['spec'], str) else hex(want['spec'])}",
                              {"section": "layout-const", "case": text, "observable": name, "impl": impl,
                               "spec": want["spec"], "model": want["model"],
                               "fields": [(repr(k), w, off) for k, (w, _s), off in items], "classes": []})
            elif impl != want["model"]:
                broken.append({"case": text, "observable": name, "impl": impl, "model": want["model"]})
    chk.count(nobs)
    if broken:
        chk.not_shown(f"layout-const: the code agrees with the Spec but no longer with the Lean model ({len(broken)} cases)",
                      broken[:10])
    chk.extra.setdefault("exhaustive", {})["layout-const"] = \
        (f"random: {ncase} struct / array / union layouts and data.Struct classes with field defaults (1-4 fields of "
         f"unsigned/signed/width-0/int/plain-enum shape), initialisers int (in range, negative, too wide), enum members, "
         f"Const narrower / equal / wider than the field and of either signedness, mapping order shuffled, sequence form "
         f"for arrays; observed: layout.const(init).as_bits(), Const(init, layout), Signal(layout, init=).init, field read-back")



def run_bits(chk, quick):
    from amaranth.utils import bits_for, ceil_log2
    sec = Section(chk, "bits_for")
    ns = list(range(-1100, 1101)) + ring(200)
    for n in ns:
        for rs in (False, True):
            sec.add(f"(bitsfor {n} {1 if rs else 0})", str(bits_for(n, rs)), f"bits_for({n}, {rs})")
    sec.flush()
    sec = Section(chk, "ceil_log2")
    for n in ns:
        val, err = guarded(lambda: ceil_log2(n))
        if n < 0:
            chk.count()
            if err != "ValueError":
                chk.violation(f"ceil_log2({n}) must raise ValueError, got {val if err is None else err}",
                              {"n": n, "classes": []})
            continue
        sec.add(f"(ceillog2 {n})", str(val) if err is None else err, f"ceil_log2({n})")
    sec.flush()
    chk.extra.setdefault("exhaustive", {})["bits"] = \
        "bits_for(n, False/True) and ceil_log2(n) for n in [-1100, 1100] and +-2^k+d, k <= 200, |d| <= 2"


def run_pyops(chk, quick):
    """CPython & | >> against the Lean pyAnd / pyOr / pyShr the model is written with"""
    rng = chk.rng
    reqs, exp = [], []
    for _ in range(2000 if quick else 20000):
        a = rng.choice((-1, 1)) * rng.randrange(0, 1 << rng.randrange(1, 80))
        b = rng.choice((-1, 1)) * rng.randrange(0, 1 << rng.randrange(1, 80))
        n = rng.randrange(0, 90)
        reqs.append(f"(pyops {a} {b} {n})")
        exp.append(f"pyops and={a & b} or={a | b} shr={a >> n}")
    resps = chk.driver.ask(reqs)
    bad = [(r, e, g) for r, e, g in zip(reqs, exp, resps) if e != g]
    if bad:
        raise common.Infra(f"Lean pyAnd/pyOr/pyShr disagree with CPython: {bad[:3]}")


def run(chk):
    if not chk.lean():
        chk.not_shown("Lean build of Properties/C10 failed", chk.build_log[-3000:])
        return
    quick = chk.tier == "quick"
    run_pyops(chk, quick)
    run_bits(chk, quick)
    run_ranges(chk, quick)
    run_enums(chk, quick)
    run_consts(chk, quick)
    run_trees(chk, quick)
    run_inits(chk, quick)
    eshapes = model_enum_shapes(chk, ENUM_CLASSES)
    run_mem_assign(chk, quick, eshapes)
    run_enum_hier(chk, quick)
    run_layouts(chk, quick, eshapes)
    chk.cov["rule"] = ("small domains enumerated completely (see coverage.exhaustive), large values sampled around powers of two "
                       "from the seeded PRNG; a case is distinct by its driver request, non-trivial unless it is an empty enum, "
                       "a bare Const tree or an absent initial value; every accepted Cat/Slice tree of constants is also "
                       "evaluated by a compiled circuit (comb assignment to a target of its width and to a wider one) and by "
                       "ctx.get, against the Spec value; memory rows assigned after construction, enumeration "
                       "hierarchies with varied cast order and layout constants are random streams described abstractly "
                       "(integers only) and distinct by (case, step)")
    chk.assumptions += [
        "enumerations are integer-valued (the model takes the list of distinct member values in definition order; "
        "aliases are not members)",
        "a Concat of n parts is encoded as the right-nested binary cat chain of Model/Expr.lean (validated by this correspondence)",
        "range-shaped signals are given integer (or no) initial values; Signal(range(..), init=Const(..)) raises TypeError "
        "from `orig_init not in orig_shape` and is outside the documented inputs (int or enum member)",
        "ShapeCastable shapes are covered by C15, except that layout-shaped constants / signal initial values over fields of "
        "plain shape (unsigned, signed, int, plain enum) are checked here field by field: the driver gives each field's "
        "wrapped value, the harness places it at the field offset computed from the widths in the abstract description",
        "a memory row nothing was stored in holds 0 (also in a range-shaped memory whose range does not contain 0), "
        "as MemoryData.Init and the model's memInit do",
    ]
