"""C15 - data layouts and shaped enumerations obey the shape-castable laws.

The generator works on an abstract syntax of layout trees / enumeration classes / initialisers; the
amaranth objects are *built* from it (worker processes), the same tree is serialised for the Lean
driver `amodel_c15`, which returns Model and Spec values (lean/AmaranthVerif/Driver/C15Main.lean).

abstract syntax (tuples, picklable)
  shape      ("p", width, signed, style)        style: how the shape is written (Shape / unsigned() / int)
  enum       ("enum", eid)                       eid indexes case["enums"]: (kind, width, signed, ((name, value)...))
                                                 kind: "e" (Enum) | "strict" | "conform" | "eject" | "keep" (Flag)
  layout     ("struct", ((name, fs)...), as_class) | ("union", ((name, fs)...), as_class)
             | ("array", fs, n) | ("flex", size, ((key, fs, off)...))
  init       ("none",) | ("int", v, style) | ("map", ((key, init)...), as_seq) | ("bits", raw)
"""
import os
import random
import traceback
from concurrent.futures import ProcessPoolExecutor

from .. import common
from ..common import errkind

LEVEL = "proof"
EXE = "amodel_c15"

# finding classes (DESIGN.md section 5)
F11 = "F11"      # UnionLayout.const(data.Const) raises TypeError
F12 = "F12"      # signed shaped enumeration as a layout field
F16 = "F16"      # FlagView.__invert__ under EJECT/KEEP complements the whole shape, Python only `_all_bits_`
F17 = "F17"      # RTLIL backend: to_binary(negative member of a signed shaped enumeration) raises ValueError


# ------------------------------------------------------------------------------------------------
# generator (abstract syntax only; runs in the main process, driven by chk.rng)

def gen_enum(rng, for_field=True, unnamed_bits=False):
    r = rng.random()
    if r < 0.55:
        signed = rng.random() < 0.35
        w = rng.randint(1, 4) if not signed else rng.randint(1, 4)
        if rng.random() < 0.04 and not signed:
            w = 0
        lo, hi = (-(1 << (w - 1)), 1 << (w - 1)) if signed else (0, 1 << w)
        dom = list(range(lo, hi))
        k = rng.randint(1, min(4, len(dom)))
        vals = rng.sample(dom, k)
        if 0 in dom and 0 not in vals and rng.random() < 0.6:
            vals[0] = 0
        return ("e", w, signed, tuple((f"M{i}", v) for i, v in enumerate(vals)))
    kind = rng.choice(["strict"] * 5 + ["conform", "eject", "keep"] * 2)
    w = rng.randint(1, 5)
    nbits = rng.randint(1, w)
    bits = sorted(rng.sample(range(w), nbits))
    members = [(f"B{b}", 1 << b) for b in bits]
    if len(bits) >= 2 and rng.random() < 0.35:       # an alias: combination of declared single bits
        sub = rng.sample(bits, 2)
        members.append(("AL", (1 << sub[0]) | (1 << sub[1])))
    if unnamed_bits:
        # multi-bit members over bits that have no single-bit member of their own (`MODE = 12` next to `EN = 1`,
        # `IRQ = 2`): `_flag_mask_` then differs from `_singles_mask_`. Flag stream only: reading arbitrary bit
        # patterns of such a class is outside "member combinations" (Python accepts some and rejects others).
        free = [b for b in range(w) if b not in bits]
        rng.shuffle(free)
        if free:
            k = rng.randint(1, min(2, len(free)))
            mv = 0
            for b in free[:k]:
                mv |= 1 << b
            if rng.random() < 0.3:
                mv |= 1 << rng.choice(bits)               # ... possibly together with a named bit
            if mv & (mv - 1) or rng.random() < 0.5:
                if not (mv & (mv - 1)):                    # a single unnamed bit alone would be a named bit: add one
                    mv |= 1 << rng.choice(bits)
                members.append(("MB", mv))
            if len(free) > k and rng.random() < 0.3:
                mv2 = (1 << free[k]) | (1 << rng.choice(bits))
                members.append(("MB2", mv2))
    rng.shuffle(members)
    return (kind, w, False, tuple(members))


def enum_shape(e):
    return (e[1], e[2])


def gen_fs(rng, depth, enums, budget):
    r = rng.random()
    if depth > 0 and r < 0.5:
        return gen_layout(rng, depth - 1, enums, budget)
    if r < 0.62:
        if enums and rng.random() < 0.5:
            eid = rng.randrange(len(enums))
        else:
            enums.append(gen_enum(rng))
            eid = len(enums) - 1
        return ("enum", eid)
    w = rng.choice([0, 1, 1, 2, 2, 3, 3, 4, 5, 7, 8])
    s = w > 0 and rng.random() < 0.45
    style = rng.choice(["shape", "fn", "int"]) if not s else rng.choice(["shape", "fn"])
    return ("p", w, s, style)


NAMES = ["a", "b", "c", "d", "e2", "f0", "_pad", "x", "y", "len_", "val"]


def gen_layout(rng, depth, enums, budget):
    k = rng.random()
    if k < 0.38:
        n = rng.choice([0, 1, 2, 2, 3, 3, 4])
        names = rng.sample(NAMES, n)
        return ("struct", tuple((nm, gen_fs(rng, depth, enums, budget)) for nm in names), rng.random() < 0.2)
    if k < 0.56:
        n = rng.choice([0, 1, 2, 2, 3])
        names = rng.sample(NAMES, n)
        return ("union", tuple((nm, gen_fs(rng, depth, enums, budget)) for nm in names), rng.random() < 0.2)
    if k < 0.80:
        return ("array", gen_fs(rng, depth, enums, budget), rng.choice([0, 1, 2, 2, 3, 3, 4, 5]))
    n = rng.choice([0, 1, 2, 3, 3, 4])
    fields = []
    end = 0
    keys = rng.sample(NAMES + [0, 1, 2, 3, 7], n)
    for key in keys:
        fs = gen_fs(rng, depth, enums, budget)
        w = fs_width(fs, enums)
        mode = rng.random()
        if mode < 0.45:
            off = end + rng.choice([0, 0, 1, 2])              # after the previous ones, maybe a gap
        elif mode < 0.8 and end > 0:
            off = rng.randint(0, end)                          # overlap something
        else:
            off = rng.randint(0, 6)
        fields.append((key, fs, off))
        end = max(end, off + w)
    size = end + rng.choice([0, 0, 0, 1, 3])
    return ("flex", size, tuple(fields))


def fs_width(fs, enums):
    if fs[0] == "p":
        return fs[1]
    if fs[0] == "enum":
        return enums[fs[1]][1]
    return layout_size(fs, enums)


def layout_size(l, enums):
    """harness-side size, used only to steer generation (never compared)"""
    t = l[0]
    if t == "struct":
        return sum(fs_width(fs, enums) for _n, fs in l[1])
    if t == "union":
        return max([fs_width(fs, enums) for _n, fs in l[1]], default=0)
    if t == "array":
        return fs_width(l[1], enums) * l[2]
    return l[1]


def fields_of(l, enums):
    """[(key, fs, off, w)] in declaration order (steering only)"""
    t = l[0]
    out = []
    if t == "struct":
        off = 0
        for n, fs in l[1]:
            w = fs_width(fs, enums)
            out.append((n, fs, off, w))
            off += w
    elif t == "union":
        for n, fs in l[1]:
            out.append((n, fs, 0, fs_width(fs, enums)))
    elif t == "array":
        w = fs_width(l[1], enums)
        for i in range(l[2]):
            out.append((i, l[1], i * w, w))
    else:
        for k, fs, off in l[2]:
            out.append((k, fs, off, fs_width(fs, enums)))
    return out


def depth_of(l):
    t = l[0]
    if t in ("p", "enum"):
        return 0
    if t in ("struct", "union"):
        return 1 + max([depth_of(fs) for _n, fs in l[1]], default=0)
    if t == "array":
        return 1 + depth_of(l[1])
    return 1 + max([depth_of(fs) for _k, fs, _o in l[2]], default=0)


def all_paths(l, enums, limit=40):
    """every field path (tuple of keys) with the abstract shape of the field"""
    out = []

    def walk(lay, prefix):
        for key, fs, _off, _w in fields_of(lay, enums):
            if len(out) >= limit:
                return
            p = prefix + (key,)
            out.append((p, fs))
            if fs[0] not in ("p", "enum"):
                walk(fs, p)
    walk(l, ())
    return out


def gen_value(rng, fs, enums, malformed=0.0):
    """an initialiser for a field of abstract shape fs"""
    if fs[0] == "p":
        w, s = fs[1], fs[2]
        if rng.random() < malformed:
            return ("map", (), False)                             # TypeError: a mapping for a plain field
        span = 1 << (w + 1)
        v = rng.randint(-span, span) if rng.random() < 0.5 else rng.randint(0, max(0, (1 << w) - 1))
        return ("int", v, rng.choice(["int", "int", "const"]))
    if fs[0] == "enum":
        e = enums[fs[1]]
        if rng.random() < malformed:
            bad = [v for v in range(-2 if e[0] == "e" else 0, (1 << e[1]) + 1) if not enum_valid(e, v)]
            if bad:
                return ("int", rng.choice(bad), "int")
        vals = valid_values(e)
        v = rng.choice(vals) if vals else 0
        return ("int", v, rng.choice(["member", "int"]))
    return gen_init(rng, fs, enums, malformed)


def gen_init(rng, l, enums, malformed=0.0):
    r = rng.random()
    if r < 0.06:
        return ("none",)
    if r < 0.16:
        size = layout_size(l, enums)
        return ("bits", rng.getrandbits(size) if size else 0)
    if rng.random() < malformed / 2:
        return ("int", 1, "int")                                   # TypeError: not a mapping or sequence
    fl = fields_of(l, enums)
    t = l[0]
    if t == "union":
        chosen = rng.sample(fl, min(len(fl), 1 if rng.random() > malformed else 2))
    elif t == "array" and rng.random() < 0.6:
        n = rng.randint(0, len(fl))
        return ("map", tuple((i, gen_value(rng, l[1], enums, malformed)) for i in range(n)), True)
    else:
        chosen = [f for f in fl if rng.random() < 0.8]
        rng.shuffle(chosen)
    kvs = [(key, gen_value(rng, fs, enums, malformed)) for key, fs, _o, _w in chosen]
    if rng.random() < malformed:
        kvs.append(("nosuch", ("int", 0, "int")))                  # ValueError: unknown key
    return ("map", tuple(kvs), False)


def enum_valid(e, v):
    kind, _w, _s, members = e
    if kind == "e":
        return v in [m[1] for m in members]
    mask = 0
    for _n, mv in members:
        mask |= mv
    return v >= 0 and (v & ~mask) == 0


def valid_values(e):
    kind, w, s, members = e
    if kind == "e":
        return [m[1] for m in members]
    return [v for v in range(1 << w) if enum_valid(e, v)]


def has_unnamed_bits(e):
    """a Flag with a multi-bit member containing a bit that has no single-bit member"""
    if e[0] == "e":
        return False
    singles = mask = 0
    for _n, v in e[3]:
        mask |= v
        if v & (v - 1) == 0:
            singles |= v
    return mask != singles


def is_combination(e, v):
    """v is a union of declared members (what the property calls a member combination)"""
    acc = 0
    for _n, mv in e[3]:
        if mv & v == mv:
            acc |= mv
    return v >= 0 and acc == v


def combinations(e):
    return [v for v in range(1 << e[1]) if is_combination(e, v)]


def has_signed_enum_field(l, enums):
    t = l[0]
    if t == "enum":
        return enums[l[1]][2]
    if t == "p":
        return False
    if t in ("struct", "union"):
        return any(has_signed_enum_field(fs, enums) for _n, fs in l[1])
    if t == "array":
        return l[2] >= 0 and has_signed_enum_field(l[1], enums)
    return any(has_signed_enum_field(fs, enums) for _k, fs, _o in l[2])


def has_negative_enum_member(l, enums):
    return any(v < 0 for e in enums for _n, v in e[3])


def bare_union_gets_bits(l, init):
    """does the initialiser hand a data.Const to a bare UnionLayout (top level or nested)? (F11)"""
    if l[0] in ("p", "enum"):
        return False
    if init[0] == "bits":
        return l[0] == "union" and not l[2]
    if init[0] != "map":
        return False
    sub = {}
    if l[0] in ("struct", "union"):
        sub = {n: fs for n, fs in l[1]}
    elif l[0] == "array":
        sub = {i: l[1] for i in range(l[2])}
    else:
        sub = {k: fs for k, fs, _o in l[2]}
    return any(k in sub and bare_union_gets_bits(sub[k], v) for k, v in init[1])


# ------------------------------------------------------------------------------------------------
# serialisation for the driver

def ser_key(k):
    return f"i:{k}" if isinstance(k, int) else f"n:{k}"


def ser_enum(e):
    kind, w, s, members = e
    return f"(enum ({'s' if s else 'u'} {w}) ({' '.join(str(v) for _n, v in members)}) {kind})"


def ser_fs(fs, enums):
    if fs[0] == "p":
        return f"(p ({'s' if fs[2] else 'u'} {fs[1]}))"
    if fs[0] == "enum":
        return ser_enum(enums[fs[1]])
    return ser_layout(fs, enums)


def ser_layout(l, enums):
    t = l[0]
    if t in ("struct", "union"):
        return f"({t}" + "".join(f" ({ser_key(n)} {ser_fs(fs, enums)})" for n, fs in l[1]) + ")"
    if t == "array":
        return f"(array {ser_fs(l[1], enums)} {l[2]})"
    return f"(flex {l[1]}" + "".join(f" ({ser_key(k)} {ser_fs(fs, enums)} {off})" for k, fs, off in l[2]) + ")"


def ser_init(i):
    if i[0] == "none":
        return "none"
    if i[0] == "int":
        return f"(int {i[1]})"
    if i[0] == "bits":
        return f"(bits {i[1]})"
    return "(map" + "".join(f" ({ser_key(k)} {ser_init(v)})" for k, v in i[1]) + ")"


# ------------------------------------------------------------------------------------------------
# amaranth side (worker processes)

class Env:
    """enumeration classes of one case, built once (EnumView compares classes by identity)"""

    def __init__(self, enums):
        self.enums = enums
        self.cache = {}
        self.counter = 0

    def enum_class(self, eid):
        if eid in self.cache:
            return self.cache[eid]
        import enum as py_enum
        from amaranth.hdl import Shape
        from amaranth.lib import enum as aenum
        kind, w, s, members = self.enums[eid]
        base = aenum.Enum if kind == "e" else aenum.Flag
        kw = {}
        if kind != "e":
            kw["boundary"] = getattr(py_enum, kind.upper())
        ns = aenum.EnumType.__prepare__(f"E{eid}", (base,), **kw)
        for n, v in members:
            ns[n] = v
        cls = aenum.EnumType(f"E{eid}", (base,), ns, shape=Shape(w, s), **kw)
        self.cache[eid] = cls
        return cls

    def shape(self, fs):
        from amaranth.hdl import Shape, unsigned, signed
        if fs[0] == "p":
            _t, w, s, style = fs
            if style == "int":
                return w
            if style == "fn":
                return signed(w) if s else unsigned(w)
            return Shape(w, s)
        if fs[0] == "enum":
            return self.enum_class(fs[1])
        return self.layout(fs)

    def layout(self, l):
        from amaranth.lib import data
        t = l[0]
        if t in ("struct", "union"):
            members = {n: self.shape(fs) for n, fs in l[1]}
            if l[2]:
                self.counter += 1
                base = data.Struct if t == "struct" else data.Union
                return type(base)(f"Agg{self.counter}", (base,), {"__annotations__": dict(members)})
            return data.StructLayout(members) if t == "struct" else data.UnionLayout(members)
        if t == "array":
            return data.ArrayLayout(self.shape(l[1]), l[2])
        return data.FlexibleLayout(l[1], {k: data.Field(self.shape(fs), off) for k, fs, off in l[2]})


def describe(x):
    """a field value read from a constant or from the simulator, as the driver prints it"""
    import enum as py_enum
    from amaranth.lib import data
    if isinstance(x, data.Const):
        return f"c{x.as_bits()}"
    if isinstance(x, py_enum.Enum):
        return f"m{x.value}"
    if isinstance(x, bool):
        return f"i{int(x)}"
    if isinstance(x, int):
        return f"i{x}"
    return f"?{type(x).__name__}"


def attempt(f):
    try:
        return describe(f())
    except ValueError:
        return "inv"
    except TypeError:
        return "te"
    except Exception as e:      # noqa
        return "err:" + errkind(e)


def build_init(init, obj, cast, fsdescr, env):
    """python initialiser for a field whose amaranth shape object is `obj`"""
    from amaranth.hdl import Const as HConst, Shape
    from amaranth.lib import data
    t = init[0]
    if t == "none":
        return None
    if t == "bits":
        return data.Layout.cast(obj).from_bits(init[1])
    if t == "int":
        if fsdescr[0] == "enum" and init[2] == "member":
            return env.enum_class(fsdescr[1])(init[1])
        if fsdescr[0] == "p" and init[2] == "const":
            return HConst(init[1], Shape.cast(obj))
        return init[1]
    # map
    if fsdescr[0] in ("p", "enum"):
        return {}
    lay = data.Layout.cast(obj)
    sub = sub_descrs(fsdescr)
    items = []
    for k, v in init[1]:
        if k in sub:
            items.append((k, build_init(v, lay[k].shape, None, sub[k], env)))
        else:
            items.append((k, 0))
    if init[2]:
        return [v for _k, v in items]
    return dict(items)


def sub_descrs(l):
    if l[0] in ("struct", "union"):
        return {n: fs for n, fs in l[1]}
    if l[0] == "array":
        return {i: l[1] for i in range(l[2])}
    return {k: fs for k, fs, _o in l[2]}


def observe(case):
    """run one case on the real code; returns a picklable dict of observations"""
    import warnings
    warnings.simplefilter("ignore")
    from amaranth.hdl import Signal, Module, Value, Shape, Const as HConst
    from amaranth.lib import data
    from amaranth.sim import Simulator
    enums = case["enums"]
    env = Env(enums)
    l = case["layout"]
    obs = {}
    try:
        obj = env.layout(l)
        lay = data.Layout.cast(obj)
    except Exception as e:
        obs["build"] = ("error", errkind(e), repr(e)[:160])
        return obs
    obs["build"] = ("ok",)
    # --- placement
    try:
        obs["size"] = lay.size
        obs["iter"] = [(k, f.offset, f.width) for k, f in lay]
        obs["get"] = [(lay[k].offset, lay[k].width) for k, _f in lay]
        obs["shape"] = (Shape.cast(obj).width, Shape.cast(obj).signed)
        if isinstance(lay, data.ArrayLayout) and lay.length:
            obs["neg_index"] = (lay[-1].offset == lay[lay.length - 1].offset)
    except Exception as e:
        obs["placement_error"] = (errkind(e), repr(e)[:160])
        return obs
    keys = [k for k, _f in lay]
    # --- constants: from_bits / as_bits / as_value / fields / the const(from_bits) law
    reads = []
    for raw in case["raws"]:
        r = {}
        try:
            c = obj.from_bits(raw)
            r["fb"] = ("ok", c.as_bits(), HConst.cast(c).value)
        except Exception as e:
            r["fb"] = ("error", errkind(e))
            reads.append(r)
            continue
        try:
            r["law"] = ("ok", HConst.cast(obj.const(c)).value)
        except Exception as e:
            r["law"] = ("error", errkind(e))
        r["fields"] = [attempt(lambda k=k: c[k]) for k in keys]
        reads.append(r)
    obs["reads"] = reads
    for raw in case["bad_raws"]:
        try:
            obj.from_bits(raw)
            obs.setdefault("bad_raws", []).append("ok")
        except Exception as e:
            obs.setdefault("bad_raws", []).append(errkind(e))
    # --- constants from field values
    consts = []
    for init in case["inits"]:
        r = {}
        try:
            pyinit = build_init(init, obj, None, l, env)
        except Exception as e:
            r["const"] = ("harness-error", errkind(e), traceback.format_exc()[-300:])
            consts.append(r)
            continue
        try:
            c = obj.const(pyinit)
            r["const"] = ("ok", c.as_bits())
            r["readback"] = [attempt(lambda k=k: c[k]) for k in keys]
        except Exception as e:
            r["const"] = ("error", errkind(e), repr(e)[:120])
        try:
            s = Signal(obj, init=pyinit)
            r["siginit"] = ("ok", Value.cast(s).init)
        except Exception as e:
            r["siginit"] = ("error", errkind(e), repr(e)[:120])
        consts.append(r)
    obs["consts"] = consts
    # --- simulation of views
    obs["sim"] = simulate(case, env, obj, lay)
    return obs


def follow(view, path):
    x = view
    for k in path:
        x = x[k]
    return x


def simulate(case, env, obj, lay):
    from amaranth.hdl import Signal, Module, Value, Shape, Const as HConst
    from amaranth.lib import data
    from amaranth.sim import Simulator, Period
    from amaranth.back import rtlil
    out = {}
    size = lay.size
    try:
        sig = Signal(obj, name="sig")
    except Exception as e:
        out["signal"] = ("error", errkind(e), repr(e)[:160])
        return out
    out["signal"] = ("ok",)
    try:
        like = Signal.like(sig)
        out["like"] = ("ok", Value.cast(like).init)
    except Exception as e:
        out["like"] = ("error", errkind(e), repr(e)[:160])
    m = Module()
    base = Signal(size, name="base")
    m.d.sync += Signal(name="dummy").eq(1)
    read_objs = []
    for path in case["read_paths"]:
        try:
            read_objs.append(("ok", follow(sig, path)))
        except Exception as e:
            read_objs.append(("error", errkind(e), repr(e)[:120]))
    # circuit writes: dst = base with one field replaced (later assignment wins per bit)
    cw = []
    for path, _fs in case["write_paths"]:
        try:
            dst = Signal(obj, name="dst")
            fld = follow(dst, path)
            fshape = Shape.cast(Value.cast(fld).shape())
            val = Signal(fshape, name="val")
            m.d.comb += Value.cast(dst).eq(base)
            m.d.comb += fld.eq(val)
            reg = Signal(obj, name="reg")
            rfld = follow(reg, path)
            m.d.sync += rfld.eq(val)
            cw.append(("ok", dst, val, reg, (fshape.width, fshape.signed)))
        except Exception as e:
            cw.append(("error", errkind(e), repr(e)[:120]))
    # dynamic index of the first array on a path
    dyn = None
    if case["dyn"] is not None:
        prefix, n = case["dyn"]
        try:
            arr = follow(sig, prefix)
            idx = Signal(range(max(n, 1)), name="idx")
            dyn = ("ok", arr[idx], idx)
        except Exception as e:
            dyn = ("error", errkind(e), repr(e)[:120])
    res = {"reads": [], "tbw": [], "cw": [], "sw": [], "dyn": [], "dynw_tb": [], "dynw_proc": []}
    req = Signal(name="req")
    cmd = {}

    def field_value(fld, fs, v):
        if fs[0] == "enum":
            return env.enum_class(fs[1])(v)
        if fs[0] == "p":
            return v
        return fld.shape().from_bits(v)

    async def writer(ctx):
        # a simulator process that performs the write it is told to
        async for _ in ctx.changed(req):
            if not cmd:
                continue
            try:
                ctx.set(cmd["target"], cmd["value"])
                cmd["result"] = ("ok",)
            except Exception as e:
                cmd["result"] = ("error", errkind(e), repr(e)[:120])

    async def tb(ctx):
        for raw in case["sim_raws"]:
            ctx.set(Value.cast(sig), raw)
            row = []
            for ro in read_objs:
                if ro[0] != "ok":
                    row.append("err:" + ro[1])
                else:
                    row.append(attempt(lambda ro=ro: ctx.get(ro[1])))
            res["reads"].append(row)
            if dyn is not None and dyn[0] == "ok":
                drow = []
                for i in range(case["dyn"][1]):
                    ctx.set(dyn[2], i)
                    drow.append(attempt(lambda: ctx.get(dyn[1])))
                res["dyn"].append(drow)
        # testbench writes through the field
        for (path, fs), cases_ in zip(case["write_paths"], case["writes"]):
            row = []
            for raw, v, vinit in cases_:
                ctx.set(Value.cast(sig), raw)
                try:
                    fld = follow(sig, path)
                    if fs[0] == "enum":
                        pyv = env.enum_class(fs[1])(v)
                    elif fs[0] == "p":
                        pyv = v
                    else:
                        pyv = fld.shape().from_bits(v)
                    ctx.set(fld, pyv)
                    row.append(("ok", ctx.get(Value.cast(sig))))
                except Exception as e:
                    row.append(("error", errkind(e), repr(e)[:120]))
            res["tbw"].append(row)
        # writes through (fields of) a dynamically indexed array element: from the testbench and from a process
        if dyn is not None and dyn[0] == "ok":
            for i, sub, fs, cases_ in case.get("dyn_writes", []):
                trow, prow = [], []
                for raw, v in cases_:
                    for how, row in (("tb", trow), ("proc", prow)):
                        ctx.set(Value.cast(sig), raw)
                        ctx.set(dyn[2], i)
                        try:
                            fld = follow(dyn[1], sub)
                            pyv = field_value(fld, fs, v)
                            if how == "tb":
                                ctx.set(fld, pyv)
                            else:
                                cmd.clear()
                                cmd.update(target=fld, value=pyv)
                                ctx.set(req, 1 - ctx.get(req))
                                if cmd.get("result", ("ok",))[0] != "ok":
                                    row.append(cmd["result"])
                                    continue
                            row.append(("ok", ctx.get(Value.cast(sig))))
                        except Exception as e:
                            row.append(("error", errkind(e), repr(e)[:120]))
                res["dynw_tb"].append(trow)
                res["dynw_proc"].append(prow)
        # circuit writes (comb), then registered writes (sync)
        for c, cases_ in zip(cw, case["writes"]):
            row = []
            srow = []
            if c[0] != "ok":
                res["cw"].append([("error", c[1], c[2])])
                res["sw"].append([("error", c[1], c[2])])
                continue
            _ok, dst, val, reg, (fw, fsig) = c
            for raw, v, _vinit in cases_:
                nv = v & ((1 << fw) - 1)
                if fsig and fw and nv >> (fw - 1):
                    nv -= 1 << fw
                ctx.set(base, raw)
                ctx.set(val, nv)
                row.append(("ok", ctx.get(Value.cast(dst))))
            for raw, v, _vinit in cases_[:2]:
                nv = v & ((1 << fw) - 1)
                if fsig and fw and nv >> (fw - 1):
                    nv -= 1 << fw
                ctx.set(Value.cast(reg), raw)
                ctx.set(val, nv)
                await ctx.tick()
                srow.append(("ok", ctx.get(Value.cast(reg))))
            res["cw"].append(row)
            res["sw"].append(srow)

    try:
        sim = Simulator(m)
        sim.add_clock(Period(MHz=1))
        sim.add_process(writer)
        sim.add_testbench(tb)
        sim.run()
        out["run"] = ("ok",)
    except Exception as e:
        out["run"] = ("error", errkind(e), traceback.format_exc()[-400:])
    out.update(res)
    out["read_errors"] = [ro[1:] if ro[0] != "ok" else None for ro in read_objs]
    out["dyn_error"] = dyn[1:] if dyn is not None and dyn[0] != "ok" else None
    if case["rtlil"]:
        try:
            ports = [base] + [c[2] for c in cw if c[0] == "ok"] + [Value.cast(c[1]) for c in cw if c[0] == "ok"]
            text = rtlil.convert(m, ports=ports)
            out["rtlil"] = ("ok", "module" in text)
        except Exception as e:
            out["rtlil"] = ("error", errkind(e), repr(e)[:160])
    return out


def layout_job(cases):
    out = []
    for case in cases:
        try:
            out.append(observe(case))
        except Exception as e:
            out.append({"crash": (errkind(e), traceback.format_exc()[-600:])})
    return out


# --- enumerations and flags (worker) ------------------------------------------------------------

def enum_job(jobs):
    import warnings
    warnings.simplefilter("ignore")
    import enum as py_enum
    import operator
    from amaranth.hdl import Signal, Module, Value, Const as HConst, Shape
    from amaranth.sim import Simulator
    from amaranth.back import rtlil
    out = []
    for e, values, pairs, want_rtlil in jobs:
        kind, w, s, members = e
        env = Env([e])
        r = {}
        try:
            cls = env.enum_class(0)
        except Exception as ex:
            out.append({"class": ("error", errkind(ex), repr(ex)[:160])})
            continue
        r["class"] = ("ok", (Shape.cast(cls).width, Shape.cast(cls).signed))
        cs, fbs = [], []
        for v in values:
            try:
                cs.append(("ok", HConst.cast(cls.const(v)).value))
            except Exception as ex:
                cs.append(("error", errkind(ex)))
            try:
                mem = cls.from_bits(v)
                if not isinstance(mem, cls):
                    fbs.append(("ejected", mem))
                else:
                    try:
                        back = ("ok", HConst.cast(cls.const(mem)).value)
                    except Exception as ex:
                        back = ("error", errkind(ex))
                    fbs.append(("ok", mem.value, back))
            except Exception as ex:
                fbs.append(("error", errkind(ex)))
        r["const"], r["frombits"] = cs, fbs
        try:
            r["none"] = ("ok", HConst.cast(cls.const(None)).value)
        except Exception as ex:
            r["none"] = ("error", errkind(ex))
        if kind == "e" and want_rtlil:
            try:
                first = cls(members[0][1])
                a, o = Signal(cls, name="a", init=first), Signal(cls, name="o", init=first)
                m = Module()
                m.d.comb += o.eq(a)
                text = rtlil.convert(m, ports=[Value.cast(a), Value.cast(o)])
                r["rtlil"] = ("ok", "module" in text)
            except Exception as ex:
                r["rtlil"] = ("error", errkind(ex), repr(ex)[:160])
        if kind != "e":
            PF = py_enum.Flag("PF", list(members), boundary=getattr(py_enum, kind.upper()))
            a, b = Signal(cls, name="a"), Signal(cls, name="b")
            m = Module()
            outs = {}
            try:
                for name, f in [("and", lambda: a & b), ("or", lambda: a | b), ("xor", lambda: a ^ b), ("inv", lambda: ~a)]:
                    o = Signal(cls, name="o_" + name)
                    m.d.comb += o.eq(f())
                    outs[name] = (o, f())
                r["build"] = ("ok",)
            except Exception as ex:
                r["build"] = ("error", errkind(ex), repr(ex)[:160])
                out.append(r)
                continue
            rows = []

            def oracle(name, x, y):
                try:
                    px, py = PF(x), PF(y)
                    if not isinstance(px, PF) or not isinstance(py, PF):
                        return ("novalue",)
                    res = {"and": operator.and_, "or": operator.or_, "xor": operator.xor}[name](px, py) if name != "inv" else ~px
                    if isinstance(res, PF):
                        return ("ok", res.value)
                    return ("ejected", res)
                except Exception as ex:
                    return ("error", errkind(ex))

            async def tb(ctx):
                for x, y in pairs:
                    ctx.set(Value.cast(a), x)
                    ctx.set(Value.cast(b), y)
                    row = {}
                    for name, (o, expr) in outs.items():
                        try:
                            circ = ctx.get(Value.cast(o))
                            tbv = ctx.get(Value.cast(expr))
                            try:
                                lifted = ctx.get(expr)
                                lifted = ("ok", lifted.value) if isinstance(lifted, cls) else ("ejected", lifted)
                            except Exception as ex:
                                lifted = ("error", errkind(ex))
                            row[name] = ("ok", circ, tbv, lifted, oracle(name, x, y))
                        except Exception as ex:
                            row[name] = ("error", errkind(ex), repr(ex)[:120])
                    rows.append(row)
            try:
                sim = Simulator(m)
                sim.add_testbench(tb)
                sim.run()
                r["run"] = ("ok",)
            except Exception as ex:
                r["run"] = ("error", errkind(ex), traceback.format_exc()[-300:])
            r["rows"] = rows
            # value-typed right operand and reflected operators
            try:
                member = cls(combinations(e)[-1])
                r["mixed"] = ("ok", repr(a & member) != "", repr(member | a) != "")
            except Exception as ex:
                r["mixed"] = ("error", errkind(ex), repr(ex)[:120])
            if want_rtlil:
                try:
                    text = rtlil.convert(m, ports=[Value.cast(a), Value.cast(b)] + [Value.cast(o) for o, _ in outs.values()])
                    r["rtlil"] = ("ok", "module" in text)
                except Exception as ex:
                    r["rtlil"] = ("error", errkind(ex), repr(ex)[:160])
        out.append(r)
    return out


# ------------------------------------------------------------------------------------------------
# cases

def make_case(rng, depth, exhaustive_bits=10, n_random_raws=24, malformed=0.1, rtlil=False):
    enums = []
    for _ in range(40):
        enums.clear()
        l = gen_layout(rng, depth - 1, enums, None)
        if layout_size(l, enums) <= 72:
            break
    size = layout_size(l, enums)
    if size <= exhaustive_bits:
        raws = list(range(1 << size))
        exhaustive = True
    else:
        raws = sorted({rng.getrandbits(size) for _ in range(n_random_raws)} | {0, (1 << size) - 1})
        exhaustive = False
    sim_raws = raws if len(raws) <= 16 else rng.sample(raws, 12)
    paths = all_paths(l, enums)
    read_paths = [p for p, _fs in paths]
    wp = [pf for pf in paths]
    rng.shuffle(wp)
    write_paths = wp[:6]
    writes = []
    for p, fs in write_paths:
        cs = []
        for _ in range(4):
            raw = rng.choice(raws)
            if fs[0] == "p":
                v = rng.randint(-(1 << (fs[1] + 1)), 1 << (fs[1] + 1))
            elif fs[0] == "enum":
                vals = valid_values(enums[fs[1]])
                v = rng.choice(vals) if vals else 0
            else:
                sz = layout_size(fs, enums)
                v = rng.getrandbits(sz) if sz else 0
            cs.append((raw, v, None))
        writes.append(cs)
    dyn, dyn_writes = pick_dyn(rng, l, enums, paths, raws)
    inits = [gen_init(rng, l, enums, malformed if rng.random() < 0.4 else 0.0) for _ in range(5)]
    inits = [i for i in inits]
    bad_raws = [1 << size, -1]
    return {"layout": l, "enums": list(enums), "raws": raws, "bad_raws": bad_raws, "sim_raws": sim_raws,
            "read_paths": read_paths, "write_paths": write_paths, "writes": writes, "dyn": dyn, "dyn_writes": dyn_writes,
            "inits": inits,
            "exhaustive": exhaustive, "size": size, "rtlil": rtlil}


def random_field_value(rng, fs, enums):
    if fs[0] == "p":
        return rng.randint(-(1 << (fs[1] + 1)), 1 << (fs[1] + 1))
    if fs[0] == "enum":
        vals = valid_values(enums[fs[1]])
        return rng.choice(vals) if vals else 0
    sz = layout_size(fs, enums)
    return rng.getrandbits(sz) if sz else 0


def pick_dyn(rng, l, enums, paths, raws):
    """the array that is indexed with a signal (an array of aggregates when there is one), and the writes made through
    its dynamically selected element: the whole element and fields inside it (all offsets), for in-range indices"""
    cands = [(p, fs) for p, fs in [((), l)] + list(paths)
             if fs[0] == "array" and fs[2] > 0 and fs_width(fs[1], enums) > 0]
    if not cands:
        return None, []
    agg = [c for c in cands if c[1][1][0] not in ("p", "enum") and fields_of(c[1][1], enums)]
    prefix, arr = rng.choice(agg) if agg else cands[0]
    elem, n = arr[1], arr[2]
    subs = [((), elem)]
    if elem[0] not in ("p", "enum"):
        inner = all_paths(elem, enums, limit=12)
        nonzero = [pf for pf in inner if len(pf[0]) == 1 and dict((k, o) for k, _f, o, _w in fields_of(elem, enums)).get(pf[0][0], 0) > 0]
        rng.shuffle(inner)
        subs += nonzero[:2] + inner[:2]
    out = []
    for sub, fs in subs[:5]:
        for i in sorted(set([0, n - 1, rng.randrange(n)])):
            out.append((i, sub, fs, [(rng.choice(raws), random_field_value(rng, fs, enums)) for _ in range(2)]))
    return (prefix, n), out


CORPUS = [
    # F11: bare union, const(from_bits(raw)) / Signal.like
    {"layout": ("union", (("a", ("p", 4, False, "int")), ("b", ("p", 2, False, "int"))), False), "enums": []},
    # F12: signed shaped enumeration as struct field, array element, nested
    {"layout": ("struct", (("e", ("enum", 0)), ("x", ("p", 2, False, "int"))), False),
     "enums": [("e", 3, True, (("N", -2), ("Z", 0), ("P", 3)))]},
    {"layout": ("array", ("enum", 0), 2), "enums": [("e", 3, True, (("N", -2), ("Z", 0), ("P", 3)))]},
    # documented examples of the module
    {"layout": ("struct", (("first", ("p", 3, False, "int")), ("second", ("p", 7, False, "int")), ("third", ("p", 6, False, "int"))), False), "enums": []},
    {"layout": ("flex", 16, (("first", ("p", 3, False, "fn"), 1), ("second", ("p", 7, False, "fn"), 0),
                             ("third", ("p", 6, False, "fn"), 10), (0, ("p", 1, False, "fn"), 14))), "enums": []},
    # an array of structures: fields at non-zero offsets inside elements selected with a signal
    {"layout": ("array", ("struct", (("lo", ("p", 3, False, "fn")), ("mid", ("p", 4, True, "fn")), ("hi", ("p", 2, False, "fn"))), False), 4),
     "enums": []},
    # malformed: a flexible field beyond the size
    {"layout": ("flex", 3, (("a", ("p", 3, False, "int"), 1),)), "enums": []},
]


def corpus_case(rng, entry):
    l, enums = entry["layout"], entry["enums"]
    size = layout_size(l, enums)
    raws = list(range(1 << size)) if size <= 10 else sorted({rng.getrandbits(size) for _ in range(16)})
    paths = all_paths(l, enums)
    writes = []
    for p, fs in paths[:6]:
        cs = []
        for _ in range(3):
            if fs[0] == "enum":
                v = rng.choice(valid_values(enums[fs[1]]))
            elif fs[0] == "p":
                v = rng.randint(-8, 8)
            else:
                v = rng.getrandbits(layout_size(fs, enums))
            cs.append((rng.choice(raws), v, None))
        writes.append(cs)
    dyn, dyn_writes = pick_dyn(rng, l, enums, paths, raws)
    return {"layout": l, "enums": enums, "raws": raws, "bad_raws": [1 << size, -1], "sim_raws": raws[:12],
            "read_paths": [p for p, _ in paths], "write_paths": paths[:6], "writes": writes, "dyn": dyn, "dyn_writes": dyn_writes,
            "inits": [gen_init(rng, l, enums, 0.0) for _ in range(4)] + [("bits", raws[-1])],
            "exhaustive": size <= 10, "size": size, "rtlil": True}


# ------------------------------------------------------------------------------------------------
# judging

def lifted_tokens(s):
    return [] if s == "-" else s.split(",")


def requests_for(case):
    L = ser_layout(case["layout"], case["enums"])
    reqs = [f"(layout {L})"]
    reqs.append(f"(read {L} " + " ".join(str(r) for r in case["raws"]) + ")")
    for init in case["inits"]:
        reqs.append(f"(const {L} {ser_init(init)})")
    for p in case["read_paths"]:
        reqs.append(f"(readpath {L} ({' '.join(ser_key(k) for k in p)}) " + " ".join(str(r) for r in case["sim_raws"]) + ")")
    for (p, _fs), cs in zip(case["write_paths"], case["writes"]):
        reqs.append(f"(write {L} ({' '.join(ser_key(k) for k in p)}) " + " ".join(f"({raw} {v})" for raw, v, _ in cs) + ")")
    if case["dyn"] is not None:
        prefix, n = case["dyn"]
        for i in range(n):
            reqs.append(f"(readpath {L} ({' '.join(ser_key(k) for k in prefix + (i,))}) " + " ".join(str(r) for r in case["sim_raws"]) + ")")
        for i, sub, _fs, cs in case["dyn_writes"]:
            reqs.append(f"(write {L} ({' '.join(ser_key(k) for k in prefix + (i,) + tuple(sub))}) " +
                        " ".join(f"({raw} {v})" for raw, v in cs) + ")")
    return reqs


class Judge:
    """one per case: reports each kind of disagreement once per case (the first input), counts the rest"""

    def __init__(self, chk):
        self.chk = chk
        self.seen = {}

    def differ(self, what, case, impl, model, spec, extra=None, classes=()):
        """impl differs from model and/or spec on a concrete input"""
        classes = sorted(set(classes))
        kind = (what.split("[")[0].split("(")[0], tuple(classes), impl != spec)
        self.seen[kind] = self.seen.get(kind, 0) + 1
        self.chk.hist("disagreements", "/".join(sorted(classes)) or "unclassified")
        if self.seen[kind] > 1:
            return
        replay = {"what": what, "layout": ser_layout(case["layout"], case["enums"]), "abstract": repr(case["layout"]),
                  "enums": repr(case["enums"]), "impl": impl, "model": model, "spec": spec, "classes": sorted(set(classes))}
        if extra:
            replay.update(extra)
        if impl != spec:
            self.chk.violation(f"{what}: amaranth gives {impl!r}, the property requires {spec!r} "
                               f"[{ser_layout(case['layout'], case['enums'])[:160]}]", replay)
        else:
            self.chk.not_shown(f"{what}: amaranth agrees with the spec but not with the model", replay)

    def cmp(self, what, case, impl, model, spec, extra=None, classes=()):
        if impl == model and impl == spec:
            return True
        self.differ(what, case, impl, model, spec, extra, classes)
        return False


def judge_layout(chk, case, obs, resps):
    J = Judge(chk)
    l, enums = case["layout"], case["enums"]
    signed_enum = has_signed_enum_field(l, enums)
    bare_union = l[0] == "union" and not l[2]
    it = iter(resps)
    lay_r = common.kv(next(it))
    read_r = next(it)
    const_rs = [next(it) for _ in case["inits"]]
    path_rs = [next(it) for _ in case["read_paths"]]
    write_rs = [next(it) for _ in case["write_paths"]]
    dyn_rs = [next(it) for _ in range(case["dyn"][1])] if case["dyn"] is not None else []
    dynw_rs = [next(it) for _ in case["dyn_writes"]] if case["dyn"] is not None else []
    if "crash" in obs:
        chk.not_shown("harness worker crashed", {"layout": repr(l), "crash": obs["crash"]})
        return
    chk.hist("kind", l[0])
    chk.hist("depth", depth_of(l))
    chk.hist("size", min(case["size"], 79) // 8 * 8)
    chk.hist("signed_enum_field", signed_enum)
    key = (ser_layout(l, enums),)
    chk.distinct(key, nontrivial=case["size"] > 0 and len(fields_of(l, enums)) > 0)
    # --- construction
    model_ok = lay_r.get("deep") == "1"
    if obs["build"][0] != "ok":
        chk.count(1)
        chk.hist("build", obs["build"][1])
        J.cmp("constructor rejection", case, obs["build"][1], "ok" if model_ok else "ValueError",
              "ok" if model_ok else "ValueError", {"detail": obs["build"][2]})
        return
    if not model_ok:
        J.differ("constructor accepts a field beyond the layout's size", case, "ok", "ValueError", "ValueError")
        return
    if "placement_error" in obs:
        J.differ("placement raises", case, obs["placement_error"][0], "ok", "ok", {"detail": obs["placement_error"][1]})
        return
    # --- placement
    chk.count(1)
    m_iter = [(t.split(":")[0] + ":" + t.split(":")[1], int(t.split(":")[2]), int(t.split(":")[3])) for t in lifted_tokens(lay_r["iter"])]
    i_iter = [(ser_key(k), o, w) for k, o, w in obs["iter"]]
    s_offs = [int(x) for x in lifted_tokens(lay_r["soffs"])]
    J.cmp("size", case, obs["size"], int(lay_r["size"]), int(lay_r["ssize"]))
    J.cmp("field offsets (iteration)", case, [o for _k, o, _w in i_iter], [o for _k, o, _w in m_iter], s_offs)
    J.cmp("field keys and widths", case, [(k, w) for k, _o, w in i_iter], [(k, w) for k, _o, w in m_iter],
          [(k, w) for k, _o, w in m_iter])
    m_get = [tuple(int(x) for x in t.split(":")) for t in lifted_tokens(lay_r["get"])]
    J.cmp("field offsets (indexing)", case, [tuple(x) for x in obs["get"]], m_get, list(zip(s_offs, [w for _k, _o, w in m_iter])))
    J.cmp("shape of the layout", case, tuple(obs["shape"]), (int(lay_r["size"]), False), (int(lay_r["ssize"]), False))
    if obs.get("neg_index") is False:
        J.differ("negative array index", case, False, True, True)
    # --- constants
    per_raw = read_r.split(" ; ") if case["raws"] else []
    keys = [k for k, _o, _w in i_iter]
    fl = fields_of(l, enums)
    for raw, r, mr in zip(case["raws"], obs["reads"], per_raw):
        chk.count(1)
        d = common.kv(mr)
        ex = {"raw": raw}
        mfb = d["fb"].split(":")
        J.cmp("from_bits/as_bits/as_value", case, tuple(r["fb"]), ("ok", int(mfb[1]), int(mfb[2])), ("ok", raw, raw), ex)
        if r["fb"][0] != "ok":
            continue
        law_m = d["law"].split(":")
        law_i = ("ok", r["law"][1]) if r["law"][0] == "ok" else ("err", r["law"][1])
        law_model = ("ok", int(law_m[1])) if law_m[0] == "ok" else ("err", law_m[1])
        cls = [F11] if (bare_union and law_i == ("err", "TypeError")) else []
        J.cmp("Const.cast(l.const(l.from_bits(raw))).value == raw", case, law_i, law_model, ("ok", raw), ex, cls)
        mc, mv, sp = lifted_tokens(d["mc"]), lifted_tokens(d["mv"]), lifted_tokens(d["sp"])
        for j, k in enumerate(keys):
            fs = fl[j][1]
            cls = []
            if fs[0] == "enum" and enums[fs[1]][2] and r["fields"][j] != sp[j]:
                cls = [F12]
            J.cmp(f"Const[{k}]", case, r["fields"][j], mc[j], sp[j], dict(ex, key=k), cls)
            if mv[j] != mc[j]:
                chk.not_shown("model: view and constant readings differ", {"layout": key, "raw": raw, "key": k})
    for braw, got in zip(case["bad_raws"], obs.get("bad_raws", [])):
        J.cmp("from_bits of a pattern outside the layout", case, got, "ValueError", "ValueError", {"raw": braw})
    # --- constants from field values
    for init, r, mr in zip(case["inits"], obs["consts"], const_rs):
        chk.count(1)
        d = common.kv(mr)
        ex = {"init": ser_init(init)}
        if r["const"][0] == "harness-error":
            chk.not_shown("harness could not build an initialiser", {"layout": key, "init": ser_init(init), "detail": r["const"][2]})
            continue
        mm = d["model"].split(":")
        model = ("ok", int(mm[1])) if mm[0] == "ok" else ("err", mm[1])
        spec = ("ok", int(d["spec"])) if d["spec"] != "-" and mm[0] == "ok" else model
        impl = ("ok", r["const"][1]) if r["const"][0] == "ok" else ("err", r["const"][1])
        cls = [F11] if (impl == ("err", "TypeError") and bare_union_gets_bits(l, init)) else []
        chk.hist("const_outcome", impl[0] if impl[0] == "ok" else impl[1])
        J.cmp("Layout.const(init)", case, impl, model, spec, ex, cls)
        si = ("ok", r["siginit"][1]) if r["siginit"][0] == "ok" else ("err", r["siginit"][1])
        exp_si = model if model[0] == "ok" else ("err", "TypeError")
        cls2 = list(cls)
        if si == ("err", "TypeError") and signed_enum:
            cls2.append(F12)
        if si == ("err", "TypeError") and bare_union_gets_bits(l, init):
            cls2.append(F11)
        J.cmp("Signal(layout, init=...).init", case, si, exp_si, spec if spec[0] == "ok" else exp_si, ex, cls2)
    # --- simulation
    sim = obs["sim"]
    if sim["signal"][0] != "ok":
        chk.count(1)
        J.differ("Signal(layout)", case, sim["signal"][1], "ok", "ok", {"detail": sim["signal"][2]},
                 [F12] if (signed_enum and sim["signal"][1] == "TypeError") else [])
        return
    if sim["like"][0] != "ok":
        J.differ("Signal.like(Signal(layout))", case, sim["like"][1], "ok", "ok", {"detail": sim["like"][2]},
                 [F11] if (bare_union and sim["like"][1] == "TypeError") else [])
    elif sim["like"][1] != 0:
        J.differ("Signal.like(Signal(layout)).init", case, sim["like"][1], 0, 0)
    if sim["run"][0] != "ok":
        J.differ("simulation", case, sim["run"][1], "ok", "ok", {"detail": sim["run"][2]})
        return
    for j, (p, mr) in enumerate(zip(case["read_paths"], path_rs)):
        parts = mr.split(" ; ")
        for raw, row, pr in zip(case["sim_raws"], sim["reads"], parts[1:]):
            chk.count(1)
            d = common.kv(pr)
            cls = [F12] if (signed_enum and row[j] in ("te", "err:TypeError", "inv") and row[j] != d["sp"]) else []
            J.cmp(f"ctx.get(view{list(p)})", case, row[j], d["m"], d["sp"], {"raw": raw, "path": list(p)}, cls)
    if case["dyn"] is not None and sim.get("dyn_error") is None:
        prefix, n = case["dyn"]
        for i, mr in enumerate(dyn_rs):
            parts = mr.split(" ; ")
            for raw, drow, pr in zip(case["sim_raws"], sim["dyn"], parts[1:]):
                chk.count(1)
                d = common.kv(pr)
                J.cmp(f"ctx.get(view{list(prefix)}[idx={i}])", case, drow[i], d["m"], d["sp"], {"raw": raw})
        chk.hist("dyn_writes", len(case["dyn_writes"]))
        for (i, sub, fs, cs), mr, trow, prow in zip(case["dyn_writes"], dynw_rs, sim["dynw_tb"], sim["dynw_proc"]):
            parts = mr.split(" ; ")
            off = int(common.kv(parts[0])["off"])
            chk.hist("dyn_write_field_offset_in_element", "0" if not sub else "field")
            sub_bare_union = fs[0] == "union" and not fs[2]
            for n_, ((raw, v), pr) in enumerate(zip(cs, parts[1:])):
                d = common.kv(pr)
                m_, s_ = int(d["m"]), int(d["sp"])
                for how, row in (("testbench", trow), ("process", prow)):
                    chk.count(1)
                    t = row[n_]
                    impl = t[1] if t[0] == "ok" else "err:" + t[1]
                    cls = [F11] if (t[0] != "ok" and t[1] == "TypeError" and sub_bare_union) else []
                    J.cmp(f"ctx.set(view{list(prefix)}[idx={i}]{list(sub)}, v) in a {how}, then read the signal", case,
                          impl, m_, s_, {"raw": raw, "value": v, "index": i, "path": list(prefix) + [i] + list(sub), "offset": off}, cls)
    elif case["dyn"] is not None:
        J.differ("dynamic index of an array view", case, sim["dyn_error"][0], "ok", "ok", {"detail": sim["dyn_error"][1]},
                 [F12] if signed_enum else [])
    for (p, fs), cs, mr, tbw, cw, sw in zip(case["write_paths"], case["writes"], write_rs, sim["tbw"], sim["cw"], sim["sw"]):
        parts = mr.split(" ; ")
        sub_bare_union = fs[0] == "union" and not fs[2]
        for n_, ((raw, v, _), pr) in enumerate(zip(cs, parts[1:])):
            chk.count(1)
            d = common.kv(pr)
            m_, s_ = int(d["m"]), int(d["sp"])
            ex = {"raw": raw, "value": v, "path": list(p)}
            t = tbw[n_]
            impl = t[1] if t[0] == "ok" else "err:" + t[1]
            cls = []
            if t[0] != "ok" and t[1] == "TypeError":
                if sub_bare_union:
                    cls.append(F11)
                if signed_enum:
                    cls.append(F12)
            J.cmp(f"ctx.set(view{list(p)}, v) then read the signal", case, impl, m_, s_, ex, cls)
            if cw and cw[0][0] == "error":
                if n_ == 0:
                    J.differ(f"circuit assignment to view{list(p)}", case, "err:" + cw[0][1], m_, s_, dict(ex, detail=cw[0][2]),
                             [F12] if signed_enum else [])
            else:
                J.cmp(f"comb assignment to view{list(p)}", case, cw[n_][1], m_, s_, ex)
                if n_ < len(sw):
                    J.cmp(f"sync assignment to view{list(p)}", case, sw[n_][1], m_, s_, ex)
    if "rtlil" in sim:
        chk.hist("rtlil", sim["rtlil"][0])
        if sim["rtlil"][0] != "ok" or not sim["rtlil"][1]:
            detail = sim["rtlil"][2] if len(sim["rtlil"]) > 2 else ""
            cls = [F17] if (has_negative_enum_member(l, enums) and "does not fit in" in detail) else []
            J.differ("rtlil.convert of a design using the views", case, sim["rtlil"][1], "ok", "ok", {"detail": detail}, cls)


def judge_enum(chk, job, r, resps):
    e, values, pairs, _ = job
    kind, w, s, members = e
    E = ser_enum(e)
    J = Judge(chk)
    fake_case = {"layout": ("struct", (("e", ("enum", 0)),), False), "enums": [e]}
    chk.hist("enum_kind", kind)
    chk.distinct(("enum", E), nontrivial=len(members) > 0)
    if r["class"][0] != "ok":
        chk.not_shown("enumeration class could not be built", {"enum": E, "detail": r["class"]})
        return
    it = iter(resps)
    c_parts = next(it).split(" ; ")
    f_parts = next(it).split(" ; ")
    unnamed = has_unnamed_bits(e)
    chk.hist("flag_unnamed_multibit", unnamed) if kind != "e" else None
    if c_parts[0] != "wf=1" and not unnamed:
        chk.not_shown("generated enumeration is not well-formed in the model", {"enum": E})
        return
    for v, ci, cm, fi, fm in zip(values, r["const"], c_parts[1:], r["frombits"], f_parts[1:]):
        chk.count(1)
        mm = cm.split(":")
        model = ("ok", int(mm[1])) if mm[0] == "ok" else ("error", mm[1])
        J.cmp(f"{kind}.const({v})", fake_case, tuple(ci), model, model, {"enum": E})
        fbm, backm = fm.split("/")
        if fbm == "inv":
            model_fb = ("error", "ValueError")
        elif fbm.startswith("m"):
            bm = backm.split(":")
            model_fb = ("ok", int(fbm[1:]), ("ok", int(bm[1])) if bm[0] == "ok" else ("error", bm[1]))
        else:
            model_fb = ("ejected", int(fbm[1:]))
        # the property's sentence: a member value (combination) round-trips to itself
        spec_fb = ("ok", v, ("ok", v)) if (enum_valid(e, v) and (kind == "e" or is_combination(e, v))) else model_fb
        J.cmp(f"{kind}.from_bits({v}) and back", fake_case, tuple(fi), model_fb, spec_fb, {"enum": E})
    if "rtlil" in r and kind == "e":
        chk.hist("rtlil_enum", r["rtlil"][0])
        if r["rtlil"][0] != "ok" or not r["rtlil"][1]:
            detail = r["rtlil"][2] if len(r["rtlil"]) > 2 else ""
            cls = [F17] if (any(v < 0 for _n, v in members) and "does not fit in" in detail) else []
            J.differ("rtlil.convert of a design with a Signal of the enumeration", fake_case, r["rtlil"][1], "ok", "ok",
                     {"enum": E, "detail": detail}, cls)
    if kind == "e":
        return
    if r.get("build", ("ok",))[0] != "ok" or r.get("run", ("ok",))[0] != "ok":
        J.differ("flag view operators", fake_case, (r.get("build"), r.get("run")), "ok", "ok", {"enum": E})
        return
    mask = 0
    for _n, mv in members:
        mask |= mv
    for name in ("and", "or", "xor", "inv"):
        parts = next(it).split(" ; ")
        for (x, y), row, pr in zip(pairs, r["rows"], parts[1:]):
            chk.count(1)
            d = common.kv(pr)
            m_, s_ = int(d["m"]), int(d["sp"])
            got = row[name]
            ex = {"enum": E, "x": x, "y": y, "op": name}
            if got[0] != "ok":
                J.differ(f"FlagView {name}", fake_case, "err:" + got[1], m_, s_, ex)
                continue
            _ok, circ, tbv, lifted, orc = got
            # the oracle: Python's own enum.Flag with the same members and boundary
            if orc[0] == "ok":
                pyv = orc[1]
            elif orc[0] == "ejected":
                pyv = orc[1] & ((1 << w) - 1)
            elif unnamed and orc[0] == "error":
                # the result is not a member combination and Python's class refuses it: no oracle value
                chk.hist("flag_oracle_refuses", name)
                continue
            else:
                chk.not_shown("Python's enum.Flag gave no value for a member combination", dict(ex, oracle=orc))
                continue
            if pyv != s_:
                chk.not_shown("the Spec's mask algebra is not what Python's enum.Flag computes", dict(ex, python=pyv, spec=s_))
                continue
            cls = []
            if name == "inv" and kind in ("keep", "eject") and w != mask.bit_length():
                cls = [F16]
            J.cmp(f"FlagView {name} (circuit)", fake_case, circ, m_, pyv, ex, cls)
            J.cmp(f"FlagView {name} (testbench)", fake_case, tbv, m_, pyv, ex, cls)
            if orc[0] == "ok" and lifted != ("ok", pyv) and not cls:
                J.differ(f"ctx.get(FlagView {name})", fake_case, lifted, ("ok", m_), ("ok", pyv), ex)
    if r["mixed"][0] != "ok":
        J.differ("FlagView op enum member", fake_case, r["mixed"][1], "ok", "ok", {"enum": E, "detail": r["mixed"][2]})
    if "rtlil" in r and (r["rtlil"][0] != "ok" or not r["rtlil"][1]):
        J.differ("rtlil.convert of flag operators", fake_case, r["rtlil"][1], "ok", "ok", {"enum": E})


def enum_requests(job):
    e, values, pairs, _ = job
    E = ser_enum(e)
    reqs = [f"(enum {E} const " + " ".join(str(v) for v in values) + ")",
            f"(enum {E} frombits " + " ".join(str(v) for v in values) + ")"]
    if e[0] != "e":
        ps = " ".join(f"({x} {y})" for x, y in pairs)
        for op in ("and", "or", "xor", "inv"):
            reqs.append(f"(flag {E} {op} {ps})")
    return reqs


def make_enum_job(rng, rtlil):
    e = gen_enum(rng, unnamed_bits=rng.random() < 0.45)
    kind, w, s, members = e
    lo, hi = (-(1 << max(w - 1, 0)), 1 << max(w - 1, 0)) if s else (0, 1 << w)
    values = list(range(lo - 1, hi + 1)) if kind == "e" else list(range(0, hi + 1))
    if has_unnamed_bits(e):
        # const/from_bits: member combinations, and values with a bit outside the declared flags
        mask = 0
        for _n, mv in members:
            mask |= mv
        values = [v for v in values if is_combination(e, v) or (v & ~mask)]
    vv = combinations(e) if kind != "e" else []
    if len(vv) <= 8:
        pairs = [(x, y) for x in vv for y in vv]
    else:
        pairs = [(rng.choice(vv), rng.choice(vv)) for _ in range(48)]
    return (e, values, pairs, rtlil)


# ------------------------------------------------------------------------------------------------

def chunks(xs, n):
    return [xs[i:i + n] for i in range(0, len(xs), n)]


def run(chk):
    if not chk.lean():
        chk.not_shown("Lean build of Properties/C15 failed", chk.build_log[-3000:])
        return
    rng = chk.rng
    quick = chk.tier == "quick"
    n_layouts = int(os.environ.get("VERIF_C15_LAYOUTS", 1100 if quick else 14000))
    n_enums = int(os.environ.get("VERIF_C15_ENUMS", 250 if quick else 3000))
    workers = int(os.environ.get("VERIF_WORKERS", min(16, os.cpu_count() or 4)))
    cases = [corpus_case(rng, c) for c in CORPUS]
    for i in range(n_layouts):
        depth = rng.choice([1, 2, 2, 3, 3, 4, 4])
        cases.append(make_case(rng, depth, rtlil=(i % (6 if quick else 10) == 0)))
    enum_jobs = [make_enum_job(rng, rtlil=(i % 5 == 0)) for i in range(n_enums)]
    # driver
    reqs, spans = [], []
    for c in cases:
        r = requests_for(c)
        spans.append((len(reqs), len(reqs) + len(r)))
        reqs += r
    espans = []
    for j in enum_jobs:
        r = enum_requests(j)
        espans.append((len(reqs), len(reqs) + len(r)))
        reqs += r
    with ProcessPoolExecutor(max_workers=workers) as ex:
        fut_l = [ex.submit(layout_job, ch) for ch in chunks(cases, 12)]
        fut_e = [ex.submit(enum_job, ch) for ch in chunks(enum_jobs, 12)]
        resps = chk.driver.ask(reqs)
        bad = [(q, r) for q, r in zip(reqs, resps) if r.startswith("error")]
        if bad:
            raise common.Infra(f"driver rejected a request: {bad[0][0][:300]} -> {bad[0][1]}")
        obs = [o for f in fut_l for o in f.result()]
        eobs = [o for f in fut_e for o in f.result()]
    n_exh = 0
    for c, o, (a, b) in zip(cases, obs, spans):
        judge_layout(chk, c, o, resps[a:b])
        n_exh += 1 if c["exhaustive"] else 0
    for j, o, (a, b) in zip(enum_jobs, eobs, espans):
        judge_enum(chk, j, o, resps[a:b])
    for c in cases[len(CORPUS):len(CORPUS) + 3]:
        chk.sample({"layout": ser_layout(c["layout"], c["enums"]), "raws": len(c["raws"]), "inits": [ser_init(i) for i in c["inits"][:2]]})
    chk.extra["exhaustive"] = {"layouts_with_all_bit_patterns": n_exh, "rule": "every raw pattern when size <= 10 bits, else 24 random ones plus all-zeros and all-ones",
                               "enum_values": "every value of the enumeration's shape plus one below and one above",
                               "flag_pairs": "all pairs of valid member combinations when there are at most 8, else 48 random pairs"}
    chk.cov["rule"] = ("random layout trees (struct/union/array/flexible, depth <= 4, plain signed/unsigned fields incl. width 0, "
                       "shaped Enum/Flag fields incl. signed ones, Struct/Union classes, flexible layouts with gaps and overlaps) built "
                       "from an abstract syntax; per layout: placement, from_bits/as_bits/as_value/const(from_bits) and every field for "
                       "the raw patterns, 5 random initialisers (40% of them malformed), Signal(init=), Signal.like, simulated reads of "
                       "every field path incl. a dynamic array index, testbench/comb/sync writes through 6 field paths, testbench and "
                       "process writes through the element (and fields at every offset inside it) of an array indexed with a signal, RTLIL conversion of "
                       "every 6th design; separately shaped Enum/Flag classes: const/from_bits of every value, & | ^ ~ on flag views "
                       "(circuit and testbench) against Python's enum.Flag. distinct = serialised layout / class; non-trivial = size > 0 and has fields")
    chk.assumptions += [
        "Flag classes have unsigned shapes and every member value fits the declared shape (no truncation warning)",
        "Flag classes with multi-bit members over bits that have no single-bit member are exercised in the flag stream on member "
        "combinations only (not as layout fields: Python accepts some and rejects other partial patterns of such members)",
        "RTLIL is only checked to elaborate; its behaviour is C04's subject",
        "Struct/Union classes are generated without default field values",
        "an array view is indexed with a signal only when its elements are wider than 0 bits (word_select rejects stride 0)",
        "negative initialisers of Flag classes (Python maps -1 to 'all flags') are not exercised",
    ]
